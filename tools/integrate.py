#!/usr/bin/env python3
"""Apply fix patches from /verif/fixes to /repo as 'fix:' commits and record them.
usage: integrate.py <name> [<name> ...]   (name = file stem under fixes/, e.g. C18-symlink-mtime)"""
import json, subprocess, sys, os
FIX = "/verif/fixes"
kf_path = "/verif/known_findings.json"
for name in sys.argv[1:]:
    patch, msgf = f"{FIX}/{name}.patch", f"{FIX}/{name}.msg"
    msg = open(msgf).read().strip()
    if not msg.startswith("fix:"):
        msg = "fix: " + msg
    r = subprocess.run(["git", "-C", "/repo", "apply", "--check", patch], capture_output=True, text=True)
    if r.returncode:
        r3 = subprocess.run(["git", "-C", "/repo", "apply", "--3way", patch], capture_output=True, text=True)
        if r3.returncode:
            print(f"!! {name}: does not apply: {r.stderr.strip()[:300]}")
            continue
    else:
        subprocess.run(["git", "-C", "/repo", "apply", patch], check=True)
    subprocess.run(["git", "-C", "/repo", "add", "-A"], check=True)
    subprocess.run(["git", "-C", "/repo", "commit", "-q", "-m", msg], check=True)
    h = subprocess.check_output(["git", "-C", "/repo", "rev-parse", "--short", "HEAD"], text=True).strip()
    pid = name.split("-")[0]
    d = json.load(open(kf_path))
    first = msg.splitlines()[0][4:].strip()
    d["findings"].append({"property": pid, "status": "fixed", "commit": h, "what": f"fixed: property={pid} {h} {first}"})
    json.dump(d, open(kf_path, "w"), indent=1)
    st = subprocess.check_output(["git", "-C", "/repo", "show", "--stat", "--format=", "HEAD"], text=True).strip().splitlines()[-1]
    print(f"ok {name} -> {h}  [{st.strip()}]")
