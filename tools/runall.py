#!/usr/bin/env python3
"""Run every check (49 properties + growth specs) at one tier in N lanes; one summary line each.
usage: runall.py [quick|thorough] [lanes] [ids...]   log: /tmp/runall-<tier>.log"""
import glob, json, os, re, subprocess, sys, time
from concurrent.futures import ThreadPoolExecutor
tier = sys.argv[1] if len(sys.argv) > 1 else "quick"
lanes = int(sys.argv[2]) if len(sys.argv) > 2 else 3
ids = sys.argv[3:] or sorted(json.load(open("/verif/meta/approved.json")))
log = f"/tmp/runall-{tier}.log"
def one(c):
    t0 = time.time()
    r = subprocess.run(["./check", c, "--tier", tier], cwd="/verif", capture_output=True, text=True)
    lines = [l[:150] for l in (r.stdout + r.stderr).splitlines() if re.match(r"VIOLATION|KNOWN|MACHINERY", l)]
    with open(log, "a") as f:
        f.write(f"{c} rc={r.returncode} {round(time.time()-t0)}s {' | '.join(lines[:3])}\n")
with ThreadPoolExecutor(lanes) as ex:
    list(ex.map(one, ids))
print("done", tier, len(ids))
