#!/usr/bin/env python3
"""Print the markdown table 'which checks catch which seeded changes' from seeded/*/*/meta.json."""
import glob, json, os
rows = []
for mp in sorted(glob.glob("/verif/seeded/*/*/meta.json")):
    pid, mk = mp.split("/")[-3], mp.split("/")[-2]
    m = json.load(open(mp))
    v = m.get("coordinator_verification", {})
    c = v.get("check", {})
    caught = "caught: " + ", ".join(c.get("clauses", [])[:5]) if c.get("caught") else ("MACHINERY" if c.get("exit") == 2 else "missed")
    summ = (m.get("summary") or "").replace("|", "/").replace("\n", " ")[:150]
    rows.append((pid, mk, "yes" if v.get("confirmed") else "NO", caught, summ))
print("| prop | change | confirmed (demo+tests) | `./check` quick on the changed tree | what the change does |")
print("|---|---|---|---|---|")
for r in rows:
    print("| " + " | ".join(r) + " |")
n = len(rows); k = sum(1 for r in rows if r[3].startswith("caught"))
print(f"\n{k} of {n} confirmed seeded changes are caught by the quick tier of their property's check.")
