#!/usr/bin/env python3
"""Verify every delivered seeded change that has no coordinator verification yet (or --redo PID)."""
import glob, json, os, subprocess, sys
from concurrent.futures import ThreadPoolExecutor
redo = set(sys.argv[sys.argv.index("--redo") + 1].split(",")) if "--redo" in sys.argv else set()
jobs = []
for src in ("/tmp/seedout", "/tmp/seedout2"):
    for d in sorted(glob.glob(f"{src}/C*/m*")):
        if not os.path.exists(f"{d}/patch.diff"):
            continue
        pid, mk = d.split("/")[-2], d.split("/")[-1]
        mp = f"/verif/seeded/{pid}/{mk}/meta.json"
        done = False
        try:
            done = "coordinator_verification" in json.load(open(mp))
        except Exception:
            pass
        if not done or pid in redo or f"{pid}/{mk}" in redo or "all" in redo:
            jobs.append((pid, mk, src))
print(len(jobs), "to verify:", " ".join(f"{p}/{m}" for p, m, _ in jobs))
def one(j):
    pid, mk, src = j
    with open("/tmp/verify_seed.log", "a") as f:
        subprocess.run(["python3", "/verif/tools/verify_seed.py", pid, mk, "--src", src], stdout=f, stderr=f)
with ThreadPoolExecutor(int(os.environ.get("LANES", "3"))) as ex:
    list(ex.map(one, jobs))
