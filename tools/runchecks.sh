#!/bin/sh
# usage: runchecks.sh C15 C16 ...  -> one summary line per check in /tmp/runchecks.log
for c in "$@"; do
  s=$(date +%s)
  out=$(cd /verif && ./check $c --tier quick 2>&1); rc=$?
  e=$(date +%s)
  echo "$c rc=$rc $((e-s))s $(echo "$out" | grep -E '^VIOLATION|^KNOWN|MACHINERY' | cut -c1-160 | head -4 | tr '\n' '|')" >> /tmp/runchecks.log
done
