#!/usr/bin/env python3
"""Regenerate MANIFEST.json from meta/<ID>.json (one small file per claimed property).

Properties without a meta file are listed under not_applicable with the reason from
meta/not_claimed.json (or a default "not built yet").
"""
import json
import os

HERE = os.path.dirname(os.path.dirname(os.path.abspath(__file__)))
props = [json.loads(l)["id"] for l in open(os.path.join(HERE, "properties.jsonl")) if l.strip()]
try:
    not_claimed = json.load(open(os.path.join(HERE, "meta", "not_claimed.json")))
except FileNotFoundError:
    not_claimed = {}
try:
    hooks_commits = json.load(open(os.path.join(HERE, "meta", "hooks.json")))
except FileNotFoundError:
    hooks_commits = {"source_commits": []}

# only checks the coordinator has run and reviewed are claimed
approved = set(json.load(open(os.path.join(HERE, "meta", "approved.json"))))
checks, na, engines = [], [], {}
for pid in props:
    mp = os.path.join(HERE, "meta", pid + ".json")
    if not os.path.exists(mp) or pid not in approved:
        na.append({"property_id": pid, "reason": not_claimed.get(pid, "check not built yet in this session (planned in DESIGN.md section 5); no claim is made")})
        continue
    m = json.load(open(mp))
    c = {
        "property_id": pid,
        "quick_cmd": f"./check {pid} --tier quick",
        "thorough_cmd": f"./check {pid} --tier thorough",
        "evidence_file": f"/verif/evidence/{pid}.json",
        "replay_cmd_template": f"./check {pid} --replay {{path}}",
        "engine": m.get("engine", "tlc+conformance"),
        "level_claimed": {"category": m.get("category", "model_checking"), "text": m["text"], "design_ref": m.get("design_ref", f"DESIGN.md section 5 {pid}")},
        "level_note": m["note"],
        "technique": m.get("technique", "TLA+ spec, TLC model checking + trace validation against the implementation"),
    }
    checks.append(c)
    for e in m.get("engines", ["tlc-mc", "tlc-export", "tlc-trace"]):
        engines.setdefault(e, []).append(pid)

ENG = {
    "tlc-mc": ("pylib/tlc.py", "TLC exhaustive model checking of specs/*_MC.tla / *_Laws.tla"),
    "tlc-export": ("pylib/tlc.py", "TLC enumerates the bounded case space / behaviours of the spec, replayed into pkgcore by drivers/"),
    "tlc-trace": ("specs/TraceLib.tla", "recorded implementation events validated by specs/*_Trace.tla (total verdicts)"),
    "fs-recorder": ("pylib/fsrec.py", "os.* interposition: syscall traces, crash/fault injection, snapshots"),
    "ebd-trace": ("pylib/ebdtrace.py", "PKGCORE_VERIF_TRACE protocol line recorder + scripted fake daemon"),
}
manifest = {
    "version": 1,
    "setup_cmd": "./check --selftest",
    "hooks": {
        "guard": "PKGCORE_VERIF_TRACE",
        "enable": "export PKGCORE_VERIF_TRACE=<file> before the ebuild processor is imported; drivers do this themselves, nothing is rebuilt (pure Python, imported from /repo/src)",
        "baseline_off_cmd": "cd /repo && env -u PKGCORE_VERIF_TRACE /venv/bin/python -m pytest -ra -q -p no:cacheprovider --timeout=900 --continue-on-collection-errors",
        "source_commits": hooks_commits.get("source_commits", []),
        "add_only": True,
    },
    "engines": [
        {"name": k, "path": ENG[k][0], "serves_properties": v, "kind_free_text": ENG[k][1]} for k, v in sorted(engines.items()) if k in ENG
    ],
    "checks": checks,
    "notes": "One entry point (./check <ID>). Every check: TLC model-checks the TLA+ spec of the area, exports the bounded input space/behaviours, replays them into the real pkgcore objects, and validates the recorded observations with the *_Trace spec. known_findings.json lists fixed/known defects.",
    "not_applicable": na,
}
# growth specs: areas of pkgcore no listed property names (DESIGN.md section 7 / 11.7); run with ./check G0N
import glob
for mp in sorted(glob.glob(os.path.join(HERE, "meta", "G[0-9][0-9].json"))):
    gid = os.path.basename(mp)[:-5]
    if gid not in approved:
        continue
    m = json.load(open(mp))
    drv = (glob.glob(os.path.join(HERE, "drivers", gid.lower() + "_*.py")) or ["?"])[0]
    manifest["engines"].append({"name": f"growth:{gid}", "path": os.path.relpath(drv, HERE), "serves_properties": m.get("serves", []),
                                "kind_free_text": f"{m.get('title', gid)} — growth spec beyond the listed properties; `./check {gid} --tier quick|thorough`, evidence/{gid}.json. " + m["text"][:600]})
with open(os.path.join(HERE, "MANIFEST.json"), "w") as f:
    json.dump(manifest, f, indent=1)
print(f"MANIFEST.json: {len(checks)} checks, {len(na)} not claimed")
