#!/usr/bin/env python3
"""Fill the generated regions of DESIGN.md: seeded-change table (11.5) and findings list (11.6)."""
import json, re, subprocess
D = "/verif/DESIGN.md"
s = open(D).read()
table = subprocess.run(["python3", "/verif/tools/seed_table.py"], capture_output=True, text=True).stdout.strip()
k = json.load(open("/verif/known_findings.json"))["findings"]
lines = []
fixed = [x for x in k if x.get("status") == "fixed"]
known = [x for x in k if x.get("status") != "fixed"]
lines.append(f"**Known findings ({len(known)}; recorded, not repaired — why is in the text):**\n")
for x in known:
    sig = json.dumps({kk: v for kk, v in x.items() if kk in ("clause", "match")}, sort_keys=True)
    lines.append(f"* {x['property']} — {x['what']}  \n  signature: `{sig}`")
lines.append(f"\n**Fixed ({len(fixed)} `fix:` commits):**\n")
for x in sorted(fixed, key=lambda x: x["property"]):
    w = re.sub(r"^fixed: property=\S+ \S+ ", "", x["what"])
    lines.append(f"* {x['property']} `{x.get('commit', '?')}` {w}")
def put(s, tag, body):
    return re.sub(rf"<!-- {tag}-BEGIN -->.*?<!-- {tag}-END -->", lambda m: f"<!-- {tag}-BEGIN -->\n{body}\n<!-- {tag}-END -->", s, flags=re.S)
s = put(s, "SEED-TABLE", table)
s = put(s, "FINDINGS", "\n".join(lines))
open(D, "w").write(s)
print("DESIGN.md regions updated:", len(table.splitlines()), "table lines,", len(fixed), "fixed,", len(known), "known")
