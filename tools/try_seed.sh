#!/bin/sh
# usage: try_seed.sh <PID> <patch.diff> [tier]   -- run ./check PID against a scratch worktree with the patch applied
PID=$1; PATCH=$2; TIER=${3:-quick}
WT=/tmp/wt-try-$PID-$$
git -C /repo worktree add --detach -q $WT HEAD || exit 2
git -C $WT apply "$PATCH" || { git -C /repo worktree remove --force $WT; echo "PATCH DOES NOT APPLY"; exit 2; }
cd /verif && VERIF_REPO=$WT ./check $PID --tier $TIER 2>&1 | grep -E "^VIOLATION|^KNOWN|MACHINERY" | cut -c1-200 | head -8
echo "exit=$?"
git -C /repo worktree remove --force $WT
