#!/usr/bin/env python3
"""Confirm a seeded change and record what the checks make of it.

usage: verify_seed.py <PID> <mK> [--src /tmp/seedout] [--tier quick]
  1. copy <src>/<PID>/<mK>/{patch.diff,demo.*,meta.json} to /verif/seeded/<PID>/<mK>/
  2. scratch worktree of /repo HEAD: demo must exit 0; apply patch: demo must exit != 0
  3. run the test directories that correspond to the patched files, with and without the patch,
     and compare the sets of failing tests
  4. run ./check <PID> against the patched worktree (VERIF_REPO) and record the verdict
"""
import json
import os
import re
import shutil
import subprocess
import sys
import time

pid, mk = sys.argv[1], sys.argv[2]
src = "/tmp/seedout"
tier = "quick"
if "--src" in sys.argv:
    src = sys.argv[sys.argv.index("--src") + 1]
if "--tier" in sys.argv:
    tier = sys.argv[sys.argv.index("--tier") + 1]
sdir = f"{src}/{pid}/{mk}"
ddir = f"/verif/seeded/{pid}/{mk}"
os.makedirs(ddir, exist_ok=True)
for f in os.listdir(sdir):
    if os.path.abspath(sdir) != os.path.abspath(ddir) and not os.path.exists(os.path.join(ddir, f)):
        shutil.copy(os.path.join(sdir, f), ddir)
patch = f"{ddir}/patch.diff"
demo = next((f"{ddir}/{f}" for f in os.listdir(ddir) if f.startswith("demo.")), None)
wt = f"/tmp/wt-vs-{pid}-{mk}-{os.getpid()}"


def sh(cmd, **kw):
    return subprocess.run(cmd, shell=True, capture_output=True, text=True, **kw)


def run_demo():
    env = dict(os.environ, REPO_SRC=f"{wt}/src", REPO_ROOT=wt, PYTHONPATH=f"{wt}/src")
    runner = "/venv/bin/python" if demo.endswith(".py") else "sh"
    try:
        r = subprocess.run([runner, demo], capture_output=True, text=True, env=env, timeout=1800, cwd=wt)
        return r.returncode, (r.stdout + r.stderr)[-400:]
    except subprocess.TimeoutExpired:
        return 124, "timeout"


def test_dirs():
    dirs = set()
    for line in open(patch):
        m = re.match(r"\+\+\+ b/(\S+)", line)
        if not m:
            continue
        p = m.group(1)
        m2 = re.match(r"src/pkgcore/([^/]+)/", p)
        if m2 and os.path.isdir(f"{wt}/tests/{m2.group(1)}"):
            dirs.add(f"tests/{m2.group(1)}")
        elif p.startswith("data/"):
            dirs.add("tests/ebuild")
    if any("resolver" in d for d in dirs):
        dirs.add("tests/scripts/test_pmerge.py")
    return sorted(dirs) or ["tests/util"]


def run_tests(dirs):
    r = sh(f"cd {wt} && PYTHONPATH={wt}/src /venv/bin/python -m pytest -q -p no:cacheprovider --timeout=900 -n 4 {' '.join(dirs)} 2>&1 | tail -15")
    failed = sorted(set(re.findall(r"^(?:FAILED|ERROR) (\S+)", r.stdout, re.M)))
    summary = (re.findall(r"=+ (.*(?:passed|failed).*) =+", r.stdout) or ["?"])[-1]
    return failed, summary


res = dict(at=time.strftime("%Y-%m-%dT%H:%M:%SZ", time.gmtime()), repo_head=sh("git -C /repo rev-parse --short HEAD").stdout.strip())
sh(f"git -C /repo worktree add --detach -q {wt} HEAD")
try:
    res["demo_clean_rc"], _ = run_demo()
    dirs = test_dirs()
    base_failed, base_sum = run_tests(dirs)
    ap = sh(f"git -C {wt} apply {patch}")
    if ap.returncode:
        res["error"] = "patch does not apply: " + ap.stderr[-300:]
    else:
        res["demo_mutated_rc"], res["demo_mutated_tail"] = run_demo()
        mut_failed, mut_sum = run_tests(dirs)
        res["tests"] = dict(cmd=f"pytest {' '.join(dirs)}", clean=base_sum, mutated=mut_sum, same_failures=(base_failed == mut_failed),
                            new_failures=sorted(set(mut_failed) - set(base_failed)))
        t0 = time.time()
        c = sh(f"cd /verif && VERIF_REPO={wt} ./check {pid} --tier {tier}")
        lines = [l for l in c.stdout.splitlines() if l.startswith(("VIOLATION", "MACHINERY"))] + \
                [l for l in c.stderr.splitlines() if l.startswith("MACHINERY")]
        clauses = sorted({m.group(1) for l in lines for m in [re.search(r"clause=(\S+)", l)] if m})
        res["check"] = dict(cmd=f"VERIF_REPO=<worktree+patch> ./check {pid} --tier {tier}", exit=c.returncode, clauses=clauses,
                            caught=(c.returncode == 1), wall_s=round(time.time() - t0))
        if c.returncode == 2:
            res["check"]["machinery"] = (c.stderr + c.stdout)[-400:]
finally:
    sh(f"git -C /repo worktree remove --force {wt}")
confirmed = res.get("demo_clean_rc") == 0 and res.get("demo_mutated_rc", 0) != 0 and res.get("tests", {}).get("same_failures")
res["confirmed"] = bool(confirmed)
mp = f"{ddir}/meta.json"
try:
    meta = json.load(open(mp))
except Exception:
    meta = {}
meta["property"] = pid
if "error" in res and "does not apply" in res["error"] and "coordinator_verification" in meta and meta["coordinator_verification"].get("confirmed"):
    # a later fix: commit touched the same lines; keep the verdict obtained when the change still applied
    meta["coordinator_verification"]["stale"] = f"patch no longer applies on {res['repo_head']} (a later fix changed the same lines); verdict is from {meta['coordinator_verification'].get('repo_head')}"
else:
    meta["coordinator_verification"] = res
json.dump(meta, open(mp, "w"), indent=1)
print(pid, mk, "confirmed" if confirmed else "NOT-CONFIRMED", "| demo", res.get("demo_clean_rc"), res.get("demo_mutated_rc"),
      "| tests", res.get("tests", {}).get("mutated"), res.get("tests", {}).get("new_failures"),
      "| check", res.get("check", {}).get("exit"), res.get("check", {}).get("clauses"), res.get("error", ""))
