#!/usr/bin/env python3
"""Run EbdProtocol_MC with a cfg and print a compact counterexample."""
import re, subprocess, sys, os, tempfile, shutil
sys.path.insert(0, os.path.dirname(os.path.dirname(os.path.abspath(__file__))))
from pylib import tlaval
cfg = sys.argv[1]
meta = tempfile.mkdtemp()
p = subprocess.run(["java", "-XX:+UseParallelGC", "-cp", "/opt/veriftools/tla/tla2tools.jar:/opt/veriftools/tla/CommunityModules-deps.jar",
                    "tlc2.TLC", "-workers", sys.argv[2] if len(sys.argv) > 2 else "8", "-deadlock", "-noGenerateSpecTE", "-metadir", meta, "-config", cfg, "EbdProtocol_MC"],
                   cwd="/verif/specs", capture_output=True, text=True)
shutil.rmtree(meta, ignore_errors=True)
out = p.stdout
for l in out.splitlines():
    if re.search(r"violated|states generated|Error:", l): print(l)
states = re.split(r"\nState (\d+): ", out)
for i in range(1, len(states), 2):
    n, body = states[i], states[i+1]
    act = body.split("\n", 1)[0]
    m = re.match(r"<(\w+)", act)
    act = m.group(1) if m else act[:20]
    body = body.split("\n\n")[0]
    vs = {}
    for part in re.split(r"\n/\\ ", "\n" + body.split("\n", 1)[1] if "\n" in body else ""):
        if " = " in part:
            k, v = part.split(" = ", 1)
            k = k.replace("/\\", "").strip()
            try: vs[k] = tlaval.parse(v.strip())
            except Exception as e: vs[k] = None
    py, d = vs.get("py") or {}, vs.get("d") or {}
    sc = py.get("script") or []
    head = ""
    if sc:
        s = sc[0]; head = s["op"] + (":" + s["m"]["cmd"] if s["op"] == "w" else ":" + s["want"] if s["op"] == "x" else ":" + s["val"] if s["op"] == "ret" else "")
    fm = lambda q: "[" + ",".join(x["cmd"] + ("/" + x["arg"] if x["arg"] != "-" else "") + "#%d" % x["rid"] for x in (q or [])) + "]"
    print(f"{n:>3} {act:14} py={py.get('mode')}({head}) rid={py.get('rid')} pend={len(py.get('pend') or [])} out={py.get('out')} | d={d.get('mode')}/{d.get('kind')} | c2d={fm(vs.get('c2d'))} d2c={fm(vs.get('d2c'))} flags={vs.get('flags')}")
