"""C12 — incremental token expansion follows left-to-right incremental semantics.

Spec        : specs/Incremental.tla (plain / licence / condensed readings of a token stream, nested
              licence groups, applicable-entry streams).
MC          : Incremental_Laws (constant laws over every stream of length <= N: the reference condensation is
              a correct condensed form on top of every earlier set, folding composes, nested = flat groups,
              rejection = "some token incomplete") and Incremental_MC (a token-by-token reader that keeps the
              expanded sets and a condensed form up to date; invariants in every reachable state).
spec -> code: Incremental_Export enumerates every stream of length <= N over
              {a b -a -b * -* @g -@g @m - -@ @}; each is fed (in three environments: earlier set, group
              definitions, licences in question) to the real incremental_expansion, optimize_incrementals and
              incremental_expansion_license (groups read back from a real repo_objs.Licenses over a
              profiles/license_groups file the driver wrote).
code -> spec: seeded random longer streams over a larger alphabet with random nested group files; random
              collapsed_restrict_to_data configurations pulled for three packages.
All observations are judged by Incremental_Trace; clauses Plain_set, Plain_rejection, Condensed_rejection,
Condensed_foreign, Condensed_expand, License_set, License_rejection, Groups_flat, Pull_set, Pull_rejection, and for
the un-finalized form (incremental_expansion(finalize=False) and the .defaults collapsed_restrict_to_data stores with
finalize_defaults=False) Unfinalized_/Stored_ rejection, foreign, ambiguous (a body in both polarities), expand.

Carve-outs (inputs outside the property's domain, never generated):
  * empty-string tokens (str.split never yields them); group files with a member-less group line (the
    file parser rejects the whole file); cyclic group references (the property says nested and missing);
  * collapsed_restrict_to_data: global tokens are given first and entries are atoms (entries of one
    specificity class keep their order; pre_defaults is not used with this class anywhere in pkgcore);
  * the un-finalized form is not judged for streams holding a positive literal "*" (the mode is for USE-like
    streams); a stored set holding -* is read clear-first (CondApply), not in hash order;
  * the condensed form is judged by its meaning ("clear/remove, then add" on top of ANY earlier set,
    as split_negations/add_bare_global and `x in features` read it), not by its spelling.
"""
import os

from pylib import tlc
from pylib.common import mktmp, rng, use_repo

INVS = "InvFold InvCondense InvCondApply InvLicense InvRejected InvClear InvLicRange".split()


def M(ref, name):
    return dict(ref=ref, name=name)


# the three environments every exported stream is run in
ENVS = [
    dict(init=[], all=["a", "b", "c"],
         defs=[dict(name="g", members=[M(False, "b"), M(True, "h"), M(True, "nowhere")]),
               dict(name="h", members=[M(False, "c")])]),
    dict(init=["a", "z"], all=["a"],
         defs=[dict(name="g", members=[M(False, "a")]), dict(name="k", members=[M(True, "nowhere")])]),
    dict(init=["*", "@g", "b"], all=["b", "c"],
         defs=[dict(name="h", members=[M(False, "c")])]),
]

SCOPE_ATOMS = {"any_a": "cat/a", "eq_a1": "=cat/a-1", "ge_a2": ">=cat/a-2", "any_b": "cat/b"}
PKGS = {"a1": "cat/a-1", "a2": "cat/a-2", "b1": "cat/b-1"}


def text(t):
    """Render a spec token into pkgcore's concrete syntax."""
    body = "*" if t["kind"] == "star" else ("@" + t["name"] if t["kind"] == "group" else t["name"])
    return ("-" if t["neg"] else "") + body


class World:
    def __init__(self):
        from pkgcore.ebuild import atom, misc
        from pkgcore.ebuild.repo_objs import Licenses
        from pkgcore.restrictions import packages
        from pkgcore.test.misc import FakePkg

        self.misc, self.atom, self.Licenses, self.packages = misc, atom.atom, Licenses, packages
        self.pkgs = {k: FakePkg(v) for k, v in PKGS.items()}
        self._lic = {}

    def groups(self, defs):
        """A real Licenses manager over a license_groups file holding `defs`; returns its .groups mapping."""
        import json
        import types

        key = json.dumps(defs, sort_keys=True)
        if key not in self._lic:
            d = mktmp(f"lic{len(self._lic)}")
            os.makedirs(os.path.join(d, "profiles"), exist_ok=True)
            with open(os.path.join(d, "profiles", "license_groups"), "w") as f:
                for g in defs:
                    f.write(" ".join([g["name"]] + [("@" if m["ref"] else "") + m["name"] for m in g["members"]]) + "\n")
            self._lic[key] = self.Licenses(types.SimpleNamespace(location=d)).groups
        return self._lic[key]

    @staticmethod
    def _obs(fn):
        try:
            return dict(rej=False, set=sorted(fn()))
        except ValueError:
            return dict(rej=True, set=[])

    def expand(self, case):
        m = self.misc
        texts = [text(t) for t in case["toks"]]
        groups = self.groups(case["defs"])
        ev = dict(ev="expand", toks=case["toks"], init=case["init"], defs=case["defs"], all=case["all"])
        ev["plain"] = self._obs(lambda: m.incremental_expansion(iter(texts), orig=set(case["init"])))
        ev["cond"] = self._obs(lambda: set(m.optimize_incrementals(list(texts))))
        ev["unfin"] = self._obs(lambda: m.incremental_expansion(iter(texts), finalize=False))
        ev["stored"] = self._obs(lambda: m.collapsed_restrict_to_data(
            ((self.packages.AlwaysTrue, tuple(texts)),), finalize_defaults=False).defaults)
        ev["lic"] = self._obs(lambda: m.incremental_expansion_license("cat/pkg-1", tuple(case["all"]), groups, iter(texts)))
        return ev

    def groups_event(self, case):
        g = self.groups(case["defs"])
        return dict(ev="groups", defs=case["defs"], flat=[dict(name=k, lics=sorted(v)) for k, v in sorted(g.items())])

    def pull(self, case):
        m = self.misc
        evs = []
        ents = [(self.atom(SCOPE_ATOMS[e["scope"]]), tuple(text(t) for t in e["toks"])) for e in case["entries"]]
        glob = tuple(text(t) for t in case["glob"])
        try:
            crd = m.collapsed_restrict_to_data(((self.packages.AlwaysTrue, glob),), ents)
        except ValueError:
            crd = None
        for pid in sorted(self.pkgs):
            if crd is None:
                res = dict(rej=True, set=[])
            else:
                res = self._obs(lambda: crd.pull_data(self.pkgs[pid]))  # noqa: B023
            evs.append(dict(ev="pull", glob=case["glob"], entries=case["entries"], pkg=pid, res=res))
        return evs

    def run_case(self, case):
        if case["ev"] == "expand":
            return [self.expand(case)]
        if case["ev"] == "groups":
            return [self.groups_event(case)]
        return self.pull(case)


# ---- random generators (inputs only) -------------------------------------------------------------
def T(neg, kind, name):
    return dict(neg=neg, kind=kind, name=name)


def rand_tok(r_, lic=True, broken=0.03):
    x = r_.random()
    if x < broken:
        return r_.choice([T(True, "flag", ""), T(True, "group", ""), T(False, "group", "")] if lic else [T(True, "flag", "")])
    if x < 0.15:
        return T(r_.random() < 0.7, "star", "")
    if lic and x < 0.40:
        return T(r_.random() < 0.4, "group", r_.choice(["g", "h", "k", "m"]))
    return T(r_.random() < 0.45, "flag", r_.choice(["a", "b", "c", "d"]))


def rand_defs(r_):
    """Nested, acyclic: g may refer to h,k ; h to k ; every defined group has at least one member."""
    defs = []
    later = {"g": ["h", "k", "nowhere"], "h": ["k", "nowhere"], "k": ["nowhere"]}
    for g in ("g", "h", "k"):
        if r_.random() < 0.25:
            continue
        mem = [M(False, x) for x in "abcd" if r_.random() < 0.35]
        mem += [M(True, x) for x in later[g] if r_.random() < 0.4]
        if not mem:
            mem = [M(False, r_.choice("abcd"))]
        r_.shuffle(mem)
        defs.append(dict(name=g, members=mem))
    if not defs:
        defs = [dict(name="h", members=[M(False, "c")])]
    return defs


def interesting(case):
    return any(t["neg"] or t["kind"] != "flag" for t in case["toks"])


def run(ck):
    use_repo()
    import logging

    logging.getLogger("pkgcore").setLevel(logging.CRITICAL)  # unknown group references are logged by design
    ck.rule = ("every token stream of length <= N over {a b -a -b * -* @g -@g @m - -@ @} (enumerated by TLC) in three "
               "environments, plus seeded random streams (<= 9 tokens, 4 flags, 4 group names, random nested group files) "
               "and random collapsed_restrict_to_data configurations; non-trivial = distinct (stream, environment) whose "
               "stream holds a negation, a star, a group or an incomplete token")
    ck.assumptions = [
        "token text is rendered from the spec's token records by the driver (neg -> '-', group -> '@', star -> '*')",
        "licence groups are read back from a real Licenses manager over a license_groups file written from the spec's definitions",
        "the condensed form is read as a set: clear/remove first, then add (how pkgcore consumes it)",
    ]
    w = World()
    if ck.replay_case:
        case = ck.replay_case["detail"]["case"]
        cases = [case]
    else:
        N = ck.pick(3, 4)
        ck.laws("Incremental_Laws", cfg_text=f"CONSTANT N = {N}\nCONSTANT N2 = 2\n", label=f"Laws:Incremental_Laws N={N}",
                workers=4, timeout=ck.pick(1500, 10800))
        nmc = ck.pick(3, 4)
        ck.mc("Incremental_MC", cfg_text=f"SPECIFICATION Spec\nCONSTANT N = {nmc}\nCONSTRAINT Bound\n" +
              "".join(f"INVARIANT {i}\n" for i in INVS), workers=4, timeout=ck.pick(1500, 10800), label=f"MC:Incremental_MC N={nmc}")
        ck.exhaustive = True
        streams = ck.export("Incremental_Export", cfg_text=f"CONSTANT N = {N}\n", timeout=ck.pick(1500, 10800))
        cases = []
        for s in streams:
            for env in ENVS:
                cases.append(dict(ev="expand", toks=s["toks"], **env))
        for env in ENVS:
            cases.append(dict(ev="groups", defs=env["defs"]))
        # code -> spec: random
        r_ = rng(12)
        for _ in range(ck.pick(1500, 40000)):
            lic = r_.random() < 0.8
            toks = [rand_tok(r_, lic=lic) for _ in range(r_.randint(0, 9))]
            cases.append(dict(ev="expand", toks=toks, init=sorted({x for x in "abcdz" if r_.random() < 0.3}),
                              defs=rand_defs(r_), all=sorted({x for x in "abcd" if r_.random() < 0.5})))
        for _ in range(ck.pick(40, 400)):
            cases.append(dict(ev="groups", defs=rand_defs(r_)))
        for _ in range(ck.pick(250, 6000)):
            cases.append(dict(
                ev="pull",
                glob=[rand_tok(r_, lic=False, broken=0.01) for _ in range(r_.randint(0, 4))],
                entries=[dict(scope=r_.choice(sorted(SCOPE_ATOMS)),
                              toks=[rand_tok(r_, lic=False, broken=0.02) for _ in range(r_.randint(1, 3))])
                         for _ in range(r_.randint(0, 5))]))
    events, owner = [], []
    for n, case in enumerate(cases):
        for ev in w.run_case(case):
            ev.update(tid=len(events), i=0)
            events.append(ev)
            owner.append(n)
            ck.count()
        if case["ev"] == "expand":
            if interesting(case):
                ck.nontriv(("x", repr(case)))
        elif case["ev"] == "pull":
            if any(interesting(e) for e in case["entries"]) or interesting(dict(toks=case["glob"])):
                ck.nontriv(("p", repr(case)))
        else:
            ck.nontriv(("g", repr(case)))
    for k in (len(events) // 7, len(events) // 2, len(events) - 1):
        ck.sample(events[k])
    # TLC is run in slices so that no single JVM has to hold a very large trace
    STEP = 30000
    for lo in range(0, len(events), STEP):
        chunk = events[lo:lo + STEP]
        for v in ck.trace("Incremental_Trace", chunk, label=f"Trace:Incremental_Trace[{lo}:{lo + len(chunk)}]", timeout=ck.pick(1500, 10800)):
            e = events[v["tid"]]
            case = cases[owner[v["tid"]]]
            detail = dict(case=case, kind=e["ev"])
            if e["ev"] == "expand":
                detail.update(texts=[text(t) for t in e["toks"]], plain=e["plain"], cond=e["cond"], lic=e["lic"],
                              unfin=e["unfin"], stored=e["stored"])
            elif e["ev"] == "pull":
                detail.update(pkg=e["pkg"], res=e["res"])
            else:
                detail.update(flat=e["flat"])
            ck.violation(v["clause"], detail)
    if ck.replay_case and not events:
        raise tlc.MachineryError("replay produced no events")
