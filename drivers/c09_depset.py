"""C09 — dependency strings round-trip and USE evaluation preserves meaning
(ebuild/conditionals.py DepSet.parse / evaluate_depset / stringify_boolean, restrictions/boolean.py,
restrictions/packages.py Conditional).

MC          : DepSet_MC — TLC builds every well-formed structure up to MaxNodes nodes and checks
              Parse(Render(a)) = a, Evaluate(a,U) conditional-free with the meaning of a under U,
              and the classification (error / ok / unspecified) of every one-token corruption.
spec -> code: DepSet_Export enumerates every structure (<= N nodes) of each flavour (dependencies,
              LICENSE, RESTRICT, SRC_URI with renames, REQUIRED_USE) rendered to tokens, plus every
              one-token corruption; the text goes through the real DepSet.parse of that flavour,
              str(), re-parse, and evaluate_depset(U) for every U - and once more after node_conds /
              known_conditionals have been read (the result must not depend on that).
              The export also holds the nesting family: a group of every kind nested directly in a
              group of every kind (depth 2-3, >= 2 distinct members each) with a conditional beside /
              inside / around it.
code -> spec: seeded grammar-generated strings with realistic leaves (versioned atoms, blockers,
              URIs ...), among them nests of operator groups (same and mixed kinds, depth 2-3) with
              conditionals, and random token-level corruptions, same observations.
All observations are judged by DepSet_Trace (meaning compared over every flag set U and every set
T of satisfied leaf tokens, so documented normalisations such as `|| ( a )` -> `a` are no alarms).

Carve-outs (reported "unspec" by the spec, counted, never judged): empty groups; `->` anywhere but
`leaf -> leaf` or dangling at the very end; plain `( )` groups / operators a flavour does not have
(pkgcore rejects them, PMS is EAPI dependent); the meaning of a group emptied by conditionals that
sits inside an any-of / ^^ / ?? group (PMS "counts as matched", Portage/pkgcore drop it).
"""
from pylib import tlc
from pylib.common import rng, use_repo

FLAVOURS = ("dep", "license", "restrict", "src_uri", "required_use")


class Uri(str):
    """SRC_URI leaf: `uri` or `uri -> name` (stands for fetchable; keeps the text renderable)."""

    __slots__ = ("rename",)

    def __new__(cls, uri, rename=None):
        o = str.__new__(cls, uri if rename is None else f"{uri} -> {rename}")
        o.rename = rename
        return o


class Api:
    def __init__(self):
        from pkgcore.ebuild import conditionals, ebuild_src
        from pkgcore.ebuild.atom import atom
        from pkgcore.ebuild.errors import DepsetParseError
        from pkgcore.restrictions import boolean, packages, values

        self.DepSet = conditionals.DepSet
        self.atom = atom
        self.Error = DepsetParseError
        self.boolean, self.packages, self.values = boolean, packages, values
        ru_ops = {"||": boolean.OrRestriction, "": boolean.AndRestriction, "^^": boolean.JustOneRestriction,
                  "??": boolean.AtMostOneOfRestriction}
        P = conditionals.DepSet.parse
        # the calls ebuild_src.package makes for each metadata key
        self.parsers = {
            "dep": lambda s: P(s, atom, attr="DEPEND", element_func=atom, transitive_use_atoms=True),
            "license": lambda s: P(s, str, operators={"||": boolean.OrRestriction, "": boolean.AndRestriction},
                                   attr="LICENSE", element_func=str),
            "restrict": lambda s: P(s, str, operators={}, attr="RESTRICT"),
            "src_uri": lambda s: P(s, Uri, operators={}, element_func=Uri, attr="SRC_URI", allow_src_uri_file_renames=True),
            "required_use": lambda s: P(s, values.ContainmentMatch, operators=ru_ops,
                                        element_func=ebuild_src.package._mk_required_use_node, attr="REQUIRED_USE"),
        }

    # ---- projection of restriction objects into the spec's node vocabulary ----
    def node(self, r):
        b, pk, vals = self.boolean, self.packages, self.values
        n = dict(t="?", v="", neg=False, ren="", ch=[])
        if isinstance(r, self.atom):
            n.update(t="leaf", v=str(r))
        elif isinstance(r, Uri):
            base = str(r)
            if r.rename is not None:
                n.update(t="leaf", v=base[: -len(" -> " + r.rename)], ren=r.rename)
            else:
                n.update(t="leaf", v=base)
        elif isinstance(r, str):
            n.update(t="leaf", v=r)
        elif isinstance(r, vals.ContainmentMatch):
            n.update(t="leaf", v=",".join(sorted(r.vals)), neg=bool(r.negate))
            if r.all or len(r.vals) != 1:
                n["t"] = "?containment"
        elif isinstance(r, pk.Conditional):
            c = r.restriction
            n.update(t="cond", v=",".join(sorted(c.vals)), neg=bool(c.negate), ch=[self.node(x) for x in r.payload])
            if r.attr != "use" or len(c.vals) != 1 or r.negate:
                n["t"] = "?cond"
        elif isinstance(r, b.base):
            kind = {b.OrRestriction: "any", b.AndRestriction: "all", b.JustOneRestriction: "one",
                    b.AtMostOneOfRestriction: "amo"}.get(type(r), "?" + type(r).__name__)
            if r.negate:
                kind = "?negated-" + kind
            n.update(t=kind, ch=[self.node(x) for x in r.restrictions])
        else:
            n["t"] = "?" + type(r).__name__
        return n

    def nodes(self, depset):
        return [self.node(x) for x in depset.restrictions]


# ---- tokens <-> text (white space splitting and word classification only) ----
def word(tok):
    k = tok["k"]
    if k == "lp":
        return "("
    if k == "rp":
        return ")"
    if k == "arrow":
        return "->"
    if k == "op":
        return tok["v"]
    if k == "cond":
        return ("!" if tok["neg"] else "") + tok["v"] + "?"
    return ("!" if tok["neg"] else "") + tok["v"]


def lex(text, fl):
    out = []
    for w in text.split():
        if w == "(":
            out.append(dict(k="lp", v="", neg=False))
        elif w == ")":
            out.append(dict(k="rp", v="", neg=False))
        elif w == "->" and fl == "src_uri":  # an ordinary word in the other flavours
            out.append(dict(k="arrow", v="", neg=False))
        elif w in ("||", "^^", "??"):
            out.append(dict(k="op", v=w, neg=False))
        elif w.endswith("?"):
            neg = w.startswith("!")
            out.append(dict(k="cond", v=w[1:-1] if neg else w[:-1], neg=neg))
        elif fl == "required_use" and w.startswith("!"):
            out.append(dict(k="leaf", v=w[1:], neg=True))
        else:
            out.append(dict(k="leaf", v=w, neg=False))
    return out


def subsets(xs):
    xs = sorted(xs)
    for m in range(1 << len(xs)):
        yield [x for i, x in enumerate(xs) if m >> i & 1]


def flags_of(toks):
    return {t["v"] for t in toks if t["k"] == "cond"}


def observe(api, tid, fl, text):
    """Run one text through parse / str / re-parse / evaluate and record what happened."""
    toks = lex(text, fl)
    ev = dict(tid=tid, i=0, fl=fl, toks=toks, text=text, raised=False, ast=[], rtoks=[], re_raised=False, re_ast=[], eq=True,
              evals=[], evals2=[])
    try:
        d = api.parsers[fl](text)
    except api.Error:
        ev["raised"] = True
        return ev
    ev["ast"] = api.nodes(d)
    rendered = str(d)
    ev["rendered"] = rendered
    ev["rtoks"] = lex(rendered, fl)
    try:
        d2 = api.parsers[fl](rendered)
        ev["re_ast"] = api.nodes(d2)
        ev["eq"] = bool(d2 == d)
    except api.Error:
        ev["re_raised"] = True
    for use in subsets(flags_of(toks)):
        ev["evals"].append(dict(use=use, ast=api.nodes(d.evaluate_depset(use))))
    # the same evaluations once the inspection attributes other consumers read have been read
    d.node_conds, d.known_conditionals, d.has_conditionals
    for use in subsets(flags_of(toks)):
        ev["evals2"].append(dict(use=use, ast=api.nodes(d.evaluate_depset(use))))
    return ev


# ---- code -> spec generator: realistic vocabulary, token-level corruptions ----
VOCAB = {
    "dep": ["dev-libs/foo", ">=dev-libs/bar-1.2", "!sys-apps/baz", "!!app-misc/qux:2", "=x11-libs/gtk-3*", "virtual/x:0="],
    "license": ["GPL-2", "MIT", "BSD", "Apache-2.0", "LGPL-2.1+"],
    "restrict": ["test", "mirror", "strip", "fetch", "bindist"],
    "src_uri": ["https://e.org/a.tar.gz", "mirror://gnu/b-1.tar.xz", "c.patch", "https://e.org/d", "e-1.zip"],
    "required_use": ["ssl", "gnutls", "!static", "gtk", "!qt5"],
}
RENAMES = ["a-1.tar.gz", "d-1.tgz"]
FLAGS = ["alpha", "beta", "gamma"]
NFLAGS = [3]
OPS = {"dep": ["||", ""], "license": ["||", ""], "restrict": [], "src_uri": [], "required_use": ["||", "^^", "??", ""]}


def gen_words(r_, fl, depth, leaves):
    out = []
    for _ in range(r_.randint(1, 3)):
        x = r_.random()
        if depth <= 0 or x < 0.45:
            w = r_.choice(leaves)
            out.append(w)
            if fl == "src_uri" and r_.random() < 0.35:
                out += ["->", r_.choice(RENAMES)]
        elif x < 0.75 or not OPS[fl]:
            out += [("!" if r_.random() < 0.4 else "") + r_.choice(FLAGS[: NFLAGS[0]]) + "?", "("] + gen_words(r_, fl, depth - 1, leaves) + [")"]
        else:
            op = r_.choice(OPS[fl])
            out += ([op] if op else []) + ["("] + gen_words(r_, fl, depth - 1, leaves) + [")"]
    return out


def gen_nest(r_, fl, depth, leaves):
    """Operator groups nested in operator groups (same and mixed kinds), every group with 2-3 members,
    conditionals sprinkled over members and one beside the nest."""
    def group(d):
        op = r_.choice(OPS[fl])
        out = ([op] if op else []) + ["("]
        inner_at = r_.randrange(3) if d > 1 else -1
        for k in range(r_.randint(2, 3)):
            if k == inner_at or (d > 1 and r_.random() < 0.25):
                m = group(d - 1)
            else:
                m = [r_.choice(leaves)]
            if r_.random() < 0.2:
                m = [("!" if r_.random() < 0.4 else "") + r_.choice(FLAGS[: NFLAGS[0]]) + "?", "("] + m + [")"]
            out += m
        return out + [")"]

    tail = [("!" if r_.random() < 0.4 else "") + r_.choice(FLAGS[: NFLAGS[0]]) + "?", "(", r_.choice(leaves), ")"]
    words = group(depth)
    return words + tail if r_.random() < 0.5 else tail + words


def corrupt(r_, words, fl):
    words = list(words)
    for _ in range(r_.randint(1, 2)):
        k = r_.choice(["drop", "dup", "swap", "ins"])
        if k == "drop" and words:
            del words[r_.randrange(len(words))]
        elif k == "dup" and words:
            j = r_.randrange(len(words))
            words.insert(j, words[j])
        elif k == "swap" and len(words) > 1:
            j = r_.randrange(len(words) - 1)
            words[j], words[j + 1] = words[j + 1], words[j]
        else:
            extra = ["(", ")", r_.choice(FLAGS[: NFLAGS[0]]) + "?", r_.choice(VOCAB[fl])] + [o for o in OPS[fl] if o]
            if fl == "src_uri":
                extra.append("->")
            words.insert(r_.randint(0, len(words)), r_.choice(extra))
    return words


def detail_of(e, v):
    d = dict(flavour=e["fl"], text=e["text"], raised=e["raised"])
    if not e["raised"]:
        d["rendered"] = e.get("rendered", "")
    if v["clause"].startswith("Eval"):
        d["use"] = v["extra"][0] if v.get("extra") else []
    return d


def judge(ck, events, label):
    if not events:
        return
    by = {e["tid"]: e for e in events}
    for lo in range(0, len(events), 12000):
        slim = [{k: v for k, v in e.items() if k not in ("text", "rendered")} for e in events[lo:lo + 12000]]
        for v in ck.trace("DepSet_Trace", slim, label=label + (f"[{lo}:]" if lo else ""), timeout=1700):
            ck.violation(v["clause"], detail_of(by[v["tid"]], v))


def run(ck):
    use_repo()
    api = Api()
    ck.rule = ("texts fed to the real DepSet.parse of the five flavours: every structure up to N nodes and every one-token "
               "corruption of it (TLC export), plus seeded grammar-generated texts with random corruptions; each parsed text is "
               "rendered, re-parsed and evaluated under every subset of its flags; non-trivial = distinct text that parsed and "
               "contains a group or conditional, or distinct corrupted text")
    ck.assumptions = [
        "tokens are white-space separated words; the driver classifies words ( ) -> || ^^ ?? x? !x? and leaves only",
        "SRC_URI leaves are a str subclass rendering `uri -> name` (stands for fetch.fetchable, which has no textual form)",
        "meaning = propositional satisfaction over leaf tokens; empty groups, irregular `->`, flavour-foreign groups and "
        "groups emptied inside any-of style groups are unspecified (not judged)",
    ]
    if ck.replay_case:
        d = ck.replay_case["detail"]
        ev = observe(api, 0, d["flavour"], d["text"])
        judge(ck, [ev], "Trace:replay")
        ck.count()
        ck.nontriv("replay")
        ck.nontriv("replay2")
        ck.sample(dict(flavour=d["flavour"], text=d["text"]))
        return
    # 1. the design
    n = ck.pick(3, 4)
    cfg = (f"SPECIFICATION Spec\nCONSTANTS\n  LeafNames = {ck.pick('{\"x\"}', '{\"x\", \"y\"}')}\n  NegLeaves = {{\"x\"}}\n"
           f"  RenNames = {{\"r\"}}\n  FlagNames = {{\"u\"}}\n  MaxNodes = {n}\n"
           "INVARIANT TypeOK\nINVARIANT InvRoundTrip\nINVARIANT InvEvaluate\nINVARIANT InvCorrupt\n")
    ck.mc("DepSet_MC", cfg_text=cfg, workers=ck.pick(2, 6), timeout=ck.pick(200, 2400), label=f"MC:DepSet_MC MaxNodes={n}")
    ck.exhaustive = True
    # 2. spec -> code
    ne, nc = ck.pick(3, 4), ck.pick(2, 3)
    cases = ck.export("DepSet_Export", cfg_text=f"CONSTANTS\n  MaxNodes = {ne}\n  FlagNames = {{\"u\"}}\n  CorruptNodes = {nc}\n",
                      timeout=900, label=f"Export:DepSet_Export MaxNodes={ne} CorruptNodes={nc}")
    events = []
    for tid, c in enumerate(cases):
        text = " ".join(word(t) for t in c["toks"])
        ev = observe(api, tid, c["fl"], text)
        if ev["toks"] != c["toks"]:
            raise tlc.MachineryError(f"lexing the rendered case does not give the spec's tokens: {c} vs {ev['toks']}")
        events.append(ev)
        ck.count()
        if not ev["raised"] and any(t["k"] in ("lp",) for t in c["toks"]):
            ck.nontriv(("gen", c["fl"], text))
    ck.sample(dict(direction="spec->code", flavour=events[len(events) // 2]["fl"], text=events[len(events) // 2]["text"]))
    judge(ck, events, "Trace:exported-texts")
    # 3. code -> spec
    r_ = rng(9)
    events = []
    base = len(cases)
    NFLAGS[0] = ck.pick(2, 3)
    for k in range(ck.pick(500, 6000)):
        fl = FLAVOURS[k % len(FLAVOURS)]
        leaves = r_.sample(VOCAB[fl], ck.pick(3, 4))
        if OPS[fl] and r_.random() < 0.4:
            words = gen_nest(r_, fl, r_.randint(2, 3), r_.sample(VOCAB[fl], 5))
        else:
            words = gen_words(r_, fl, r_.randint(1, ck.pick(2, 3)), leaves)
        corrupted = r_.random() < 0.4
        if corrupted:
            words = corrupt(r_, words, fl)
        text = " ".join(words)
        if not text or len(words) > 40:
            continue
        ev = observe(api, base + k, fl, text)
        events.append(ev)
        ck.count()
        if corrupted or (not ev["raised"] and "(" in words):
            ck.nontriv(("rnd", fl, text))
        if len(events) == 7:
            ck.sample(dict(direction="code->spec", flavour=fl, text=text, raised=ev["raised"]))
    judge(ck, events, "Trace:random-texts")
