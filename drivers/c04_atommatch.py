"""C04 — an atom matches a package exactly as PMS dependency semantics say.

MC          : AtomVer_MC (version order: total preorder, operator readings, glob laws over every
              triple of a bounded version grammar) and AtomMatch_MC (laws of Matches over every
              (atom, package) of a universe varying every field).
spec -> code: AtomMatch_Export enumerates bounded universes of atoms and packages (blocks "ver",
              "attr", "key", "slotop", "use3"); the real atom.match is evaluated on the FULL cross product of each
              block, for the atom and for its "!" and "!!" forms.
code -> spec: seeded random atoms (long digit runs, leading zeros, letters, stacked suffixes,
              revisions, slots, repositories, USE dependencies with defaults) against random
              packages derived from them.
Every observation is judged by AtomMatch_Trace (Matches of AtomMatch.tla); nothing is decided here.

Carve-outs (spec answers "U", counted, not judged):
  * "=v*" when only a weak / differently spelled truncation of the package version equals v
    (1* vs 1a, 1_alpha* vs 1_alpha1, 1.0* vs 1.00, 1-r0* vs 1);
  * a USE dependency without (+)/(-) default on a flag that is not in the package's IUSE.
Domain: package USE need not be a subset of IUSE (undeclared flags in USE are covered); first version components carry no leading zero (the
comparison of those is C01's subject); only static USE dependencies ([x?]/[x=] need a parent).
"""
from concurrent.futures import ThreadPoolExecutor

from pylib import tlc
from pylib.common import rng, use_repo


class BackgroundMC:
    """Run TLC model-checking jobs concurrently with the conformance part; account them at the end."""

    def __init__(self):
        self.pool = ThreadPoolExecutor(4)
        self.jobs = []

    def start(self, label, module, cfg_text, workers=3, timeout=850, heap=None):
        self.jobs.append((label, module, self.pool.submit(tlc.run, module, cfg_text=cfg_text, workers=workers, timeout=timeout, heap=heap)))

    def join(self, ck):
        for label, module, fut in self.jobs:
            res = fut.result()          # MachineryError propagates
            ck.add_mc(label, res)
            if res.violated:
                raise tlc.MachineryError(f"{module}: model violates {res.violated}\n{res.out[-3000:]}")
        self.pool.shutdown()


KINDS = ["alpha", "beta", "pre", "rc", "p"]


def digs(d):
    return "".join(str(x) for x in d)


def ver_text(v):
    s = ".".join(digs(n) for n in v["nums"])
    if v["letter"]:
        s += chr(96 + v["letter"])
    for suf in v["sufs"]:
        s += "_" + suf["k"] + digs(suf["n"])
    if v["rev"]:
        s += "-r" + digs(v["rev"])
    return s


def dep_text(d):
    return ("-" if d["neg"] else "") + d["flag"] + ("(%s)" % d["dflt"] if d["dflt"] else "")


def atom_text(a, blocks=""):
    s = blocks
    if a["op"] == "=*":
        s += "=" + a["cat"] + "/" + a["pkg"] + "-" + ver_text(a["ver"]) + "*"
    elif a["op"]:
        s += a["op"] + a["cat"] + "/" + a["pkg"] + "-" + ver_text(a["ver"])
    else:
        s += a["cat"] + "/" + a["pkg"]
    if a["slot"]:
        s += ":" + a["slot"]
        if a["subslot"]:
            s += "/" + a["subslot"]
        if a.get("slotop") == "=":
            s += "="
    elif a.get("slotop"):
        s += ":" + a["slotop"]
    if a["repo"]:
        s += "::" + a["repo"]
    if a["deps"]:
        s += "[" + ",".join(dep_text(d) for d in a["deps"]) + "]"
    return s


def pkg_text(p):
    return f'{p["cat"]}/{p["pkg"]}-{ver_text(p["ver"])}'


class Binder:
    """Builds the real objects for abstract atoms / packages and asks the real code."""

    def __init__(self):
        from pkgcore.ebuild.atom import atom
        from pkgcore.test.misc import FakePkg, FakeRepo

        self.atom, self.FakePkg, self.FakeRepo = atom, FakePkg, FakeRepo
        self.repos = {}

    def mk_atoms(self, a):
        return tuple(self.atom(atom_text(a, b)) for b in ("", "!", "!!"))

    def mk_pkg(self, p):
        r = self.repos.get(p["repo"])
        if r is None:
            r = self.repos[p["repo"]] = self.FakeRepo(repo_id=p["repo"])
        return self.FakePkg(pkg_text(p), slot=p["slot"], subslot=p["subslot"], iuse=tuple(p["iuse"]),
                            use=tuple(p["use"]), repo=r)


# ---------------------------------------------------------------- random side (code -> spec)
def rand_digits(r, first=False):
    k = r.random()
    if k < 0.5:
        n = 1
    elif k < 0.85:
        n = r.randint(2, 3)
    else:
        n = r.randint(4, 24)
    d = [r.randint(0, 9) for _ in range(n)]
    if first and len(d) > 1 and d[0] == 0:
        d[0] = r.randint(1, 9)
    return d


def rand_ver(r):
    nums = [rand_digits(r, True)] + [rand_digits(r) for _ in range(r.choice([0, 0, 1, 1, 2, 3]))]
    sufs = [dict(k=r.choice(KINDS), n=(rand_digits(r) if r.random() < 0.6 else [])) for _ in range(r.choice([0, 0, 0, 1, 1, 2]))]
    return dict(nums=nums, letter=r.choice([0, 0, 0, 1, 2, 26]), sufs=sufs,
                rev=(rand_digits(r) if r.random() < 0.4 else []))


def perturb(r, v):
    """A version near v: the interesting packages for an atom on v."""
    w = dict(nums=[list(n) for n in v["nums"]], letter=v["letter"], sufs=[dict(k=s["k"], n=list(s["n"])) for s in v["sufs"]],
             rev=list(v["rev"]))
    k = r.randrange(12)
    if k == 0:
        pass
    elif k == 1:
        w["rev"] = rand_digits(r) if r.random() < 0.7 else []
    elif k == 2:
        w["nums"].append(rand_digits(r))
    elif k == 3 and len(w["nums"]) > 1:
        w["nums"].pop()
    elif k == 4:
        w["nums"][-1] = w["nums"][-1] + [r.randint(0, 9)]          # 1 -> 10 : string prefix, not a component prefix
    elif k == 5:
        w["sufs"].append(dict(k=r.choice(KINDS), n=(rand_digits(r) if r.random() < 0.5 else [])))
    elif k == 6 and w["sufs"]:
        w["sufs"][-1]["n"] = w["sufs"][-1]["n"] + [r.randint(0, 9)]
    elif k == 7 and w["sufs"]:
        w["sufs"].pop()
    elif k == 8:
        w["letter"] = r.choice([0, 1, 2])
    elif k == 9 and len(w["nums"]) > 1:
        i = r.randrange(1, len(w["nums"]))
        w["nums"][i] = w["nums"][i] + [0]                            # trailing zero
    elif k == 10 and len(w["nums"]) > 1:
        i = r.randrange(1, len(w["nums"]))
        w["nums"][i] = [0] + w["nums"][i]                            # leading zero (not in the first component)
    elif k == 11 and w["rev"]:
        w["rev"] = w["rev"] + [r.randint(0, 9)]                      # -r1 -> -r10
    if w["sufs"] and w["sufs"][-1]["k"] == "p" and not w["sufs"][-1]["n"] and r.random() < 0.5:
        w["sufs"][-1]["k"] = "pre"                                   # _p -> _pre : string prefix, another suffix
    return w


def rand_cases(r, n_atoms, per_atom):
    atoms, pkgs, pairs = [], [], []
    flags = ["x", "y", "z"]
    for _ in range(n_atoms):
        v = rand_ver(r)
        op = r.choice(["", "<", "<=", "=", "=", "~", ">=", ">", "=*", "=*", "=*"])
        if op == "~":
            v["rev"] = []
        deps = []
        for f in r.sample(flags, r.choice([0, 0, 1, 2, 3, 3])):
            deps.append(dict(flag=f, neg=r.random() < 0.5, dflt=r.choice(["", "+", "-"])))
        slot = r.choice(["", "", "0", "1.2"])
        a = dict(blk="rnd", kind="atom", cat="c", pkg="p", op=op, ver=v, slot=slot,
                 subslot=(r.choice(["", "0", "2a"]) if slot else ""), repo=r.choice(["", "", "r1"]), deps=deps, iuse=[], use=[])
        atoms.append(a)
        ai = len(atoms)
        for _ in range(per_atom):
            pv = perturb(r, v) if r.random() < 0.85 else rand_ver(r)
            iuse = [f for f in flags if r.random() < 0.6]
            use = [f for f in flags if r.random() < (0.5 if f in iuse else 0.3)]     # USE may hold undeclared flags
            p = dict(blk="rnd", kind="pkg", cat="c", pkg="p", op="", ver=pv,
                     slot=(slot if slot and r.random() < 0.7 else r.choice(["0", "1.2"])),
                     subslot=(a["subslot"] if a["subslot"] and r.random() < 0.7 else r.choice(["0", "2a"])),
                     repo=r.choice(["r1", "r1", "r2"]), deps=[], iuse=iuse, use=use)
            pkgs.append(p)
            pairs.append((ai, len(pkgs)))
    return atoms, pkgs, pairs


def run(ck):
    use_repo()
    b = Binder()
    size = ck.pick(1, 2)
    ck.rule = ("every (atom, package) pair of the TLC-enumerated universes (blocks ver/attr/key) plus seeded random atoms "
               "against perturbed packages, each evaluated with the real atom.match for the atom and its ! and !! forms; "
               "non-trivial = distinct pair whose specified answer is definite (not 'Unspecified')")
    ck.assumptions = [
        "static USE dependencies only; package USE may contain flags outside IUSE (then only the default counts)",
        "first numeric version component without leading zero (C01 covers version comparison itself)",
        "'=v*' against a package whose only equal truncation is weak or differently spelled, and a USE dependency "
        "without default on a flag outside IUSE, are left open by PMS: counted, not judged",
    ]
    bg = BackgroundMC()
    # (--replay: the whole run is repeated and only the replayed pair is reported: some defects of
    #  the matcher depend on which other atoms are alive in the process, see restriction caching)
    if True:
        # 1. design (the two model-checking runs go on in the background while the conformance part runs)
        bg.start("MC:version order + glob laws (all triples)", "AtomVer_MC",
                 "SPECIFICATION Spec\nCONSTANT Size = %d\n" % size + "".join(
                     f"INVARIANT {i}\n" for i in "Refl AntiSym Trans TransEq Ops GlobSelf GlobEq GlobTrans GlobRev GlobAnyRev TextInj IncLaw".split()))
        bg.start("MC:laws of Matches (all atom x package)", "AtomMatch_MC",
                 "SPECIFICATION Spec\nCONSTANT Size = %d\n" % size + "".join(
                     f"INVARIANT {i}\n" for i in "Monotone MonotoneF USources Contradict DefaultIrrelevant Partition KeyDecides".split()))
        # 2. spec -> code : universes from TLC, full cross product per block
        recs = ck.export("AtomMatch_Export", cfg_text="CONSTANT Size = %d\n" % size, timeout=800)
        atoms = [x for x in recs if x["kind"] == "atom"]
        pkgs = [x for x in recs if x["kind"] == "pkg"]
        pairs = []
        for blk in ("ver", "attr", "key", "slotop", "use3"):
            ai = [i + 1 for i, x in enumerate(atoms) if x["blk"] == blk]
            pi = [i + 1 for i, x in enumerate(pkgs) if x["blk"] == blk]
            if not ai or not pi:
                raise tlc.MachineryError(f"export block {blk} is empty")
            pairs += [(a, p) for a in ai for p in pi]
        ck.exhaustive = True
        # 3. code -> spec : random
        r = rng(4)
        ra, rp, rpairs = rand_cases(r, ck.pick(400, 6000), ck.pick(8, 12))
        na, np_ = len(atoms), len(pkgs)
        atoms += ra
        pkgs += rp
        pairs += [(a + na, p + np_) for a, p in rpairs]

    real_atoms = [b.mk_atoms(a) for a in atoms]
    real_pkgs = [b.mk_pkg(p) for p in pkgs]
    events = [dict(tid=0, i=0, atoms=atoms, pkgs=pkgs)]
    for n, (ai, pi) in enumerate(pairs):
        a3, p = real_atoms[ai - 1], real_pkgs[pi - 1]
        ev = dict(tid=n + 1, i=0, a=ai, p=pi, m=False, mb=False, mbb=False, raised="")
        try:
            ev.update(m=bool(a3[0].match(p)), mb=bool(a3[1].match(p)), mbb=bool(a3[2].match(p)))
        except Exception as ex:  # the real matcher blew up: an observation, judged by the trace spec
            ev["raised"] = type(ex).__name__
        events.append(ev)
        ck.count()
    for k in (1, len(events) // 3, len(events) - 1):
        e = events[k]
        ck.sample(dict(atom=atom_text(atoms[e["a"] - 1]), pkg=pkg_text(pkgs[e["p"] - 1]), slot=pkgs[e["p"] - 1]["slot"],
                       iuse=pkgs[e["p"] - 1]["iuse"], use=pkgs[e["p"] - 1]["use"], matched=e["m"]))
    verdicts = ck.trace("AtomMatch_Trace", events, timeout=850, heap="3g")
    bg.join(ck)
    unspec = set()
    for v in verdicts:
        if v["clause"] == "Unspecified":
            unspec.add(v["tid"])
    for n in range(1, len(events)):
        if n not in unspec:
            ck.nontriv((events[n]["a"], events[n]["p"]))
    ck.extra["unspecified_pairs"] = len(unspec)
    want = ck.replay_case["detail"] if ck.replay_case else None
    for v in verdicts:
        if v["clause"] == "Unspecified":
            continue
        e = events[v["tid"]]
        a, p = atoms[e["a"] - 1], pkgs[e["p"] - 1]
        if want is not None and (a != want["atom_rec"] or p != want["pkg_rec"]):
            continue
        ck.violation(v["clause"], dict(atom=atom_text(a), pkg=pkg_text(p), op=a["op"], pkg_slot=p["slot"], pkg_subslot=p["subslot"],
                                       pkg_repo=p["repo"], pkg_iuse=p["iuse"], pkg_use=p["use"],
                                       got=dict(plain=e["m"], weak_blocker=e["mb"], strong_blocker=e["mbb"], raised=e["raised"]),
                                       atom_rec=a, pkg_rec=p))
