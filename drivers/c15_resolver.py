"""C15 — successful resolutions are dependency-closed and slot-consistent; no crashes.

spec         : specs/Resolver.tla  (Matches, Final(plan), PlanViolations = ValidPlan's clauses,
               brute-force oracle Resolvable, policy domain Robust — shared with C16)
MC           : Resolver_MC - a reference resolver (pick any open requirement, take the first addable
               candidate in strategy order, replace installed slot-mates only when nothing they were
               selected for is lost) over every world of a bounded family (Resolver_Worlds);
               invariants Sound (done => ValidPlan), OracleAgrees (done => Resolvable), NotesHold,
               RobustNeverFails / RobustPolicy (C16).  Thorough: the same model without the replace
               guard must be refuted by TLC (it reproduces the unsound plans of the unpatched plan.py).
               Resolver_Laws (evaluated in the export run): the clause-wise judge and the brute-force
               oracle agree on every candidate final set; Robust lies within Resolvable; match laws.
spec -> code : Resolver_Export enumerates the bounded family of worlds; each one is rendered as
               SimpleTree/FakePkg repositories and resolved by the real upgrade / min-install /
               empty-tree resolvers.
code -> spec : seeded random worlds (<= ~12 packages in a main repository and an overlay, slots, five
               dependency classes, any-of groups with nested all-of, version ranges over multi-digit /
               multi-component versions, weak/strong blockers (also aimed at installed packages of
               multi-slot names), cycles, random installed sets, 1-3 targets).
Every run is judged by Resolver_Trace (clauses Target, Closure_<class>, SlotUnique, Blocker,
NoCrash, Deterministic [C16], Upgrade_*/Reuse_* [C16]).
In addition every run records the history of plan_state operations the resolver performed
(add / replace / add_blocker / hardref / backref / backtrack, nested calls excluded) together with
the projected planner state after each; Resolver_PlanTrace (INSTANCE PlanState, C17's model)
judges every step (clauses PS_<clause of PlanState_Trace>).

Carve-outs (outside the generated domain): dependency items mixing blockers into any-of groups, USE
conditionals, built source packages, packages carrying a blocker that matches themselves (C17's
carve-out); for the policy clauses see C16.
"""
import os
import traceback

from pylib import tlc
from pylib.common import rng, use_repo

CLASSES = ["depend", "bdepend", "rdepend", "idepend", "pdepend"]
CAT = "dev-a"
VIRTUAL_KEYS = ("v", "w")  # names that live in the virtual/ category


def cpn(key):
    return f"virtual/{key}" if key in VIRTUAL_KEYS else f"{CAT}/{key}"
KINDS = ("upgrade", "min", "empty")
SRC_REPOS = ("src", "ovl")  # main repository, overlay (in the order they are handed to the resolver)


def ver_str(v):
    return ".".join(str(x) for x in v)


# --------------------------------------------------------------------------------------
# rendering of spec-level structures into pkgcore syntax
# --------------------------------------------------------------------------------------
def atom_str(a):
    s = {"none": "", "weak": "!", "strong": "!!"}[a["blk"]]
    if a["op"] == "any":
        s += cpn(a["key"])
    else:
        s += f"{a['op']}{cpn(a['key'])}-{ver_str(a['ver'])}"
    if a["slot"] != "*":
        s += ":" + a["slot"]
    return s


def item_str(item):
    if len(item) == 1:
        return " ".join(atom_str(a) for a in item[0])
    parts = []
    for alt in item:
        if len(alt) == 1:
            parts.append(atom_str(alt[0]))
        else:
            parts.append("( " + " ".join(atom_str(a) for a in alt) + " )")
    return "|| ( " + " ".join(parts) + " )"


def dep_str(items):
    return " ".join(item_str(i) for i in items)


def pid(p):
    return f"{p['repo']}:{p['key']}-{ver_str(p['ver'])}:{p['slot']}"


def norm_world(world):
    """fill in ids / missing classes (worlds exported by TLC and hand-written ones)"""
    for p in world["pkgs"]:
        for c in CLASSES:
            p.setdefault(c, [])
        p["id"] = pid(p)
    return world


def describe(world):
    out = []
    for p in world["pkgs"]:
        deps = " ".join(f"{c.upper()}='{dep_str(p[c])}'" for c in CLASSES if p[c])
        out.append(f"{p['id']} {deps}".strip())
    return dict(pkgs=out, targets=[atom_str(t) for t in world["targets"]])


# --------------------------------------------------------------------------------------
# real repositories + resolver
# --------------------------------------------------------------------------------------
class Env:
    """pkgcore objects of one world: fresh repositories (and metadata dicts) per run."""

    def __init__(self, world):
        from pkgcore.repository.util import SimpleTree
        from pkgcore.test.misc import FakePkg

        self.world = world
        self.name = {}  # id(obj) -> spec id
        self.objs = {}  # spec id -> obj
        self.keep = []
        self.trees = {}
        for repo in SRC_REPOS + ("vdb",):
            cpvs, meta = {}, {}
            for p in world["pkgs"]:
                if p["repo"] != repo:
                    continue
                cat = cpn(p["key"]).split("/")[0]
                cpvs.setdefault(cat, {}).setdefault(p["key"], []).append(ver_str(p["ver"]))
                meta[(cat, p["key"], ver_str(p["ver"]))] = p
            holder, cache = {}, {}

            def mk(cat, pkg, ver, meta=meta, holder=holder, cache=cache):
                # one instance per cpv and repository, as real repositories (instance caching) give
                k = (cat, pkg, ver)
                o = cache.get(k)
                if o is None:
                    p = meta[k]
                    data = {c.upper(): dep_str(p[c]) for c in CLASSES}
                    o = cache[k] = FakePkg(f"{cat}/{pkg}-{ver}", eapi="8", slot=p["slot"], repo=holder["t"], data=data)
                    self.name[id(o)] = p["id"]
                    self.objs[p["id"]] = o
                    self.keep.append(o)
                return o

            t = SimpleTree(cpvs, pkg_klass=mk, livefs=(repo == "vdb"), repo_id=repo)
            holder["t"] = t
            self.trees[repo] = t
            list(t)  # instantiate every package (names for the planner projection)

    def resolver(self, kind):
        from pkgcore.ebuild import resolver

        vdb = [self.trees["vdb"]]
        # overlays only when the world has packages in them (a plain setup has one source repository)
        src = [self.trees[r] for r in SRC_REPOS if r == "src" or any(p["repo"] == r for p in self.world["pkgs"])]
        if kind == "upgrade":
            return resolver.upgrade_resolver(vdb, src)
        if kind == "min":
            return resolver.min_install_resolver(vdb, src)
        if kind == "empty":
            return resolver.upgrade_resolver(vdb, src, resolver_cls=resolver.empty_tree_merge_plan)
        raise ValueError(kind)

    def targets(self, which=None):
        from pkgcore.ebuild.atom import atom

        ts = self.world["targets"]
        return [atom(atom_str(ts[k])) for k in (range(len(ts)) if which is None else which)]


class Recorder:
    """Wraps the planner operations for the duration of one resolver run (no edits to the tree):
    logs every TOP-LEVEL operation (C17's vocabulary) and the projected planner state after it."""

    def __init__(self, env):
        from pkgcore.resolver import state as rstate

        self.rs = rstate
        self.env = env
        self.depth = 0
        self.events = []
        self.ps = None
        self.cname, self.ckeep = {}, []
        self.bname, self.bobj = {}, {}
        self.rname = {}
        self.saved = []
        self.prev_plan = []

    # ---- naming ----
    def c(self, ch):
        if ch is None:
            return "-"
        n = self.cname.get(id(ch))
        if n is None:
            n = self.cname[id(ch)] = f"c{len(self.cname) + 1}"
            self.ckeep.append(ch)
        return n

    def p(self, pkg):
        if pkg is None:
            return "-"
        return self.env.name.get(id(pkg), f"?{pkg}")

    def b(self, blocker, key=None):
        n = str(blocker)
        if n not in self.bobj:
            self.bobj[n] = (blocker, key if key is not None else getattr(blocker, "key", None))
        return n

    def r(self, restr):
        n = str(restr)
        self.rname[n] = restr
        return n

    # ---- projection (same abstract vocabulary as drivers/c17_planstate.py) ----
    def entry(self, op):
        rs = self.rs
        e = dict(t="?", c="-", p="-", force=False, b="-", old="-", oldc="-", fold=False)
        if isinstance(op, rs.replace_op):
            e.update(t="replace", c=self.c(op.choices), p=self.p(op.pkg), force=bool(op.force), old=self.p(op.old_pkg),
                     oldc=self.c(op.old_choices), fold=bool(op.force_old))
        elif isinstance(op, rs.add_op):
            e.update(t="add", c=self.c(op.choices), p=self.p(op.pkg), force=bool(op.force))
        elif isinstance(op, rs.remove_op):
            e.update(t="remove", c=self.c(op.choices), p=self.p(op.pkg))
        elif isinstance(op, rs.add_hardref_op):
            e.update(t="hardref", b=self.r(op.restriction), force=True)
        elif isinstance(op, rs.add_backref_op):
            e.update(t="backref", c=self.c(op.choices), p=self.p(op.pkg))
        elif isinstance(op, rs.incref_forward_block_op):
            e.update(t="incref", c=self.c(op.choices), b=self.b(op.blocker, op.key))
        elif isinstance(op, rs.decref_forward_block_op):
            e.update(t="decref", c=self.c(op.choices), b=self.b(op.blocker, op.key))
        return e

    def project(self):
        ps = self.ps
        slots = [self.p(x) for v in ps.state.slot_dict.values() for x in v]
        plan = [self.entry(x) for x in ps.plan]
        keep = 0
        while keep < len(plan) and keep < len(self.prev_plan) and plan[keep] == self.prev_plan[keep]:
            keep += 1
        self.prev_plan = plan
        rev = {}
        for ch, lst in ps.rev_blockers.items():
            for bl, key in lst:
                k = (self.c(ch), self.b(bl, key))
                rev[k] = rev.get(k, 0) + 1
        return dict(
            keep=keep,
            tail=plan[keep:],
            slots=sorted(slots),
            dupes=len(slots) != len(set(slots)),
            limiters=sorted(self.b(x) for v in ps.state.limiters.values() for x in v),
            choice=sorted([self.p(p), self.c(c)] for p, c in ps.pkg_choices.items()),
            rev=[[c, b, n] for (c, b), n in sorted(rev.items())],
            refcnt=sorted([self.b(b), int(ps.blockers_refcnt.get(b, 0))] for b in list(ps.blockers_refcnt)),
            vdb=sorted([self.p(p), int(ps.vdb_filter.get(p, 0))] for p in list(ps.vdb_filter)),
            forced=sorted([self.r(x), int(ps.forced_restrictions.get(x, 0))] for x in list(ps.forced_restrictions)),
        )

    # ---- wrapping ----
    def _wrap(self, owner, attr, describe_call):
        orig = owner.__dict__[attr]
        rec = self

        def wrapper(this, *a, **kw):
            plan = a[0] if owner is not rec.rs.plan_state else this
            top = rec.depth == 0 and plan is rec.ps
            if not top:
                return orig(this, *a, **kw)
            rec.depth += 1
            call = describe_call(this, *a, **kw)
            ret, raised = None, ""
            try:
                ret = orig(this, *a, **kw)
                return ret
            except BaseException as e:
                raised = type(e).__name__
                raise
            finally:
                rec.depth -= 1
                names = []
                if isinstance(ret, (list, tuple)):
                    names = sorted(rec.p(x) if id(x) in rec.env.name else str(x) for x in ret)
                ev = dict(ev="?", c="-", p="-", force=False, b="-", r="-", pos=0)
                ev.update(call)
                ev.update(ret=names, raised=bool(raised), exc=raised, st=rec.project())
                rec.events.append(ev)

        setattr(owner, attr, wrapper)
        self.saved.append((owner, attr, orig))

    def __enter__(self):
        rs = self.rs
        self._wrap(rs.add_op, "apply", lambda op, plan: dict(ev="add", c=self.c(op.choices), p=self.p(op.pkg), force=bool(op.force)))
        self._wrap(rs.remove_op, "apply", lambda op, plan: dict(ev="remove", c=self.c(op.choices), p=self.p(op.pkg)))
        self._wrap(rs.replace_op, "apply", lambda op, plan: dict(ev="replace", c=self.c(op.choices), p=self.p(op.pkg), force=bool(op.force)))
        self._wrap(rs.add_hardref_op, "apply", lambda op, plan: dict(ev="hardref", r=self.r(op.restriction)))
        self._wrap(rs.add_backref_op, "apply", lambda op, plan: dict(ev="backref", c=self.c(op.choices), p=self.p(op.pkg)))
        self._wrap(rs.incref_forward_block_op, "apply",
                   lambda op, plan: dict(ev="addblocker", c=self.c(op.choices), b=self.b(op.blocker, op.key)))
        self._wrap(rs.decref_forward_block_op, "apply",
                   lambda op, plan: dict(ev="dropblocker", c=self.c(op.choices), b=self.b(op.blocker, op.key)))
        self._wrap(rs.plan_state, "backtrack", lambda ps, pos: dict(ev="backtrack", pos=int(pos)))
        return self

    def __exit__(self, *exc):
        for owner, attr, orig in reversed(self.saved):
            setattr(owner, attr, orig)
        self.saved = []
        return False

    def universe(self):
        """what the trace spec needs to know about the objects involved (C17 header)"""
        pkgs = sorted(self.env.objs)
        blocks = []
        for n, (bl, _key) in self.bobj.items():
            for pn in pkgs:
                if bl.match(self.env.objs[pn]):
                    blocks.append([n, pn])
        return dict(
            pkgs=pkgs,
            key={n: self.env.objs[n].key for n in pkgs},
            slot={n: self.env.objs[n].slot for n in pkgs},
            choices=sorted(self.cname.values(), key=lambda s: int(s[1:])),
            blockers=sorted(self.bobj),
            bkey={n: str(k) for n, (_b, k) in self.bobj.items()},
            blocks=blocks,
            restrs=sorted(self.rname),
        )


def run_once(world, kind, record=True, mode="plain", which=None):
    """one resolver instance on fresh repositories.
    mode 'plain': add_atoms(targets) once.
    mode 'batch': what pmerge --ignore-failures does: add_atoms(all); after a failure drop the failed target,
                  reset() the resolver, add_atoms(the rest) - until success or one target is left.
    mode 'seq'  : one add_atoms per target on the same instance, stopping at the first failure.
    which: indices of the targets to ask for (default all).  Result: ok, ops, used (indices finally asked for),
    done (targets resolved), marks (length of ops before each target, where that is known)."""
    env = Env(world)
    used = list(range(len(world["targets"]))) if which is None else list(which)
    out = dict(ok=False, raised=False, exc="", ops=[], tb="", used=used, done=0, marks=[], resets=0, mode=mode)
    rec = Recorder(env) if record else None

    def ops_now(res):
        return [dict(t=op.desc, p=env.name.get(id(op.pkg), f"?{op.pkg}"),
                     old=env.name.get(id(op.old_pkg), "?") if op.desc == "replace" else "-")
                for op in res.state.iter_ops(True)]

    try:
        if rec:
            rec.__enter__()
        res = None
        try:
            res = env.resolver(kind)
            if rec:
                rec.ps = res.state
            if mode == "seq":
                ok = True
                for k in used:
                    out["marks"].append(len(ops_now(res)))
                    if res.add_atoms(env.targets([k])):
                        ok = False
                        break
                    out["done"] += 1
                out["ok"] = ok
            else:
                ret = res.add_atoms(env.targets(used))
                while ret and mode == "batch" and len(used) > 1:
                    failed = ret[0][0]
                    keep = [k for k, t in zip(used, env.targets(used)) if t != failed]
                    if not keep or len(keep) == len(used):
                        break
                    used = out["used"] = keep
                    out["resets"] += 1
                    res.reset()
                    if rec:
                        rec.ps = res.state  # reset() may install another planner state object
                    ret = res.add_atoms(env.targets(used))
                out["ok"] = not ret
                out["done"] = len(used) if out["ok"] else 0
                if len(used) == 1 and not out["resets"]:
                    out["marks"] = [0]
        finally:
            if rec:
                rec.__exit__()
        out["ops"] = ops_now(res)
    except RecursionError:
        out.update(raised=True, exc="RecursionError", tb="RecursionError")
    except Exception as e:  # "never crash": every exception is an observation for the judge
        tb = traceback.extract_tb(e.__traceback__)[-1]
        out.update(raised=True, exc=type(e).__name__, tb=f"{type(e).__name__} at {os.path.basename(tb.filename)}:{tb.name}")
    if rec:
        out["ps_events"] = rec.events
        out["ps_universe"] = rec.universe()
    return out


# --------------------------------------------------------------------------------------
# generators (code -> spec): seeded random worlds inside the property's domain
# --------------------------------------------------------------------------------------
def _atom(key, op="any", ver=(), slot="*", blk="none"):
    return dict(key=key, op=op, ver=list(ver) if op != "any" else [], slot=slot, blk=blk)


def _matches(a, p):
    """generator-side only (keeps worlds inside the domain; judging is done in TLA+)"""
    pv, av = list(p["ver"]), list(a["ver"])
    ok = {"any": True, "=": pv == av, ">=": pv >= av, "<=": pv <= av, ">": pv > av, "<": pv < av}[a["op"]]
    return a["key"] == p["key"] and ok and a["slot"] in ("*", p["slot"])


# version pools: plain, digit-count changes (9 -> 10), later components (1.9 -> 1.10), mixed lengths
VERSION_POOLS = (
    ([1], [2], [3]),
    ([1], [2], [3]),
    ([9], [10], [11]),
    ([1, 9], [1, 10], [2, 0]),
    ([2, 9], [2, 10], [2, 11]),
    ([1], [1, 1], [1, 10]),
)
STYLES = ("robust", "friendly", "hostile", "blocky")


def gen_world(r, style):
    """style: 'robust' (plain names, consistent requirements: mostly inside C16's judged domain),
    'friendly' (some version ranges / slots / blockers), 'hostile' (anything goes),
    'blocky' (many installed packages, names with several slots, blockers aimed at what is installed).
    Every style but robust: sometimes a name of the virtual/ category, any-of groups of up to five.
    Every style: versions from pools with multi-digit / multi-component members, source packages
    spread over the main repository and an overlay."""
    nkeys = r.randint(2, 6 if style in ("robust", "friendly") else 5 if style == "hostile" else 4)
    allkeys = "abcdefgh"
    keys = list(allkeys[:nkeys])
    if style != "robust" and r.random() < 0.3:
        keys[-1] = "v"  # a package of the virtual/ category
    ghost = "z"  # a name no package has (blockers that hit nothing)
    pool = {k: r.choice(VERSION_POOLS) for k in allkeys + ghost + "".join(VIRTUAL_KEYS)}
    p_multi = {"robust": 0.15, "friendly": 0.3, "hostile": 0.3, "blocky": 0.6}[style]
    p_inst = {"robust": 0.5, "friendly": 0.5, "hostile": 0.5, "blocky": 0.85}[style]
    pkgs = []
    maxp = 12
    multi = {}
    for k in keys:
        idx = sorted(r.sample([0, 1, 2], r.choice([1, 1, 2, 2, 3]) if style != "blocky" else r.choice([2, 2, 3])))
        multi[k] = r.random() < p_multi

        def slot_of(i, k=k):
            return str(i + 1) if multi[k] and (i > 0) and r.random() < 0.8 else "0"

        for i in idx:
            if len(pkgs) >= maxp:
                break
            repo = "ovl" if r.random() < 0.25 else "src"
            slot = slot_of(i)
            pkgs.append(dict(repo=repo, key=k, ver=list(pool[k][i]), slot=slot))
            if style in ("friendly", "hostile") and r.random() < 0.08 and len(pkgs) < maxp:
                # the same version in both repositories (an overlay overriding the main tree)
                pkgs.append(dict(repo="ovl" if repo == "src" else "src", key=k, ver=list(pool[k][i]), slot=slot))
    by_key = {}
    for p in pkgs:
        by_key.setdefault(p["key"], []).append(p)
    installed = {}
    for k in keys:
        if k not in by_key or len(pkgs) >= maxp + 3:
            continue
        if r.random() < p_inst:
            i = r.choice([0, 0, 1, 2]) if style == "blocky" else r.choice([0, 1, 2])
            v = list(pool[k][i])
            same = [p for p in by_key[k] if p["ver"] == v]
            if same:
                slot = same[0]["slot"]
                if style == "hostile" and r.random() < 0.08:
                    slot = "9"  # slot moved since it was installed
            else:
                slot = str(i + 1) if multi[k] and i > 0 else "0"
            pkgs.append(dict(repo="vdb", key=k, ver=v, slot=slot))
            installed.setdefault(k, []).append(i)
            if r.random() < 0.25:
                i2 = r.choice([x for x in [0, 1, 2] if x != i])
                v2 = list(pool[k][i2])
                same2 = [p for p in by_key[k] if p["ver"] == v2]
                s2 = same2[0]["slot"] if same2 else str(i2 + 1)
                if s2 != slot:
                    pkgs.append(dict(repo="vdb", key=k, ver=v2, slot=s2))
                    installed[k].append(i2)
    order = {k: i for i, k in enumerate(keys)}
    key_atom = {}  # robust style: one fixed requirement shape per name

    def pick_ver(k):
        return r.choice(pool[k])

    def blocker_on_installed(blk):
        k = r.choice(sorted(installed))
        i = r.choice(installed[k])
        x = r.random()
        if x < 0.5 and i < 2:
            return _atom(k, "<", pool[k][i + 1], blk=blk)  # everything below the next version
        if x < 0.7:
            return _atom(k, "<=", pool[k][i], blk=blk)
        if x < 0.85:
            return _atom(k, "=", pool[k][i], blk=blk)
        return _atom(k, blk=blk)

    def ratom(owner, blk="none"):
        if style == "robust":
            if blk != "none":
                return _atom(ghost, blk=blk)
            later = [k for k in keys if order[k] > order[owner]]
            k = r.choice(later) if later and r.random() < 0.85 else r.choice(keys)
            if k not in key_atom:
                x = r.random()
                if x < 0.7:
                    key_atom[k] = _atom(k)
                elif x < 0.85:
                    key_atom[k] = _atom(k, ">=", pool[k][0])
                else:
                    key_atom[k] = _atom(k, r.choice([">=", "<=", "<", ">", "="]), pick_ver(k))
            return dict(key_atom[k])
        if style == "blocky" and blk != "none" and installed and r.random() < 0.8:
            return blocker_on_installed(blk)
        k = r.choice(keys)
        if style in ("friendly", "blocky"):
            later = [x for x in keys if order[x] > order[owner]]
            if later and r.random() < 0.6:
                k = r.choice(later)
            if blk != "none" and r.random() < (0.5 if style == "friendly" else 0.1):
                k = ghost
            op = r.choice(["any"] * 6 + [">=", ">=", "<", "=", "<=", ">"])
            slot = r.choice(["*"] * 8 + ["0", "1", "2"])
        else:
            op = r.choice(["any", "any", "any", ">=", "<", "=", "<=", ">"])
            slot = r.choice(["*"] * 5 + ["0", "1", "2"])
        if blk == "none" and style != "blocky" and r.random() < 0.04:
            k = r.choice(allkeys)  # possibly a name the repositories do not have at all
        return _atom(k, op, pick_ver(k), slot, blk)

    dens = {"robust": 0.8, "friendly": 0.9, "hostile": 1.0, "blocky": 0.8}[style]
    prob = {"rdepend": 0.5, "depend": 0.3, "bdepend": 0.15, "idepend": 0.15, "pdepend": 0.15}
    p_block = 0.12 if style != "blocky" else 0.4
    for p in pkgs:
        for c in CLASSES:
            items = []
            while r.random() < prob[c] * dens and len(items) < 3:
                x = r.random()
                o = p["key"]
                if x < p_block:
                    items.append([[ratom(o, r.choice(["weak", "weak", "strong"]))]])
                elif x < p_block + 0.6 * (1 - p_block):
                    items.append([[ratom(o)]])
                elif x < p_block + 0.8 * (1 - p_block):
                    items.append([[ratom(o)], [ratom(o)]])
                elif x < p_block + 0.9 * (1 - p_block):
                    items.append([[ratom(o)] for _ in range(r.randint(3, 5))])  # a long any-of group
                else:
                    items.append([[ratom(o, "none"), ratom(o)], [ratom(o)]])
            # domain: no package carries a blocker that matches itself
            p[c] = [i for i in items if not (i[0][0]["blk"] != "none" and _matches(i[0][0], p))]
    targets = []
    for _ in range(r.choice([1, 1, 2, 3])):
        if style == "robust":
            k = r.choice(keys)
            targets.append(dict(key_atom.get(k) or _atom(k)))
        elif style == "hostile":
            targets.append(ratom(keys[0]))
        else:
            k = r.choice(keys)
            t = _atom(k, r.choice(["any"] * 4 + [">=", "<"]), pick_ver(k))
            if style == "blocky" and r.random() < 0.4:
                # one slot of a (multi-slot) name, e.g. the slot of something installed
                mine = [p for p in pkgs if p["key"] == k]
                t = _atom(k, slot=r.choice(mine)["slot"]) if mine else t
            targets.append(t)
    return norm_world(dict(pkgs=pkgs, targets=targets))


# --------------------------------------------------------------------------------------
# observation -> events, judging
# --------------------------------------------------------------------------------------
def world_event(world):
    return [dict(id=p["id"], key=p["key"], ver=p["ver"], slot=p["slot"], repo=p["repo"], **{c: p[c] for c in CLASSES})
            for p in world["pkgs"]]


class Batch:
    """collects the runs of one trace file for Resolver_Trace and Resolver_PlanTrace"""

    def __init__(self):
        self.events, self.cases, self.ps = [], [], []

    def add(self, world, kind, with_plan_trace=True, mode="batch"):
        """the session now; its repetition on a fresh instance happens in complete(), i.e.
        after the resolutions of all the OTHER worlds of the batch (nothing may leak from one resolver
        instance, or from one process-wide cache, to the next)"""
        o1 = run_once(world, kind, record=with_plan_trace, mode=mode)
        tid = len(self.cases)
        asked = [world["targets"][k] for k in o1["used"]]
        self.events.append(dict(tid=tid, i=0, ev="resolve", kind=kind, mode=mode, pkgs=world_event(world), targets=asked,
                                raised=o1["raised"], exc=o1["exc"], ok=o1["ok"], ops=o1["ops"], done=o1["done"],
                                marks=o1["marks"]))
        self.cases.append(dict(world=world, kind=kind, mode=mode, o1=o1))
        if with_plan_trace and o1.get("ps_events"):
            u = o1["ps_universe"]
            self.ps.append(dict(tid=tid, i=0, ev="universe", pkgs=u["pkgs"], choices=u["choices"], blockers=u["blockers"],
                                restrs=u["restrs"], key=sorted(map(list, u["key"].items())),
                                slot=sorted(map(list, u["slot"].items())), bkey=sorted(map(list, u["bkey"].items())),
                                blocks=u["blocks"]))
            for i, e in enumerate(o1["ps_events"]):
                self.ps.append(dict(tid=tid, i=i + 1, **e))
        return o1

    def complete(self):
        for ev, case in zip(self.events, self.cases):
            if "ok2" not in ev:
                # identical inputs: the same session on a fresh instance (a used instance may legitimately
                # answer differently from a fresh one: what it learnt to be insoluble prunes its search)
                o2 = run_once(case["world"], case["kind"], record=False, mode=case["mode"])
                ev.update(raised2=o2["raised"], exc2=o2["exc"], ok2=o2["ok"], ops2=o2["ops"])


PLAN_CLAUSES_OF = ("Target", "Closure_depend", "Closure_bdepend", "Closure_rdepend", "Closure_idepend", "Closure_pdepend",
                   "SlotUnique", "Blocker", "NoCrash")
POLICY_CLAUSES = ("Deterministic", "Upgrade_failed", "Upgrade_highest", "Upgrade_ready", "Reuse_failed", "Reuse_installed",
                  "Reuse_ready")
SPECIAL_WORLDS = []  # the non-"main" parts of the exported family (filled by exported_worlds)


def judge(ck, batch, label, want):
    """want: the clause names this property owns (C15: plan clauses + PS_*, C16: policy clauses)"""
    if not batch.events:
        return dict(judged=0, outside=0)
    batch.complete()
    verdicts, res = tlc.trace_check("Resolver_Trace", batch.events, timeout=1500)
    ck.add_mc(f"Trace:Resolver_Trace {label}", res)
    ck.traces += len(batch.events)
    stats = dict(judged=sum(x[2] for x in res.tagged("JUDGED")), outside=0)
    for v in verdicts:
        case = batch.cases[v["tid"]]
        x = v["extra"][0] if v["extra"] else {}
        if v["clause"] == "OutsideDomain":
            raise tlc.MachineryError(f"generator left the property's domain ({x}): {describe(case['world'])}")
        if v["clause"] not in want:
            continue
        ck.violation(v["clause"], dict(kind=case["kind"], mode=case.get("mode", "plain"), via=x.get("via", "-"),
                                       pkg=x.get("pkg", "-"), what=x.get("what", "-"), asked=case["o1"].get("used", []),
                                       exc=case["o1"]["tb"], ops=case["o1"]["ops"], text=describe(case["world"]),
                                       world=case["world"]))
    if "PS" in want and batch.ps:
        pverd, pres = tlc.trace_check("Resolver_PlanTrace", batch.ps, timeout=1500)
        ck.add_mc(f"Trace:Resolver_PlanTrace {label}", pres)
        by = {(e["tid"], e["i"]): e for e in batch.ps}
        for v in pverd:
            e = by[(v["tid"], v["i"])]
            case = batch.cases[v["tid"]]
            if v["clause"] == "OutsideDomain":
                stats["outside"] += 1
                k = f"{e['ev']}{' forced' if e['force'] else ''}"
                outside = ck.extra.setdefault("plan_state_calls_outside_C17_domain_by_op", {})
                outside[k] = outside.get(k, 0) + 1
                continue
            if v["clause"] == "Projection":
                raise tlc.MachineryError(f"planner projection broken at {e}")
            call = {k: e[k] for k in ("ev", "c", "p", "force", "b", "r", "pos", "ret", "exc")}
            ck.violation("PS_" + v["clause"], dict(kind=case["kind"], mode=case.get("mode", "plain"), step=v["i"], op=e["ev"],
                                                   call=call, exc=e["exc"],
                                                   text=describe(case["world"]), world=case["world"]))
    return stats


# --------------------------------------------------------------------------------------
# the check
# --------------------------------------------------------------------------------------
def mc_cfg(level, guard=True):
    return (f'SPECIFICATION Spec\nCONSTANTS\n  Level = "{level}"\n  GuardReplace = {"TRUE" if guard else "FALSE"}\n'
            "INVARIANT TypeOK\nINVARIANT Sound\nINVARIANT OracleAgrees\nINVARIANT NotesHold\n"
            "INVARIANT RobustNeverFails\nINVARIANT RobustPolicy\n")


def model_check(ck):
    """the design: reference resolver over the bounded family (shared by C15 and C16)"""
    level = ck.pick("tiny", "small")
    ck.mc("Resolver_MC", cfg_text=mc_cfg(level), workers=ck.pick(4, 8), timeout=ck.pick(300, 2400),
          label=f"MC:Resolver_MC Level={level}")
    if not ck.quick:
        # the model must be able to tell a sound design from an unsound one: without the replace guard
        # TLC has to find the plan that drops a package selected for something else
        res = ck.mc("Resolver_MC", cfg_text=mc_cfg("tiny", guard=False), workers=4, timeout=900, expect_ok=False,
                    label="MC:Resolver_MC GuardReplace=FALSE (must be refuted)")
        if res.violated not in ("NotesHold", "Sound"):
            raise tlc.MachineryError(f"Resolver_MC without the replace guard was not refuted ({res.violated})")
        ck.extra["unguarded_design_refuted_by"] = res.violated


def exported_worlds(ck, n_sample):
    level = ck.pick("tiny", "small")
    cases = ck.export("Resolver_Export", cfg_text=f'CONSTANT Level = "{level}"\n', timeout=1800,
                      label=f"Export+Laws:Resolver_Export/Resolver_Laws Level={level} (judge = oracle on every final set; "
                            "Robust within Resolvable; match laws)")
    for c in cases:
        if any(p["repo"] not in SRC_REPOS + ("vdb",) for p in c["pkgs"]):
            raise tlc.MachineryError(f"exported world uses an unknown repository: {c}")
    cases.sort(key=lambda c: repr(c))
    main = [c for c in cases if c["fam"] == "main"]
    special = [c for c in cases if c["fam"] != "main"]  # blocker / versions parts: always complete
    if n_sample and n_sample < len(main):
        r_ = rng(1515)
        main = r_.sample(main, n_sample)
    SPECIAL_WORLDS[:] = [norm_world(c) for c in special]
    return SPECIAL_WORLDS + [norm_world(c) for c in main]


def nontrivial(ck, tag, world, kind, o1):
    """rule: distinct (world, strategy) whose resolution succeeded with at least one merged package"""
    if o1["ok"] and any(not op["p"].startswith("vdb:") for op in o1["ops"]):
        ck.nontriv((tag, repr(describe(world)), kind))


def campaign(ck, want, plan_trace, sizes, styles=STYLES, seed=15, tail=None):
    """spec -> code (exported family) and code -> spec (random worlds); returns policy statistics.
    tail(batch): adds further runs to the last batch (judged in the same TLC run)"""
    n_export, n_random, chunk = sizes
    stats = dict(judged=0, outside=0, ok=0, failed=0, crashed=0)

    def flush(batch, label):
        s = judge(ck, batch, label, want)
        stats["judged"] += s["judged"]
        stats["outside"] += s["outside"]

    batch, nb = Batch(), 0

    def one(tag, world, n, extra):
        nonlocal batch, nb
        sessions = [(kind, "batch") for kind in KINDS]
        if len(world["targets"]) > 1:
            sessions += [("upgrade", "seq"), ("min", "seq")]
        for kind, mode in sessions:
            o1 = batch.add(world, kind, with_plan_trace=plan_trace, mode=mode)
            ck.count()
            nontrivial(ck, tag, world, kind + mode, o1)
            stats["crashed" if o1["raised"] else "ok" if o1["ok"] else "failed"] += 1
            stats["resets"] = stats.get("resets", 0) + o1["resets"]
        if n < 2:
            ck.sample(dict(kind=kind, ok=o1["ok"], ops=o1["ops"], **extra, **describe(world)))
        if len(batch.events) >= chunk:
            flush(batch, f"batch-{nb}")
            batch, nb = Batch(), nb + 1

    # 1. worlds chosen by the specification
    for n, world in enumerate(exported_worlds(ck, n_export)):
        one("x", world, n, dict(direction="spec->code"))
    # 2. seeded random worlds
    r_ = rng(seed)
    for n in range(n_random):
        style = styles[n % len(styles)]
        one("r", gen_world(r_, style), n, dict(direction="code->spec", style=style))
    if tail:
        tail(batch)
    flush(batch, f"batch-{nb}")
    return stats


def replay(ck, want):
    d = ck.replay_case["detail"]
    world = norm_world(d["world"])
    batch = Batch()
    for kind in ([d["kind"]] if d.get("kind") in KINDS else KINDS):
        batch.add(world, kind, with_plan_trace="PS" in want, mode=d.get("mode", "batch") if d.get("mode") != "plain" else "batch")
        ck.count()
        ck.nontriv(("replay", kind))
    ck.sample(describe(world))
    judge(ck, batch, "replay", want)


ASSUMPTIONS = [
    "repositories are SimpleTree/FakePkg (EAPI 8, no USE conditionals, category dev-a), one package object per cpv and "
    "repository as instance-caching repositories give; installed packages are not `built`",
    "versions are dot-separated numbers without leading zeros, suffixes or revisions (the full version order is "
    "C01's subject); blockers only as top-level items; source repositories: a main tree and an overlay",
    "'planned package' whose dependencies/blockers must hold = source package merged by the plan; FINAL = installed "
    "set after carrying out the add/replace operations of resolver.state.iter_ops(True)",
    "plan_state operations are observed by wrapping the op classes' apply()/plan_state.backtrack at run time",
]


def run(ck):
    use_repo()
    want = set(PLAN_CLAUSES_OF) | {"PS"}
    ck.rule = ("one evaluation = one resolver construction + add_atoms(targets) on fresh repositories, run twice (the second "
               "time after the other worlds of the batch have been resolved); worlds: "
               "members of the TLC-exported bounded family and seeded random worlds (robust/friendly/hostile/blocky styles) x "
               "{upgrade, min-install, empty-tree}; non-trivial = distinct (world, strategy) whose resolution succeeded "
               "and merged at least one source package")
    ck.assumptions = ASSUMPTIONS
    if ck.replay_case:
        return replay(ck, want)
    model_check(ck)
    stats = campaign(ck, want, plan_trace=True, sizes=ck.pick((12, 36, 100000), (1000, 1400, 1800)))
    ck.extra["runs"] = stats
    ck.extra["plan_state_calls_outside_C17_domain"] = stats["outside"]
    if stats["ok"] == 0 and not ck.violations:
        raise tlc.MachineryError("no resolution succeeded: nothing was judged")
