"""C06 — boolean restriction trees evaluate as propositional logic; normal forms agree.

MC          : BoolTree_MC — every tree reachable by <= MaxDepth wrappings (all 4 node kinds, negate flag,
              Negate wrappers, siblings): the intended DNF/CNF expansions and the complete signed-leaf
              expansion mean what the tree means for all valuations; counting-node identities.
              BoolTree_Laws — De Morgan, double negation, commutation, xor, and that the expansion pkgcore
              ships for a negated any-of is not a DNF of it.
spec -> code: BoolTree_Export enumerates every tree of a bounded grammar over 3 leaf ids; each is built from
              real And/Or/JustOne/AtMostOneOf restrictions (package and value flavoured, Negate wrappers, leaf
              negate flags as real negated leaves) over real leaf restrictions.
code -> spec: seeded random trees up to depth 4 (1..3 children, atoms as expandable sub-trees) over 10+ leaves.
Both record: .match() on every member of a small universe, the leaf truth table of the universe, and the
clause lists of dnf_solutions / cnf_solutions / iter_cnf_solutions (plain and full_solution_expansion),
literals projected back into trees (leaf ids, Negate wrappers, un-expanded sub-nodes).  BoolTree_Trace judges:
Match on every member, logical equivalence of every clause list over ALL valuations for trees with <= 4
distinct leaves (on the realised valuations for larger ones).

While a tree is examined, the DNF derivations of the three previously examined trees are still in flight (one
solution taken, iterator kept): derivations must be independent of each other.
Carve-outs: empty groups; NotImplementedError (documented: negated node in CNF) is a refusal, counted, not judged.
Leaf correctness is not judged here (truth of each leaf on each member is observed).
"""
from pylib import tlc
from pylib.common import rng, use_repo

EXH = 4
KIND_OF = {}


class LightPkg:
    """the attributes package-level leaf restrictions read"""

    def __init__(self, cat, pkg, ver, rev, use, slot):
        self.category, self.package, self.version, self.revision = cat, pkg, ver, rev
        self.fullver = ver if not rev else f"{ver}-r{rev}"
        self.use, self.slot = frozenset(use), slot
        self.key = f"{cat}/{pkg}"
        self.cpvstr = f"{self.key}-{self.fullver}"

    def __repr__(self):
        return f"{self.cpvstr}:{self.slot}[{','.join(sorted(self.use))}]"


class World:
    """One universe (members + leaf pool) of one flavour, and the projection objects <-> trees."""

    def __init__(self, uidx, flavour, members, leaves, mod):
        self.u = uidx
        self.flavour = flavour
        self.members = members
        self.mod = mod
        self.leaf_objs = []  # index = leaf id - 1
        self.by_id = {}
        for o in leaves:
            self.leaf_id(o)
        self.pool = len(self.leaf_objs)

    def leaf_id(self, obj):
        k = id(obj)
        if k not in self.by_id:
            self.leaf_objs.append(obj)  # keeps the object alive: id() stays unique
            self.by_id[k] = len(self.leaf_objs)
        return self.by_id[k]

    # ---- tree (spec vocabulary) -> real restriction ----
    def build(self, t):
        b, r = self.mod["boolean"], self.mod["restriction"]
        k = t["k"]
        if k == "leaf":
            return self.leaf_objs[t["id"] - 1]
        if k == "not":
            return r.Negate(self.build(t["ch"][0]))
        if k == "atom":
            return self.atoms[t["a"]]
        cls = {"and": b.AndRestriction, "or": b.OrRestriction, "one": b.JustOneRestriction, "amo": b.AtMostOneOfRestriction}[k]
        return cls(*[self.build(c) for c in t["ch"]], node_type=self.flavour, negate=t["neg"])

    # ---- real restriction -> tree ----
    def proj(self, obj):
        b, r = self.mod["boolean"], self.mod["restriction"]
        if isinstance(obj, r.Negate):
            return dict(k="not", neg=False, id=0, ch=[self.proj(obj._restrict)])
        if isinstance(obj, b.base):
            for cls, k in ((b.AndRestriction, "and"), (b.OrRestriction, "or"), (b.JustOneRestriction, "one"),
                           (b.AtMostOneOfRestriction, "amo")):
                if isinstance(obj, cls):
                    return dict(k=k, neg=bool(obj.negate), id=0, ch=[self.proj(c) for c in obj.restrictions])
            raise tlc.MachineryError(f"unknown boolean class {type(obj)}")
        return dict(k="leaf", neg=False, id=self.leaf_id(obj), ch=[])

    def truth_table(self):
        return [[i + 1 for i, o in enumerate(self.leaf_objs) if o.match(m)] for m in self.members]


def _forms(world, obj):
    out = []
    if not isinstance(obj, world.mod["boolean"].base):
        return out  # only boolean nodes derive normal forms (a Negate wrapper / bare leaf has no such API)
    for name, dnf, call in (
        ("DNF", True, lambda: obj.dnf_solutions()),
        ("IterDNF", True, lambda: list(obj.iter_dnf_solutions())),
        ("CNF", False, lambda: obj.cnf_solutions()),
        ("IterCNF", False, lambda: list(obj.iter_cnf_solutions())),
        ("FullDNF", True, lambda: obj.dnf_solutions(True)),
        ("FullCNF", False, lambda: obj.cnf_solutions(True)),
    ):
        f = dict(name=name, dnf=dnf, st="ok", cl=[])
        try:
            sols = call()
            f["cl"] = [[world.proj(x) for x in clause] for clause in sols]
        except NotImplementedError:
            f["st"] = "refused"
        except Exception as e:  # judged (clause <name>_Raised)
            f["st"] = "raised"
            f["exc"] = f"{type(e).__name__}: {e}"
        out.append(f)
    # identical answers of the iterator / full variants need not be judged twice
    keep, seen = [], {}
    for f in out:
        sig = (f["dnf"], f["st"], repr(f["cl"]))
        if sig in seen:
            continue
        seen[sig] = f["name"]
        keep.append(f)
    return keep


def _strip(world, t):
    """tree as sent to TLA+ (an atom is the And node over its component leaves that it is)"""
    if t["k"] == "atom":
        return world.proj(world.atoms[t["a"]])
    return dict(k=t["k"], neg=t["neg"], id=t["id"], ch=[_strip(world, c) for c in t["ch"]])


def _count_leaves(t, acc):
    if t["k"] == "leaf":
        acc.add(t["id"])
    for c in t["ch"]:
        _count_leaves(c, acc)
    return acc


def make_worlds():
    from pkgcore.ebuild import restricts
    from pkgcore.ebuild.atom import atom
    from pkgcore.restrictions import boolean, packages, restriction, values

    mod = dict(boolean=boolean, restriction=restriction)
    P = packages.PackageRestriction
    pk = []
    for cat, pkg, ver, rev, use, slot in [
        ("dev-util", "diffball", "1.0", None, "x", "0"), ("dev-util", "diffball", "0.7", None, "", "0"),
        ("dev-util", "diffball", "1.0", 1, "xy", "1"), ("dev-util", "bsdiff", "2.1", None, "y", "0"),
        ("dev-util", "fake", "1.0", None, "x", "1"), ("dev-lib", "fake", "1.0", None, "", "0"),
        ("dev-lib", "fake", "2.1", 2, "xy", "0"), ("dev-lib", "diffball", "0.7", None, "y", "1"),
        ("sys-apps", "bsdiff", "1.0", None, "x", "0"), ("sys-apps", "fake", "0.7", 1, "xy", "1"),
        ("sys-apps", "diffball", "2.1", None, "", "0"), ("sys-lib", "bsdiff", "1.0", 1, "y", "1"),
        ("sys-lib", "fake", "1.0", None, "xy", "0"), ("virtual", "diffball", "1.0", None, "", "1"),
    ]:
        pk.append(LightPkg(cat, pkg, ver, rev, use, slot))
    pleaves = [
        restricts.CategoryDep("dev-util"),
        restricts.PackageDep("diffball"),
        restricts.VersionMatch(">=", "1.0"),
        P("category", values.StrGlobMatch("sys-")),
        P("package", values.StrExactMatch("fake"), negate=True),
        P("use", values.ContainmentMatch("x")),
        P("category", values.StrRegex("lib$")),
        restricts.VersionMatch("~", "1.0"),
        P("use", values.ContainmentMatch("y", negate=True)),
        restricts.SlotDep("0"),
        P("package", values.StrGlobMatch("f", negate=True)),
        P("category", values.StrExactMatch("virtual", negate=True), negate=True),
    ]
    # negated twins (a leaf id with the negate flag set in an exported tree): same leaf, flag flipped
    ptwins = [
        restricts.CategoryDep("dev-util", negate=True),
        restricts.PackageDep("diffball", negate=True),
        restricts.VersionMatch(">=", "1.0", negate=True),
        P("category", values.StrGlobMatch("sys-"), negate=True),
        P("package", values.StrExactMatch("fake")),
        P("use", values.ContainmentMatch("x"), negate=True),
        P("category", values.StrRegex("lib$"), negate=True),
        restricts.VersionMatch("~", "1.0", negate=True),
        P("use", values.ContainmentMatch("y", negate=True), negate=True),
        restricts.SlotDep("0", negate=True),
        P("package", values.StrGlobMatch("f", negate=True), negate=True),
        P("category", values.StrExactMatch("virtual", negate=True)),
    ]
    atoms = [atom("dev-util/diffball"), atom(">=dev-lib/fake-1.0"), atom("~dev-util/diffball-1.0:1"), atom("sys-apps/bsdiff:0")]
    vals = ["", "a", "ab", "abc", "b", "ba", "A", "xyz", "cab", "Abc"]
    vleaves = [
        values.StrExactMatch("a"), values.StrGlobMatch("a"), values.StrGlobMatch("c", prefix=False), values.StrRegex("b"),
        values.StrExactMatch("ab", negate=True), values.ContainmentMatch("b"), values.StrExactMatch("A", case_sensitive=False),
        values.StrRegex("^.?$", match=True), values.StrGlobMatch("AB", case_sensitive=False), values.ContainmentMatch(("x", "c"), negate=True),
    ]
    vtwins = [
        values.StrExactMatch("a", negate=True), values.StrGlobMatch("a", negate=True), values.StrGlobMatch("c", prefix=False, negate=True),
        values.StrRegex("b", negate=True), values.StrExactMatch("ab"), values.ContainmentMatch("b", negate=True),
        values.StrExactMatch("A", case_sensitive=False, negate=True), values.StrRegex("^.?$", match=True, negate=True),
        values.StrGlobMatch("AB", case_sensitive=False, negate=True), values.ContainmentMatch(("x", "c")),
    ]
    wp = World(1, "package", pk, pleaves + ptwins, mod)
    wp.twin = {i + 1: len(pleaves) + i + 1 for i in range(len(pleaves))}
    wp.base = len(pleaves)
    wp.atoms = atoms
    for a in atoms:  # register the component restrictions as leaves now: leaf ids stay stable for replays
        wp.proj(a)
    wv = World(2, "values", vals, vleaves + vtwins, mod)
    wv.twin = {i + 1: len(vleaves) + i + 1 for i in range(len(vleaves))}
    wv.base = len(vleaves)
    wv.atoms = []
    return wp, wv


def observe(world, t, obj, tid):
    got = [i + 1 for i, m in enumerate(world.members) if obj.match(m)]
    return dict(tid=tid, i=0, ev="tree", u=world.u, t=_strip(world, t), got=got, forms=_forms(world, obj))


def render_exported(world, t, n):
    """leaf ids 1..3 of an exported tree -> three distinct pool leaves chosen by the case number; a set negate
    flag -> the negated twin of that leaf.  Returns (tree over pool leaf ids, real object)."""
    base = world.base
    off = {1: 0, 2: 1 + n % 3, 3: 5}

    def remap(x):
        if x["k"] == "leaf":
            lid = (n + off[x["id"]]) % base + 1
            if x["neg"]:
                lid = world.twin[lid]
            return dict(k="leaf", neg=False, id=lid, ch=[])
        return dict(k=x["k"], neg=x["neg"], id=0, ch=[remap(c) for c in x["ch"]])

    t2 = remap(t)
    return t2, world.build(t2)


MAX_LEAF_OCCURRENCES = 8  # normal forms are exponential in the worst case: keep the expansions small


def _random_tree(world, r_, depth):
    if depth == 0 or r_.random() < 0.25:
        if world.atoms and r_.random() < 0.12:
            return dict(k="atom", neg=False, id=0, ch=[], a=r_.randrange(len(world.atoms)))
        return dict(k="leaf", neg=False, id=r_.randint(1, len(world.twin) * 2), ch=[])
    x = r_.random()
    if x < 0.15:
        return dict(k="not", neg=False, id=0, ch=[_random_tree(world, r_, depth - 1)])
    kind = r_.choice(["and", "or", "and", "or", "one", "amo"])
    n = r_.choice([1, 2, 2, 2, 3])
    return dict(k=kind, neg=r_.random() < 0.3, id=0, ch=[_random_tree(world, r_, depth - 1) for _ in range(n)])


def _occurrences(world, t):
    if t["k"] == "atom":
        return len(world.atoms[t["a"]].restrictions)
    if t["k"] == "leaf":
        return 1
    return sum(_occurrences(world, c) for c in t["ch"])


def random_tree(world, r_, depth):
    while True:
        t = _random_tree(world, r_, depth)
        if t["k"] != "leaf" and _occurrences(world, t) <= MAX_LEAF_OCCURRENCES:
            return t


def mc_cfg(nleaves, depth, rich, fulldepth):
    return (f"SPECIFICATION Spec\nCONSTANTS\n NLeaves = {nleaves}\n MaxDepth = {depth}\n RichSiblings = {rich}\n FullDepth = {fulldepth}\n"
            "INVARIANT InvWellFormed\nINVARIANT InvDNF\nINVARIANT InvCNF\nINVARIANT InvFull\nINVARIANT InvNegFlag\nINVARIANT InvCounting\n")


def run(ck):
    use_repo()
    ck.rule = ("restriction trees (all-of / any-of / exactly-one-of / at-most-one-of, negate flags, Negate wrappers, atoms) "
               "built from real pkgcore classes in package and value flavour; enumerated by TLC (BoolTree_Export) and by a "
               "seeded random generator (depth <= 4); non-trivial = distinct (flavour, tree) with at least one boolean node "
               "whose normal forms were produced (not refused) at least once")
    ck.assumptions = [
        "leaf restrictions are judged elsewhere: their truth on every member of the universe is observed, not specified",
        "every group has at least one child (empty groups are outside the property)",
        "NotImplementedError from cnf_solutions on negated nodes is the documented refusal",
    ]
    wp, wv = make_worlds()
    worlds = {1: wp, 2: wv}
    import collections

    wp.live, wv.live = collections.deque(maxlen=3), collections.deque(maxlen=3)
    events = []
    meta = []  # per event: replay info

    def hold(world, t, obj):
        """keep a DNF derivation of this tree in flight (one solution taken) while later trees are examined:
        derivations must not influence each other"""
        if isinstance(obj, world.mod["boolean"].base):
            it = obj.iter_dnf_solutions()
            try:
                next(it, None)
            except Exception:
                return
            world.live.append((t, it))

    def add(world, t, obj, origin):
        inflight = [x[0] for x in world.live]
        ev = observe(world, t, obj, len(events))
        events.append(ev)
        meta.append(dict(flavour=world.flavour, tree=ev["t"], build=t, origin=origin, inflight=inflight))
        hold(world, t, obj)
        ck.count()
        if ev["t"]["k"] != "leaf" and any(f["st"] == "ok" for f in ev["forms"]):
            ck.nontriv((world.flavour, repr(ev["t"])))
        return ev

    if ck.replay_case:
        d = ck.replay_case["detail"]
        world = wp if d["flavour"] == "package" else wv
        for t0 in d.get("inflight", []):
            hold(world, t0, world.build(t0))
        add(world, d["build"], world.build(d["build"]), d.get("origin", "replay"))
        ck.nontriv("replay2")
    else:
        # 1. design
        ck.laws("BoolTree_Laws", label="Laws:BoolTree_Laws", timeout=300)
        if ck.quick:
            ck.mc("BoolTree_MC", cfg_text=mc_cfg(3, 2, '"basic"', 2), workers=4, timeout=300, label="MC:BoolTree_MC depth2 basic siblings")
        else:
            ck.mc("BoolTree_MC", cfg_text=mc_cfg(3, 2, '"rich"', 2), workers=4, timeout=840, label="MC:BoolTree_MC depth2 rich siblings")
        # 2. spec -> code
        n = 0
        for nleaves, wide, both in ((3, "FALSE", False),) if ck.quick else ((3, "FALSE", True), (2, "TRUE", False)):
            cases = ck.export("BoolTree_Export", cfg_text=f"CONSTANTS\n NLeaves = {nleaves}\n Wide = {wide}\n", timeout=600,
                              label=f"Export:BoolTree_Export NLeaves={nleaves} Wide={wide}")
            ck.extra[f"exported_trees_{nleaves}_{wide}"] = len(cases)
            cases.sort(key=lambda c: repr(c))
            for case in cases:
                n += 1
                for world in ((wp, wv) if both else ((wp,) if n % 2 == 0 else (wv,))):
                    t2, obj = render_exported(world, case["t"], n)
                    add(world, t2, obj, "export")
        ck.exhaustive = True
        ck.sample(dict(direction="spec->code", event=events[len(events) // 2]))
        # 3. code -> spec
        r_ = rng(6)
        for _ in range(ck.pick(1500, 12000)):
            world = wp if r_.random() < 0.6 else wv
            t = random_tree(world, r_, r_.randint(1, 4))
            add(world, t, world.build(t), "random")
        ck.sample(dict(direction="code->spec", event=events[-1]))

    header = dict(tid=-1, i=0, ev="universes", us=[dict(pk=wp.truth_table()), dict(pk=wv.truth_table())])
    verdicts = []
    chunk = 20000
    for lo in range(0, len(events), chunk):
        part = events[lo:lo + chunk]
        verdicts += ck.trace("BoolTree_Trace", [header] + part, cfg_text=f"SPECIFICATION TraceSpec\nCONSTANT ExhLeaves = {EXH}\n",
                             timeout=ck.pick(200, 1500), label=f"Trace:BoolTree_Trace[{lo}:{lo + len(part)}]", heap="3g")
    refused = sum(1 for e in events for f in e["forms"] if f["st"] == "refused")
    ck.extra["refused_normal_forms"] = refused
    ck.extra["trees_exhaustive_tables"] = sum(1 for e in events if len(_count_leaves(e["t"], set())) <= EXH)
    for v in verdicts:
        if v["clause"] in ("OutsideDomain", "UnknownEvent"):
            raise tlc.MachineryError(f"generator left the property's domain: {events[v['tid']]}")
        e, m = events[v["tid"]], meta[v["tid"]]
        form = v["clause"].split("_")[0]
        f = next((x for x in e["forms"] if x["name"] == form), None)
        world = worlds[e["u"]]
        detail = dict(flavour=m["flavour"], tree=m["tree"], build=m["build"], inflight=m["inflight"], root=m["tree"]["k"], root_negated=m["tree"]["neg"],
                      shape=shape(m["tree"]), origin=m["origin"],
                      leaves={str(i): str(world.leaf_objs[i - 1]) for i in sorted(_count_leaves(m["tree"], set()))})
        if f is not None:
            detail["clauses"] = f["cl"]
            detail["exc"] = f.get("exc", "")
        else:
            detail["got"] = e["got"]
        ck.violation(v["clause"], detail)


def shape(t):
    """compact text of a tree, e.g. !or(1,and(2,3)) — for findings signatures and reading replays"""
    if t["k"] == "leaf":
        return str(t["id"])
    if t["k"] == "not":
        return f"not({shape(t['ch'][0])})"
    return ("!" if t["neg"] else "") + t["k"] + "(" + ",".join(shape(c) for c in t["ch"]) + ")"
