"""G02 (growth) - BuildPhases: the phase state machine of build / install / uninstall / replace operations.

Bound code: operations/format.py (stage_depends of build / install / uninstall / replace, build_operations),
operations/__init__.py (base: _setup_api, supports, enabled operations, exception recasting, run_if_supported),
ebuild/ebd.py (ebd.start / cleanup / _generic_phase / __stage_step_callback__ / _reload_state, buildable,
install_op, uninstall_op, replace_op, binpkg_localize, run_generic_phase, src_operations, built_operations),
scripts/pebuild.py main() (the resume protocol: new object, optional forced clean, _reload_state, phases).

MC          : BuildPhases_MC - every history of up to MaxOps public operations (stage calls with every single
              injected failure, --no-auto calls, cleanup, reload, resume in a new process, clean=True rebuild,
              finish) over 9 configurations; invariants PrefixOfPMS, AtMostOnce, DepClosedMem/Disk,
              StampsNeedDir, MemOnDisk, CleanNeededOnceStarted, CleanStartLeavesNoStale, HandlingLaws; action
              properties NoRerun, OrderInCall, FailureStops, SuccessCompletes, RunsExactlyMissing,
              FetchBeforeUnpack, DoneMonotone, CleanupEffective, ResumeExact.  Vacuity guards: AllowDirty = TRUE
              must refute AtMostOnce, StampFailed = TRUE and StopOnFailure = FALSE must refute PrefixOfPMS.
spec -> code: BuildPhases_Sim (TLC -simulate) chooses a configuration and a history; it is executed on the REAL
              operation objects (obtained through the real operations API where there is one) over a real build
              directory, with the ebuild processor replaced by a scripted one (request/release patched in
              pkgcore.ebuild.ebd, so the real run_generic_phase runs).  BuildPhases_Export enumerates every
              operations class with up to two API methods; each is built with type() and interrogated.
code -> spec: seeded random histories over random configurations (EAPI 0-8, defined phases, FEATURES, RESTRICT,
              USE=test, prefetched or not; pebuild sessions driven through the real scripts/pebuild.py main();
              pmerge-like clean rebuilds), the API of the real src_operations / built_operations classes, and
              (when bash is usable) sessions with the REAL ebuild daemon running a real ebuild.
All executions log, per public operation, the processor interactions, observer notifications, the exception
class and the projected state (recorded stages, stamps on disk, build dir, clean_needed, saved environment,
verified distfiles, eapply_user marker) and are judged by BuildPhases_Trace.

Domain carve-outs (generator preconditions, CallInDomain): stage methods are not called on an object whose
build directory was removed after it recorded start(); ignore_deps calls need an existing build directory;
`pebuild --no-auto ... setup` is not generated (main() inserts a pseudo phase "fetch" the build object does
not have).  Modelled deviations: see the header of specs/BuildPhases.tla.
"""
import contextlib
import io
import os
import re
import shutil
import types

from pylib import tlc
from pylib.common import mktmp, rng, seed, use_repo

INV = ["TypeOK", "PrefixOfPMS", "AtMostOnce", "DepClosedMem", "DepClosedDisk", "StampsNeedDir", "MemOnDisk",
       "CleanNeededOnceStarted", "CleanStartLeavesNoStale", "HandlingLaws"]
PROP = ["NoRerun", "OrderInCall", "FailureStops", "SuccessCompletes", "RunsExactlyMissing", "FetchBeforeUnpack",
        "DoneMonotone", "CleanupEffective", "ResumeExact"]
GUARDS = [  # (changed constants, what TLC must refute)
    (dict(AllowDirty="TRUE"), "AtMostOnce"),
    (dict(StampFailed="TRUE"), "PrefixOfPMS"),
    (dict(StopOnFailure="FALSE"), "PrefixOfPMS"),
]
CONST_EXPORT = "CONSTANTS\n  StopOnFailure = TRUE\n  StampFailed = FALSE\n"

CHAIN = {  # rendering only: which attribute names exist on which kind of object
    "build": ["start", "setup", "unpack", "prepare", "configure", "compile", "test", "install", "finalize"],
    "install": ["start", "preinst", "postinst", "finalize"],
    "uninstall": ["start", "prerm", "postrm", "finalize"],
    "replace": ["start", "preinst", "prerm", "postrm", "postinst", "finalize"],
    "localize": ["start", "setup", "finalize"],
}
PHASES = ["setup", "unpack", "prepare", "configure", "compile", "test", "install", "preinst", "postinst", "prerm", "postrm"]
OUTCOMES = ["ok", "ok_nomark", "false", "die", "ipc", "ipcint", "crash", "runtime", "intr"]
ALL_OK = dict({p: "ok" for p in PHASES}, fetch="ok")


def mc_cfg(maxops, ids, inv=INV, prop=PROP, **consts):
    c = dict(StopOnFailure="TRUE", StampFailed="FALSE", AllowDirty="FALSE")
    c.update(consts)
    return ("SPECIFICATION Spec\nCONSTANTS\n" + "".join(f"  {k} = {v}\n" for k, v in c.items())
            + f"  MaxOps = {maxops}\n  CfgIds = {{{', '.join(map(str, ids))}}}\n"
            + "".join(f"INVARIANT {i}\n" for i in inv) + "".join(f"PROPERTY {p}\n" for p in prop))


def sim_cfg(d):
    return ("SPECIFICATION SimSpec\nCONSTANTS\n  StopOnFailure = TRUE\n  StampFailed = FALSE\n  AllowDirty = TRUE\n"
            f"  MaxOps = {d + 1}\n  CfgIds = {{1, 2, 3, 4, 5, 6, 7, 8, 9}}\n  D = {d}\n"
            "INVARIANT Emit\nINVARIANT TypeOK\nINVARIANT StampsNeedDir\n")


# ------------------------------------------------------------------------------------------------
class _Cause(Exception):
    """the bug behind an IpcInternalError"""


class _Crash(Exception):
    """an arbitrary exception escaping a command handler"""


class Observer:
    def __init__(self, world):
        self.world = world

    def phase_start(self, phase):
        pass

    def phase_end(self, phase, status):
        self.world.notes.append(dict(st=str(phase), ok=bool(status)))

    def info(self, *a, **k):
        pass

    warn = error = debug = write = info

    def flush(self):
        pass


class FakeProcessor:
    """Stands for an EbuildProcessor: run_phase ends the way the scenario says."""

    def __init__(self, world, entry):
        self.world, self.entry = world, entry

    def run_phase(self, phase, env, tmpdir=None, logging=None, additional_commands=None, sandbox=True):
        w, e = self.world, self.entry
        e["ph"] = str(phase)
        rv, rb = env.get("REPLACING_VERSIONS"), env.get("REPLACED_BY_VERSION")
        if rv is not None and rb is not None:
            e["repl"] = "both"
        elif rv is not None:
            e["repl"] = "replacing" if rv == w.old_pvr else "replacing:" + rv
        elif rb is not None:
            e["repl"] = "replaced_by" if rb == w.new_pvr else "replaced_by:" + rb
        out = w.script.get(e["ph"], "ok")
        if out in ("ok", "ok_nomark"):
            if e["ph"] != "postrm":  # the daemon saves the environment after a completed phase
                with open(os.path.join(env["T"], "environment"), "w") as f:
                    f.write(f"environment saved after {e['ph']}\n")
            if out == "ok" and e["ph"] == "prepare":  # the ebuild called eapply_user
                with open(os.path.join(env["T"], ".user_patches_applied"), "w"):
                    pass
            return True
        if out == "false":
            return False
        if out == "die":
            raise w.ProcessorError("the ebuild died")
        if out == "ipc":
            raise w.ebd_ipc.IpcCommandError("bad arguments", name="doins")
        if out == "ipcint":
            try:
                raise _Cause("bug in a helper")
            except _Cause as c:
                raise w.ebd_ipc.IpcInternalError("internal failure") from c
        if out == "crash":
            raise _Crash("handler blew up")
        if out == "runtime":
            raise RuntimeError("recursion")
        if out == "intr":
            raise KeyboardInterrupt()
        raise tlc.MachineryError(f"unknown outcome {out}")

    def write(self, data, *a, **k):
        self.entry["wrote"] = True

    def shutdown_processor(self, force=False, **k):
        self.entry["shut"] = "force" if force else "normal"


class FetchOps:
    """What domain.get_pkg_operations(pkg).fetch() is to buildable._setup_distfiles."""

    def __init__(self, world):
        self.world = world
        self.verified_files = None

    def fetch(self, *a, **k):
        w = self.world
        w.ran.append(dict(ph="fetch", up=False, sb=False, repl="none", shut="no", rel=False, wrote=False))
        if w.script.get("fetch", "ok") != "ok":
            raise w.fmt.FetchError(["distfile"])
        self.verified_files = w.verified()
        return True


class World:
    """One build directory tree (a tid) with the fake domain / packages and the object under test."""

    _n = [0]

    def __init__(self, cfg):
        from pkgcore.ebuild import ebd as ebd_mod, ebd_ipc, ebuild_src
        from pkgcore.ebuild.eapi import get_eapi
        from pkgcore.ebuild.processor import ProcessorError
        from pkgcore.operations import format as fmt
        from snakeoil import data_source

        self.ebd_mod, self.ebd_ipc, self.fmt, self.ProcessorError = ebd_mod, ebd_ipc, fmt, ProcessorError
        self.cfg = cfg
        World._n[0] += 1
        self.root = os.path.join(mktmp("g02"), f"w{World._n[0]}")
        os.makedirs(os.path.join(self.root, "dist"))
        os.makedirs(os.path.join(self.root, "repo", "cat", "pn"))
        with open(os.path.join(self.root, "dist", "pn-2.tar"), "w") as f:
            f.write("distfile")
        self.ran, self.notes, self.script = [], [], dict(ALL_OK)
        self.obj = None
        self.fetch_ops = None
        self.old_pvr, self.new_pvr = "1-r1", "2"
        self.real = False  # True: the real ebuild daemon runs a real ebuild (see use_real_daemon)
        self.bash = []
        eapi = get_eapi(str(cfg["eapi"]))
        world = self

        class Dom:
            profile = types.SimpleNamespace(use_expand=())
            use_expand_re = re.compile(r"^(?:no_such_expand)_(.*)$")
            features = tuple(cfg["features"])
            root = "/"
            prefix = ""
            tmpdir = self.root
            pm_tmpdir = os.path.join(self.root, "portage")
            distdir = os.path.join(self.root, "dist")
            settings = {"PATH": "/usr/bin:/bin"}
            KV = "6.0.0"

            def get_package_bashrcs(s, pkg):
                return ()

            def get_pkg_operations(s, pkg, observer=None):
                world.fetch_ops = FetchOps(world)
                return world.fetch_ops

        class Pkg:
            mandatory_phases = ebuild_src.base.mandatory_phases  # the real derivation (defined + EAPI defaults)
            built = False
            _is_from_source = True

            def __init__(s, ver, rev):
                s.eapi = eapi
                s.defined_phases = frozenset(cfg["defined"])
                s.use = frozenset(["test"] if cfg["useTest"] else [])
                s.iuse = frozenset()
                s.iuse_effective = frozenset(["test"])
                s.restrict = tuple(cfg["restrict"])
                pvr = ver + (f"-{rev}" if rev else "")
                s.category, s.package, s.PN, s.PV, s.PR, s.PVR = "cat", "pn", "pn", ver, rev or "r0", pvr
                s.P, s.PF, s.cpvstr, s.fullslot = f"pn-{ver}", f"pn-{pvr}", f"cat/pn-{pvr}", "0"
                s.source_repository = "repo"
                s.data = {}
                s.chost = s.cbuild = s.ctarget = None
                s.ebuild = types.SimpleNamespace(path=os.path.join(world.root, "repo", "cat", "pn", f"pn-{pvr}.ebuild"))
                s.distfiles = ("pn-2.tar",)
                s.repo = types.SimpleNamespace(location=os.path.join(world.root, "repo"), repo_id="repo")
                s.environment = data_source.bytes_data_source(world.saved_env(pvr))
                s._raw_pkg = types.SimpleNamespace(tracked_attributes=(), distfiles=s.distfiles, repo=s.repo)  # buildable.finalize -> fake_package_factory
                s._domain = world.domain
                s.user_patches = ()

            def __repr__(s):
                return s.cpvstr

        self.domain = Dom()
        self.new_pkg = Pkg("2", "")
        self.old_pkg = Pkg("1", "r1")
        self.observer = Observer(self)
        self.eclass_cache = types.SimpleNamespace(eclassdir=os.path.join(self.root, "repo", "eclass"))

    @staticmethod
    def saved_env(pvr):
        return f"declare -x PVR=\"{pvr}\"\nsaved_environment_of_{pvr}=1\n".encode()

    def verified(self):
        return {os.path.join(self.root, "dist", "pn-2.tar"): types.SimpleNamespace(filename="pn-2.tar")}

    # ---- the seams ------------------------------------------------------------------------
    def _request(self, userpriv=False, sandbox=None, fd_pipes=None):
        entry = dict(ph="?", up=bool(userpriv), sb=bool(sandbox), repl="none", shut="no", rel=False, wrote=False)
        self.ran.append(entry)
        return FakeProcessor(self, entry)

    def _release(self, proc):
        proc.entry["rel"] = True
        return True

    # ---- real daemon: only observe ---------------------------------------------------------------
    EBUILD = """EAPI=8
DESCRIPTION="G02 phase recorder"
SLOT="0"
S="${WORKDIR}"
g02() { echo "$1" >> "${G02_ROOT}/phases.log"; [[ -e ${G02_ROOT}/die.$1 ]] && die "$1 was told to fail"; return 0; }
pkg_setup() { g02 setup; }
src_unpack() { g02 unpack; }
src_prepare() { g02 prepare; [[ -e ${G02_ROOT}/nomark ]] || eapply_user; }
src_configure() { g02 configure; }
src_compile() { g02 compile; }
src_test() { g02 test; }
src_install() { g02 install; }
"""

    def use_real_daemon(self):
        self.real = True
        with open(self.new_pkg.ebuild.path, "w") as f:
            f.write(self.EBUILD)
        self.domain.settings["G02_ROOT"] = self.root

    def _render_script(self):
        """real daemon: the scripted outcomes become flag files the ebuild looks at"""
        for x in os.listdir(self.root):
            if x.startswith("die.") or x == "nomark":
                os.unlink(os.path.join(self.root, x))
        for ph, out in self.script.items():
            if out == "die":
                open(os.path.join(self.root, "die." + ph), "w").close()
            elif out == "ok_nomark" and ph == "prepare":
                open(os.path.join(self.root, "nomark"), "w").close()
            elif out != "ok" and ph != "fetch":
                raise tlc.MachineryError(f"outcome {out} cannot be rendered for the real daemon")
        self._log_pos = self._log_size()

    def _log_size(self):
        try:
            return os.path.getsize(os.path.join(self.root, "phases.log"))
        except OSError:
            return 0

    def _bash_log(self):
        try:
            with open(os.path.join(self.root, "phases.log")) as f:
                f.seek(self._log_pos)
                return f.read().split()
        except OSError:
            return []

    @contextlib.contextmanager
    def observed(self):
        """Wrap (not replace) request / release and the processor's run_phase / shutdown_processor."""
        m = self.ebd_mod
        saved = (m.request_ebuild_processor, m.release_ebuild_processor)
        world = self

        def request(**kw):
            entry = dict(ph="?", up=bool(kw.get("userpriv")), sb=bool(kw.get("sandbox")), repl="none", shut="no", rel=False,
                         wrote=False)
            world.ran.append(entry)
            ebp = saved[0](**kw)
            run_phase, shutdown = ebp.run_phase, ebp.shutdown_processor

            def run_phase_(phase, env, *a, **k):
                entry["ph"] = str(phase)
                return run_phase(phase, env, *a, **k)

            def shutdown_(force=False, **k):
                if ebp._g02_entry is entry:
                    entry["shut"] = "force" if force else "normal"
                return shutdown(force=force, **k)

            ebp._g02_entry = entry
            ebp.run_phase, ebp.shutdown_processor = run_phase_, shutdown_
            return ebp

        def release(ebp):
            ebp._g02_entry["rel"] = True
            for name in ("run_phase", "shutdown_processor"):
                ebp.__dict__.pop(name, None)
            return saved[1](ebp)

        m.request_ebuild_processor, m.release_ebuild_processor = request, release
        self._render_script()
        try:
            with contextlib.redirect_stdout(io.StringIO()):
                yield
        finally:
            m.request_ebuild_processor, m.release_ebuild_processor = saved
            self.bash = self._bash_log()

    @contextlib.contextmanager
    def patched(self):
        if self.real:
            with self.observed():
                yield
            return
        m = self.ebd_mod
        saved = (m.request_ebuild_processor, m.release_ebuild_processor, m.is_userpriv_capable, m.is_sandbox_capable)
        m.request_ebuild_processor, m.release_ebuild_processor = self._request, self._release
        m.is_userpriv_capable = m.is_sandbox_capable = lambda: True
        try:
            with contextlib.redirect_stdout(io.StringIO()):
                yield
        finally:
            (m.request_ebuild_processor, m.release_ebuild_processor, m.is_userpriv_capable, m.is_sandbox_capable) = saved

    # ---- construction (through the real operations API where there is one) ------------------
    def new_object(self, cas, force_test=None):
        kind, m = self.cfg["kind"], self.ebd_mod
        ft = self.cfg["forceTest"] if force_test is None else force_test
        if kind == "build":
            ops = m.src_operations(self.domain, self.new_pkg, self.eclass_cache, observer=self.observer)
            if self.cfg["prefetched"]:
                ops.verified_files = self.verified()  # what a successful ops.fetch() leaves behind
            self.obj = ops.build(observer=self.observer, clean=cas, force_test=ft)
        elif kind == "install":
            self.obj = m.install_op(self.domain, self.new_pkg, self.observer)
        elif kind == "uninstall":
            self.obj = m.uninstall_op(self.domain, self.old_pkg, self.observer)
        elif kind == "replace":
            self.obj = m.replace_op(self.domain, self.old_pkg, self.new_pkg, self.observer)
        elif kind == "localize":
            self.obj = m.binpkg_localize(self.domain, self.new_pkg, clean=False, initial_env=self.domain.settings,
                                         env_data_source=self.new_pkg.environment, observer=self.observer)
        else:
            raise tlc.MachineryError(f"kind {kind}")
        return self.obj

    # ---- projection -------------------------------------------------------------------------
    BLANK = dict(done=[], dir=False, stamps=[], cn=False, env="absent", cas=False, vf=False, mark=False)

    def leaf(self, o, pvr):
        bd = o.builddir
        t = o.env["T"]
        stamps, env = [], "absent"
        if os.path.isdir(bd):
            stamps = sorted(x[1:] for x in os.listdir(bd) if x.startswith(".") and os.path.isfile(os.path.join(bd, x)))
        ep = os.path.join(t, "environment")
        if os.path.exists(ep):
            with open(ep, "rb") as f:
                env = "pkg" if f.read() == self.saved_env(pvr) else "other"
        return dict(done=sorted(getattr(o, "_stage_state", ())), dir=os.path.isdir(bd), stamps=stamps,
                    cn=bool(o.clean_needed), env=env, cas=bool(o.clean_at_start),
                    vf=bool(getattr(o, "verified_files", True)), mark=os.path.exists(os.path.join(t, ".user_patches_applied")))

    def project(self):
        o = self.obj
        if self.cfg["kind"] == "replace":
            return dict(top=sorted(getattr(o, "_stage_state", ())), a=self.leaf(o.install_op, self.new_pvr),
                        b=self.leaf(o.uninstall_op, self.old_pvr))
        pvr = self.old_pvr if self.cfg["kind"] == "uninstall" else self.new_pvr
        return dict(top=[], a=self.leaf(o, pvr), b=dict(self.BLANK))

    # ---- one public operation -> one event ----------------------------------------------------
    def apply(self, a):
        """a: {op, stage, ignore, force, quiet, cas, script}; returns the observation part of an event."""
        self.ran, self.notes, self.bash = [], [], []
        self.script = dict(a["script"])
        ret, exc = None, ""
        op = a["op"]
        with self.patched():
            try:
                if op == "new":
                    self.new_object(a["cas"], a.get("force_test"))
                    ret = True
                elif op == "resume":
                    self.new_object(False, a.get("force_test"))._reload_state()
                    ret = True
                elif op == "call":
                    f = getattr(self.obj, a["stage"])
                    ret = f(ignore_deps=True) if a["ignore"] else f()
                elif op == "cleanup":
                    ret = self.obj.cleanup(force=a["force"], disable_observer=a["quiet"])
                elif op == "reload":
                    self.obj._reload_state()
                    ret = True
                elif op == "finish":
                    ret = self.obj.finish()
                else:
                    raise tlc.MachineryError(f"op {op}")
            except tlc.MachineryError:
                raise
            except BaseException as e:  # noqa: BLE001 - KeyboardInterrupt is one of the scripted outcomes
                exc = self.exc_name(e)
                self.last_exception = e
                if op in ("new", "resume") and self.obj is None:
                    raise tlc.MachineryError(f"cannot construct the {self.cfg['kind']} object: {e!r}") from e
        return dict(ran=[dict(x) for x in self.ran], notes=list(self.notes), exc=exc, ret=bool(ret) and not exc,
                    real=self.real, bash=list(self.bash), st=self.project())

    def exc_name(self, e):
        """projection into the vocabulary of the specification (subclasses count as their documented base)"""
        for cls, name in ((_Cause, "Cause"), (self.ProcessorError, "ProcessorError"), (self.fmt.FetchError, "FetchError"),
                          (self.fmt.GenericBuildError, "GenericBuildError"), (KeyboardInterrupt, "KeyboardInterrupt"),
                          (RuntimeError, "RuntimeError")):
            if isinstance(e, cls):
                return name
        return type(e).__name__

    def destroy(self):
        shutil.rmtree(self.root, ignore_errors=True)


def full(a):
    out = dict(op=a["op"], stage="-", ignore=False, force=False, quiet=False, cas=False, script=dict(ALL_OK))
    out.update(a)
    return out


def jcfg(cfg):
    return dict(kind=cfg["kind"], eapi=int(cfg["eapi"]), defined=sorted(cfg["defined"]), features=sorted(cfg["features"]),
                restrict=sorted(cfg["restrict"]), useTest=bool(cfg["useTest"]), forceTest=bool(cfg["forceTest"]),
                prefetched=bool(cfg["prefetched"]))


class History:
    """Executes driver-level inputs (single operations or whole pebuild sessions) of one tid."""

    def __init__(self, tid, cfg, events, real=False):
        self.tid, self.cfg, self.events = tid, jcfg(cfg), events
        self.cfg0 = dict(self.cfg)
        self.world = World(self.cfg)
        self.real = real
        if real:
            self.world.use_real_daemon()
        self.i = 0
        self.inputs = []
        self.k_of = {}
        self.last_st = None

    def _emit(self, a, obs, cfg=None):
        self.i += 1
        ev = dict(tid=self.tid, i=self.i, cfg=cfg or self.cfg)
        ev.update({k: a[k] for k in ("op", "stage", "ignore", "force", "quiet", "cas", "script")})
        ev.update(obs)
        self.events.append(ev)
        self.k_of[self.i] = len(self.inputs) - 1
        self.last_st = obs["st"]
        return ev

    def op(self, a):
        a = full(a)
        self.inputs.append({k: a[k] for k in ("op", "stage", "ignore", "force", "quiet", "cas", "script")})
        return self._emit(a, self.world.apply(a))

    def pebuild(self, phases, noauto, script):
        """One `pebuild <pkg> <phases...>` process: the REAL main() drives a recording stand-in of build_pkg."""
        from pkgcore.scripts import pebuild

        self.inputs.append(dict(op="pebuild", phases=list(phases), noauto=bool(noauto), script=dict(script)))
        h, w = self, self.world
        ops, built = [], {}
        session_cfg = dict(self.cfg)

        class Recorder:
            def __init__(s, kw):
                built.update(clean=bool(kw.get("clean", True)), force_test=bool(kw.get("force_test", False)),
                             failed=bool(kw.get("failed", False)))
                session_cfg["forceTest"] = built["force_test"]
                s._do(dict(op="new", cas=built["clean"], force_test=built["force_test"]))

            def _do(s, a):
                a = full(dict(a, script=script))
                obs = w.apply(a)
                h._emit(a, obs, cfg=dict(session_cfg))
                ops.append(dict(op=a["op"], stage=a["stage"], ignore=a["ignore"], force=a["force"], raised=bool(obs["exc"])))
                if obs["exc"]:
                    raise w.last_exception
                return True

            def cleanup(s, force=False, **kw):
                return s._do(dict(op="cleanup", force=bool(force)))

            def _reload_state(s):
                return s._do(dict(op="reload"))

            def __getattr__(s, name):
                if name.startswith("_") or name not in CHAIN["build"]:
                    raise AttributeError(name)
                return lambda **kw: s._do(dict(op="call", stage=name, ignore=bool(kw.get("ignore_deps", False))))

        options = types.SimpleNamespace(
            target=[("cat/pn", None)], domain=types.SimpleNamespace(build_pkg=lambda pkg, **kw: Recorder(kw)),
            repo=types.SimpleNamespace(match=lambda restriction, **kw: [w.new_pkg]), debug=False, no_auto=bool(noauto),
            phase=list(phases), verbosity=0)
        out = types.SimpleNamespace(write=lambda *a, **k: None, flush=lambda: None)
        ended = ""
        try:
            pebuild.main(options, out, out)
        except tlc.MachineryError:
            raise
        except BaseException as e:  # noqa: BLE001
            ended = type(e).__name__
        self.cfg = dict(session_cfg)  # force_test belongs to the object main() built
        self.world.cfg = self.cfg
        self.i += 1
        self.k_of[self.i] = len(self.inputs) - 1
        self.events.append(dict(tid=self.tid, i=self.i, op="pebuild_end", real=self.real, phases=list(phases), noauto=bool(noauto),
                                ops=ops[1:], first=ops[0]["op"] if ops else "-", built=built or dict(clean=True, force_test=False, failed=False),
                                ended=ended))

    def run_input(self, x):
        if x["op"] == "pebuild":
            self.pebuild(x["phases"], x["noauto"], x["script"])
        else:
            self.op(x)

    def close(self):
        self.world.destroy()


# ------------------------------------------------------------------------------------------------ generators
def random_cfg(r_, kind=None):
    kind = kind or r_.choice(["build"] * 5 + ["install", "uninstall", "replace", "replace", "localize"])
    own = {"build": ["setup", "unpack", "prepare", "configure", "compile", "test", "install"], "install": ["preinst", "postinst"],
           "uninstall": ["prerm", "postrm"], "replace": ["preinst", "postinst", "prerm", "postrm"], "localize": ["setup"]}[kind]
    defined = [p for p in own if r_.random() < 0.6]
    feats = [f for f, pr in (("test", .6), ("test-fail-continue", .3), ("userpriv", .5), ("sandbox", .5), ("selinux", .15),
                             ("suidctl", .1)) if r_.random() < pr]
    restrict = [f for f, pr in (("test", .15), ("userpriv", .2), ("sandbox", .2)) if r_.random() < pr]
    return dict(kind=kind, eapi=r_.randint(0, 8), defined=defined, features=feats, restrict=restrict,
                useTest=r_.random() < 0.7, forceTest=r_.random() < 0.2,
                prefetched=(r_.random() < 0.5) if kind == "build" else (kind != "localize"))


def random_script(r_, p_fail=0.12):
    s = {p: ("ok" if r_.random() > p_fail else r_.choice(OUTCOMES[1:])) for p in PHASES}
    s["fetch"] = "ok" if r_.random() > 0.1 else "fail"
    return s


def in_domain(kind, st, stage, ignore):
    """generator precondition (BuildPhases!CallInDomain, from the last projected state)"""
    if kind == "replace":
        return not ignore
    a = st["a"]
    return a["dir"] if ignore else (a["dir"] or "start" not in a["done"])


def random_history(h, r_, nops):
    kind = h.cfg["kind"]
    h.op(dict(op="new", cas=(kind == "build" and r_.random() < 0.3)))
    stages = CHAIN[kind]
    while len(h.inputs) < nops:
        x = r_.random()
        st = h.last_st
        if kind == "build" and x < 0.22:
            k = r_.randint(1, 4)
            phases = [r_.choice(stages[1:]) for _ in range(k)]
            if r_.random() < 0.3:
                phases.insert(r_.randint(0, len(phases)), "clean")
            noauto = r_.random() < 0.15 and "setup" not in phases and st["a"]["dir"] and "clean" not in phases
            h.pebuild(phases, noauto, random_script(r_))
        elif kind == "build" and x < 0.30:
            h.op(dict(op="new", cas=r_.random() < 0.7))
        elif kind != "replace" and x < 0.36:
            h.op(dict(op="resume"))
        elif kind != "replace" and x < 0.46:
            h.op(dict(op="cleanup", force=r_.random() < 0.5, quiet=r_.random() < 0.3))
        elif kind != "replace" and x < 0.50:
            h.op(dict(op="reload"))
        elif kind == "uninstall" and x < 0.56:
            h.op(dict(op="finish"))
        elif kind == "replace" and x < 0.08:
            h.op(dict(op="new"))
        else:
            stage = r_.choice(stages + stages[-2:])
            ignore = kind != "replace" and r_.random() < 0.12
            if not in_domain(kind, st, stage, ignore):
                continue
            h.op(dict(op="call", stage=stage, ignore=ignore, script=random_script(r_)))


def sim_inputs(beh_hist):
    out = [dict(op="new", cas=False)]
    for a in beh_hist:
        s = dict(ALL_OK)
        if a["failAt"] != "-":
            s[a["failAt"]] = a["how"]
        out.append(dict(op=a["op"], stage=a["stage"], ignore=a["ignore"], force=a["force"], cas=a["cas"], script=s))
    return out


# ------------------------------------------------------------------------------------------------ real daemon
DAEMON_CFG = dict(kind="build", eapi=8, defined=["setup", "unpack", "prepare", "configure", "compile", "test", "install"],
                  features=["test"], restrict=[], useTest=True, forceTest=False, prefetched=True)


def _s(**bad):
    return dict(ALL_OK, **bad)


DAEMON_HISTORIES = [
    # a build that fails in src_compile, is retried on the same object, resumed by a new process, cleaned
    [dict(op="new"), dict(op="call", stage="compile", script=_s(compile="die")), dict(op="call", stage="install"),
     dict(op="resume"), dict(op="call", stage="finalize"), dict(op="cleanup", force=True)],
    # pebuild sessions: src_prepare without eapply_user, failing tests, clean + rebuild
    [dict(op="new"), dict(op="pebuild", phases=["setup", "unpack"], noauto=False, script=_s()),
     dict(op="pebuild", phases=["prepare"], noauto=False, script=_s(prepare="ok_nomark")),
     dict(op="pebuild", phases=["compile"], noauto=False, script=_s()),
     dict(op="pebuild", phases=["test", "install"], noauto=False, script=_s(test="die")),
     dict(op="pebuild", phases=["clean", "configure"], noauto=False, script=_s())],
    # pmerge: clean=True over what the last build left, everything in one call, then cleanup()
    [dict(op="new"), dict(op="call", stage="unpack"), dict(op="new", cas=True), dict(op="call", stage="finalize", script=_s(install="die")),
     dict(op="call", stage="finalize"), dict(op="cleanup")],
]


def stop_daemons():
    from pkgcore.ebuild import processor

    processor.shutdown_all_processors()


def daemon_histories(ck, base_tid, count):
    events, hs = [], {}
    try:
        for n, inputs in enumerate(DAEMON_HISTORIES[:count]):
            h = History(base_tid + n, DAEMON_CFG, events, real=True)
            hs[h.tid] = h
            try:
                for x in inputs:
                    h.run_input(dict(x))
            finally:
                h.close()
            ck.count()
            ck.nontriv(("daemon", n))
    finally:
        stop_daemons()
    bash = [p for e in events for p in e.get("bash", ())]
    if len(bash) < 5:
        raise tlc.MachineryError(f"the real ebuild daemon did not run the ebuild's phases ({bash})")
    ck.extra["real_daemon_phases_run"] = len(bash)
    return events, hs


# ------------------------------------------------------------------------------------------------ operations API
def api_case(case, n):
    """Build the operations class TLC described, interrogate it (rendering + projection only)."""
    from pkgcore import operations as ops_mod
    from pkgcore.exceptions import PkgcoreException

    class Other(Exception):
        pass

    class Plain(PkgcoreException):
        pass

    raised = {}

    def behave(kind):
        if kind == "none":
            return "value"
        e = {"operr": ops_mod.OperationError("inner"), "pkgcore": Plain("plain"), "other": Other("other")}[kind]
        raised["e"] = e
        raise e

    ns = {}
    for d in case["descs"]:
        nm = d["name"]
        if d["standalone"]:
            ns["_cmd_api_" + nm] = ops_mod.is_standalone(lambda self, raises="none", observer=None: behave(raises))
        else:
            ns["_cmd_api_" + nm] = (lambda nm_: lambda self, raises="none", observer=None:
                                    getattr(self, "_cmd_implementation_" + nm_)(raises))(nm)
        if d["impl"]:
            ns["_cmd_implementation_" + nm] = lambda self, raises="none": behave(raises)
        if d["check"] != "none":
            ns["_cmd_check_support_" + nm] = (lambda v: lambda self: v)(d["check"] == "yes")
    cls = type("ops_under_test", (ops_mod.base,), ns)
    obj = cls(disable_overrides=tuple(case["dis"]), enable_overrides=tuple(case["en"]))
    names = ["x", "y", "z"]
    calls = []
    for d in case["descs"]:
        if not (d["standalone"] or d["impl"]):
            continue  # an operation without any body cannot be called meaningfully
        for kind in ("none", "operr", "pkgcore", "other"):
            raised.clear()
            try:
                r = obj.run_if_supported(d["name"], raises=kind)
                seen = "unsupported" if r is ops_mod.base.UNSUPPORTED else ("returns" if r == "value" else "?")
            except BaseException as e:  # noqa: BLE001
                orig = raised.get("e")
                if e is orig:
                    seen = "same"
                elif isinstance(e, ops_mod.OperationError) and e.__cause__ is orig and str(e) == str(orig):
                    seen = "wrapped"
                else:
                    seen = "?" + type(e).__name__
            calls.append(dict(name=d["name"], raises=kind, seen=seen))
    return dict(tid=n, i=0, op="api", descs=case["descs"], en=case["en"], dis=case["dis"],
                enabled=sorted(obj.supports()), raw=sorted(obj.supports(raw=True)),
                attrs=[x for x in names if x in vars(obj)],
                sup=[dict(name=x, yes=bool(obj.supports(x)), rawyes=bool(obj.supports(x, raw=True))) for x in names], calls=calls)


def real_api_events(base_tid):
    """The operation sets of the real src_operations / built_operations classes, described by introspection."""
    from pkgcore.ebuild import ebd as ebd_mod

    events = []
    for n, (which, defined) in enumerate([("src", []), ("built", []), ("built", ["config"])]):
        w = World(jcfg(dict(kind="build", eapi=8, defined=defined, features=[], restrict=[], useTest=False, forceTest=False,
                            prefetched=True)))
        try:
            if which == "src":
                obj = ebd_mod.src_operations(w.domain, w.new_pkg, w.eclass_cache)
            else:
                obj = ebd_mod.built_operations(w.domain, w.new_pkg)
            descs = []
            for attr in sorted(dir(type(obj))):
                if not attr.startswith("_cmd_api_"):
                    continue
                nm = attr[len("_cmd_api_"):]
                chk = getattr(obj, "_cmd_check_support_" + nm, None)
                descs.append(dict(name=nm, standalone=bool(getattr(getattr(obj, attr), "_is_standalone", False)),
                                  impl=hasattr(obj, "_cmd_implementation_" + nm),
                                  check="none" if chk is None else ("yes" if chk() else "no")))
            names = [d["name"] for d in descs] + ["no_such_operation"]
            events.append(dict(tid=base_tid + n, i=0, op="api", descs=descs, en=[], dis=[], enabled=sorted(obj.supports()),
                               raw=sorted(obj.supports(raw=True)), attrs=[x for x in names if x in vars(obj)],
                               sup=[dict(name=x, yes=bool(obj.supports(x)), rawyes=bool(obj.supports(x, raw=True))) for x in names],
                               calls=[]))
        finally:
            w.destroy()
    return events


# ------------------------------------------------------------------------------------------------ judging
def judge(ck, events, histories, label, api_cases=None):
    if not events:
        return
    verdicts = ck.trace("BuildPhases_Trace", events, label=label, timeout=1500)
    by = {(e["tid"], e["i"]): e for e in events}
    judged_wrong = {v["tid"] for v in verdicts if v["clause"] != "OutsideDomain"}
    for v in verdicts:
        e = by[(v["tid"], v["i"])]
        if e["op"] == "api":
            ck.violation(v["clause"], dict(op="api", case=dict(descs=e["descs"], en=e["en"], dis=e["dis"]), observed=e))
            continue
        h = histories[v["tid"]]
        if v["clause"] == "OutsideDomain":
            if v["tid"] in judged_wrong:
                continue  # the code itself left the domain (e.g. main() of pebuild ordered its calls wrongly): reported there
            raise tlc.MachineryError(f"generator left the specification's domain: {e}")
        k = h.k_of[v["i"]]
        ck.violation(v["clause"], dict(op=e["op"], stage=e.get("stage", "-"), kind=h.cfg["kind"], cfg=h.cfg0, real=h.real,
                                       history=h.inputs[: k + 1], observed={x: e[x] for x in e if x not in ("cfg", "script")}))


def replay(ck, d):
    events, hs = [], {}
    if d.get("op") == "api":
        events.append(api_case(d["case"], 0))
    else:
        h = History(0, d["cfg"], events, real=bool(d.get("real")))
        hs[0] = h
        try:
            for x in d["history"]:
                h.run_input(x)
        finally:
            h.close()
            if h.real:
                stop_daemons()
    judge(ck, events, hs, "Trace:replay")
    ck.count()
    ck.sample(d.get("history", d.get("case")))
    ck.nontriv("replay")


def interesting(h):
    return any(x["op"] in ("pebuild", "resume", "cleanup") or (x["op"] == "new" and n > 0) or
               any(v != "ok" for v in x.get("script", {}).values()) for n, x in enumerate(h.inputs))


def run(ck):
    use_repo()
    if os.getuid() != 0:
        raise tlc.MachineryError("G02 assumes uid 0 (FEATURES=userpriv is only honoured for root)")
    ck.rule = ("histories of public operations (stage calls with scripted phase outcomes, ignore_deps calls, cleanup, "
               "_reload_state, new objects / resumed processes, whole pebuild sessions through scripts/pebuild.py main(), "
               "finish) on real buildable / install_op / uninstall_op / replace_op / binpkg_localize objects over a real "
               "build directory; chosen by TLC simulation of BuildPhases_Sim and by a seeded generator over random "
               "configurations; plus every operations class with <= 2 API methods (TLC export).  non-trivial = distinct "
               "history with a failing phase, a cleanup or a session boundary; distinct API class/override case")
    ck.assumptions = [
        "the ebuild processor is replaced by a scripted object at pkgcore.ebuild.ebd.request/release_ebuild_processor; "
        "is_userpriv_capable / is_sandbox_capable answer True; uid 0",
        "fake domain / package objects carry exactly the attributes ebd reads; mandatory_phases is the real property of ebuild_src.base",
        "stage methods are not called on an object whose build directory was removed after it recorded start()",
        "snakeoil.dependant_methods.ForcedDepends is part of the bound code (installed snakeoil)",
    ]
    if ck.replay_case:
        replay(ck, ck.replay_case["detail"])
        return
    # TLC jobs that do not depend on each other run side by side (the box is shared)
    from concurrent.futures import ThreadPoolExecutor

    maxops = ck.pick(3, 5)
    ids = list(range(1, 10))
    D = ck.pick(7, 10)
    nsim = ck.pick(150, 1500)
    with ThreadPoolExecutor(6) as ex:
        f_mc = ex.submit(tlc.run, "BuildPhases_MC", cfg_text=mc_cfg(maxops, ids), workers=ck.pick(4, 12),
                         timeout=ck.pick(900, 3000))
        f_guards = [ex.submit(tlc.run, "BuildPhases_MC", cfg_text=mc_cfg(3, [1], inv=[inv], prop=[], **consts), workers=1,
                              timeout=900) for consts, inv in GUARDS]
        f_sim = ex.submit(tlc.run, "BuildPhases_Sim", cfg_text=sim_cfg(D), simulate=f"num={nsim}", depth=D + 3,
                          seed=seed() + 2, workers=1, timeout=900)
        f_exp = ex.submit(tlc.export_cases, "BuildPhases_Export", cfg_text=CONST_EXPORT)
    # 1. the design
    res = f_mc.result()
    ck.add_mc(f"MC:BuildPhases_MC MaxOps={maxops}", res)
    if res.violated:
        raise tlc.MachineryError(f"BuildPhases_MC: the model violates {res.violated}\n{res.out[-3000:]}")
    ck.extra["mc_depth"] = res.depth
    for (consts, inv), f in zip(GUARDS, f_guards):
        r = f.result()
        ck.add_mc(f"MC:guard {consts}", r)
        if r.violated != inv:
            raise tlc.MachineryError(f"vacuity guard {consts}: expected TLC to refute {inv}, got {r.violated}\n{r.out[-1500:]}")
    ck.extra["vacuity_guards_refuted"] = [f"{c} -> {i}" for c, i in GUARDS]
    # 2. spec -> code: simulated histories
    sim = f_sim.result()
    ck.add_mc(f"Simulate:BuildPhases_Sim num={nsim} depth={D}", sim)
    behs = sim.tagged("BEH")
    if len(behs) < nsim // 2:
        raise tlc.MachineryError(f"simulation produced only {len(behs)} behaviours\n{sim.out[-2000:]}")
    events, hs = [], {}
    for tid, b in enumerate(behs):
        h = History(tid, b[1], events)
        hs[tid] = h
        try:
            for x in sim_inputs(b[2]):
                h.run_input(x)
        finally:
            h.close()
        ck.count()
        if interesting(h):
            ck.nontriv(("sim", repr(h.inputs)))
    ck.sample(dict(direction="spec->code", cfg=hs[0].cfg, history=[{k: v for k, v in x.items() if k != "script"} for x in hs[0].inputs]))
    judge(ck, events, hs, "Trace:sim-histories")
    # 3. spec -> code: operations API classes
    cases, r = f_exp.result()
    ck.add_mc("Export:BuildPhases_Export", r)
    ck.extra["api_classes_enumerated_completely"] = len(cases)
    events = [api_case(c, n) for n, c in enumerate(cases)]
    for n, c in enumerate(cases):
        ck.count()
        ck.nontriv(("api", n))
    events += real_api_events(len(cases))
    ck.sample(dict(direction="api", case=events[len(events) // 2]))
    judge(ck, events, {}, "Trace:operations-api")
    # 4. code -> spec: random histories
    r_ = rng(2)
    events, hs = [], {}
    for tid in range(ck.pick(160, 2500)):
        h = History(tid, random_cfg(r_), events)
        hs[tid] = h
        try:
            random_history(h, r_, r_.randint(4, ck.pick(10, 14)))
        finally:
            h.close()
        ck.count()
        if interesting(h):
            ck.nontriv(("rnd", repr(h.inputs)))
        if len(events) > 6000:
            judge(ck, events, hs, "Trace:random-histories")
            events, hs = [], {}
    if events:
        ck.sample(dict(direction="code->spec", cfg=h.cfg, history=[{k: v for k, v in x.items() if k != "script"} for x in h.inputs]))
        judge(ck, events, hs, "Trace:random-histories")
    # 5. code -> spec: the real ebuild daemon running a real ebuild
    events, hs = daemon_histories(ck, 0, ck.pick(1, 3))
    ck.sample(dict(direction="real daemon", bash=[e.get("bash") for e in events if e.get("bash")]))
    judge(ck, events, hs, "Trace:real-daemon")
