"""C23 — merge-time permission hardening never lets unsafe modes through (merge/triggers.py).

Spec        : PermHarden.tla — post-condition on every entry of new_cset after pre_merge:
              Safe (no entry set-id AND world writable), OwnerUid/OwnerGid (build user/group -> root, other
              owners kept), TypeKept / LocationKept / TargetKept / DataKept / EntriesKept (the fixes change
              nothing else), ModeFrame (only the set-id / other-write bits may be cleared, and only on an
              entry that needs it), WorldWritableFixed (engines configured with fix_perms).
MC          : PermHarden_MC — the four triggers transcribed from the code, run in EVERY order over every
              mode 0..4095 x owner classes x {plain, symlink, device}, with/without fix_perms: the final
              state always satisfies the post-condition (exhaustive).
spec -> code: PermHarden_Export enumerates kind x uid class x gid class x every mode 0..4095; each chunk
              becomes the contents of a fake package pushed through a REAL MergeEngine.install() with the
              default plugin triggers, pre_merge() executed on a scratch offset.
code -> spec: seeded random mixed content sets (all kinds, biased modes, nested paths, names with % { } format
              characters) through install and replace engines, with and without detect_world_writable(fix_perms=True).
Every run goes through the engine's real pre_merge hook order; the observer rotates over the engine default, a
null output and the two interpolating outputs (file_handle_output, formatter_output), and half of the runs also
carry the ebuild format's pre_merge triggers of a package with pkg_preinst (preinst_contents_reset rescans the
image - the rescanned set is what gets merged - and FixImageSymlinks), registered as ebuild_built does.
All observations (new_cset before / after pre_merge) are judged by PermHarden_Trace.

Carve-outs: the mode of a symlink is never applied by the merge (fs/ops.ensure_perms), so Safe does not
speak about symlinks; every entry carries mode/uid/gid (as every scanned package image does).
Environment: this image has no "portage" account (os_data.portage_uid == 0 would make the owner clause
vacuous), so the driver sets os_data.portage_uid/gid to a dedicated id BEFORE pkgcore.merge.triggers is
imported - exactly what the module would read on a Gentoo system.
"""
import os

from pylib import tlc
from pylib.common import mktmp, rng, use_repo

BUILD_UID, BUILD_GID = 250, 251
OTHER_UID, OTHER_GID = 1234, 4321
UID = {"root": 0, "build": BUILD_UID, "other": OTHER_UID}
GID = {"root": 0, "build": BUILD_GID, "other": OTHER_GID}
UCLS = {v: k for k, v in UID.items()}
GCLS = {v: k for k, v in GID.items()}
KINDS = ["file", "dir", "sym", "fifo", "dev"]


class World:
    def __init__(self):
        from pkgcore import os_data

        os_data.portage_uid, os_data.portage_gid = BUILD_UID, BUILD_GID
        import sys

        if "pkgcore.merge.triggers" in sys.modules:
            raise tlc.MachineryError("pkgcore.merge.triggers imported before the build account was configured")
        from snakeoil import data_source

        from pkgcore.fs import contents, fs
        from pkgcore.merge import engine, triggers

        if triggers.fix_uid_perms().bad_uid != BUILD_UID or triggers.fix_gid_perms().bad_gid != BUILD_GID:
            raise tlc.MachineryError("build account not picked up by the triggers")
        self.ds, self.contents, self.fs, self.engine, self.triggers = data_source, contents, fs, engine, triggers
        self.cls = {"file": fs.fsFile, "dir": fs.fsDir, "sym": fs.fsLink, "fifo": fs.fsFifo, "dev": fs.fsDev}
        self.n = 0

    def mk(self, e):
        kw = dict(mode=e["m"], uid=UID[e["u"]], gid=GID[e["g"]], mtime=1, strict=False)
        k = e["kind"]
        if k == "file":
            return self.fs.fsFile(e["loc"], data=self.ds.data_source(e["data"]), **kw)
        if k == "sym":
            return self.fs.fsLink(e["loc"], e["tgt"], **kw)
        if k == "dev":
            return self.fs.fsDev(e["loc"], major=1, minor=3, **kw)
        return self.cls[k](e["loc"], **kw)

    def kind_of(self, x):
        for k, c in self.cls.items():
            if isinstance(x, c):
                return k
        return "?"

    def project(self, cset, offset):
        out = []
        for x in cset:
            loc = x.location
            if loc.startswith(offset + "/"):
                loc = loc[len(offset):]  # same projection before and after: readable, replayable locations
            d = dict(loc=loc, kind=self.kind_of(x), m=x.mode if isinstance(x.mode, int) else -1,
                     u=UCLS.get(x.uid, f"#{x.uid}"), g=GCLS.get(x.gid, f"#{x.gid}"), tgt="-", data="-")
            if d["kind"] == "sym":
                d["tgt"] = x.target
            elif d["kind"] == "file":
                d["data"] = x.data.text_fileobj().read()
            out.append(d)
        out.sort(key=lambda d: d["loc"])
        return out

    def observer(self, kind):
        """default: the engine's own; explicit: null output; file / formatter: the interpolating outputs the
        command line tools use (messages go through `msg % args`)."""
        import io

        from snakeoil.formatters import PlainTextFormatter

        from pkgcore.operations import observer as obs

        if kind == "default":
            return None
        if kind == "explicit":
            return obs.repo_observer(obs.null_output())
        if kind == "file":
            return obs.repo_observer(obs.file_handle_output(io.StringIO()))
        if kind == "formatter":
            return obs.repo_observer(obs.formatter_output(PlainTextFormatter(io.BytesIO())))
        raise tlc.MachineryError(f"unknown observer kind {kind}")

    def run(self, entries, mode="install", fixww=False, observer="default", fmt=False):
        """Push `entries` through a real engine's pre_merge; returns (ins, outs, raised).
        fmt: also register the ebuild format's pre_merge triggers the way ebuild_built.generic_format_triggers
        does for a package with pkg_preinst (preinst_contents_reset rescans the image, FixImageSymlinks)."""
        o = self.observer(observer)
        self.n += 1
        base = mktmp(f"c23-{self.n}")
        offset, tmp = os.path.join(base, "root"), os.path.join(base, "tmp")
        os.makedirs(offset)
        os.makedirs(tmp)

        class Pkg:
            pass

        world = self

        class Parent:
            def scan_contents(self, location):
                # the image after pkg_preinst: the same entries, scanned afresh
                return world.contents.contentsSet(world.mk(e) for e in entries)

        class FormatOp:
            env = {"D": os.path.join(base, "image")}

        new = Pkg()
        new.contents = self.contents.contentsSet(self.mk(e) for e in entries)
        new._parent = Parent()
        if mode == "install":
            eng = self.engine.MergeEngine.install(tmp, new, offset=offset, observer=o)
        else:
            old = Pkg()
            old.contents = self.contents.contentsSet()
            eng = self.engine.MergeEngine.replace(tmp, old, new, offset=offset, observer=o)
        if fixww:
            self.triggers.detect_world_writable(fix_perms=True).register(eng)
        if fmt:
            from pkgcore.ebuild import triggers as et

            et.preinst_contents_reset(FormatOp()).register(eng)
            et.FixImageSymlinks(FormatOp()).register(eng)
        ins = self.project(eng.csets["new_cset"], offset)
        raised = ""
        try:
            eng.pre_merge()
        except Exception as e:  # judged: the stage must complete on every content set of the domain
            raised = type(e).__name__
        outs = self.project(eng.csets["new_cset"], offset)
        import shutil

        shutil.rmtree(base, ignore_errors=True)
        return ins, outs, raised


def random_entries(r_, n):
    names = ["usr", "bin", "lib", "x y", "etc", "s", "é", "100%", "%s", "%(a)s", "{}", "{0}", "%%", "a%d"]
    ents, seen = [], set()
    while len(ents) < n:
        loc = "/" + "/".join(r_.choice(names) for _ in range(r_.randint(1, 4)))
        if loc in seen:
            continue
        seen.add(loc)
        kind = r_.choice(KINDS)
        m = r_.randrange(4096)
        x = r_.random()
        if x < 0.35:
            m |= r_.choice([0o4000, 0o2000, 0o6000]) | 0o002
        elif x < 0.5:
            m |= 0o002
        elif x < 0.6:
            m &= ~0o6002
        if kind == "dev":
            m |= 0o20000
        ents.append(dict(loc=loc, kind=kind, m=m, u=r_.choice(list(UID)), g=r_.choice(list(GID)),
                         tgt=f"t{len(ents)}" if kind == "sym" else "-", data=f"d{len(ents)}" if kind == "file" else "-"))
    return ents


def run(ck):
    use_repo()
    ck.rule = ("one evaluation = one entry pushed through a real MergeEngine's pre_merge (default plugin triggers); "
               "the spec-exported space is kind x uid class x gid class x every mode 0..4095; non-trivial = distinct "
               "(kind, mode, uid class, gid class, fix_perms, engine mode) whose entry was actually altered by the stage")
    ck.assumptions = [
        "owners are abstracted to root / build account / any other id (one representative each)",
        "symlink modes are not applied by the merge and are not judged by the Safe clause",
        "os_data.portage_uid/gid configured to a dedicated id (no portage account on this image)",
    ]
    w = World()
    runs = []  # dict(tid, fixww, mode, observer, raised, ins, outs)
    next_tid = [0]

    def judge(label):
        if not runs:
            return
        events = [dict(i=0, **r) for r in runs]
        verdicts = ck.trace("PermHarden_Trace", events, label=label, timeout=ck.pick(300, 1500), heap="6g")
        by = {r["tid"]: r for r in runs}
        for v in verdicts:
            r = by[v["tid"]]
            f, m, i_, o_ = r["fixww"], r["mode"], r["ins"], r["outs"]
            j = v["i"]
            a = i_[j - 1] if j >= 1 else None
            b = o_[j - 1] if 1 <= j <= len(o_) else None
            ck.violation(v["clause"], dict(engine=m, fixww=f, observer=r["observer"], format_triggers=r["fmt"], raised=r["raised"], kind=a and a["kind"], mode_in=a and a["m"], uid=a and a["u"],
                                           gid=a and a["g"], entry=a, observed=b,
                                           cset=i_ if len(i_) <= 40 or a is None else [a]))
        runs.clear()

    def record(ents, mode, fixww, observer="default", fmt=False):
        ins, outs, raised = w.run(ents, mode=mode, fixww=fixww, observer=observer, fmt=fmt)
        if len(ins) != len(ents):
            raise tlc.MachineryError("engine's new_cset does not hold the package contents")
        runs.append(dict(tid=next_tid[0], fixww=fixww, mode=mode, observer=observer, fmt=fmt, raised=raised, ins=ins, outs=outs))
        next_tid[0] += 1
        if raised and observer == "default":
            # the stage died (verdict StageCompletes); judge the hardening itself with an explicit observer
            return record(ents, mode, fixww, "explicit", fmt)
        ck.count(len(ins))
        for a, b in zip(ins, outs):
            if a != b:
                ck.nontriv((a["kind"], a["m"], a["u"], a["g"], fixww, mode))

    if ck.replay_case:
        d = ck.replay_case["detail"]
        record(d["cset"], d["engine"], d["fixww"], d.get("observer", "default"), d.get("format_triggers", False))
        judge("Trace:replay")
        ck.sample(d["entry"])
        return

    # 1. design: exhaustive over the finite space
    full = not ck.quick
    kinds_mc = '{"file", "sym", "dev"}' if full else '{"file", "sym"}'
    ck.mc("PermHarden_MC",
          cfg_text=(f"SPECIFICATION Spec\nCONSTANTS\n MaxMode = 4095\n KindsC = {kinds_mc}\n OwnerPairs = \"{'all' if full else 'diag'}\"\n"
                    "INVARIANT Hardened\nINVARIANT OrderFree\nINVARIANT NotVacuous\nPROPERTY Monotone\n"),
          workers=ck.pick(4, 8), timeout=ck.pick(400, 2400), label="MC:PermHarden_MC all modes x owners x trigger orders")
    # 2. spec -> code: the whole space through the real engine
    kinds_x = '{"file", "dir", "sym", "fifo", "dev"}' if full else '{"file", "sym"}'
    cases = ck.export("PermHarden_Export",
                      cfg_text=f"CONSTANTS\n KindsX = {kinds_x}\n Chunk = 256\n OwnerPairs = \"all\"\n", timeout=600)
    if len(cases) != (5 if full else 2) * 9 * 16:
        raise tlc.MachineryError(f"unexpected number of exported cases: {len(cases)}")
    ck.exhaustive = True
    cases.sort(key=lambda c: (c["kind"], c["uid"], c["gid"], c["modes"][0]))
    # every chunk runs once; the directory it lives in (plain / with format characters), the observer and
    # whether the ebuild format's pre_merge triggers take part rotate over the chunks
    bases = ["/p", "/100%", "/%s/{0}", "/p/%(a)s"]
    observers = ["default", "file", "formatter", "explicit"]
    for tid, c in enumerate(cases):
        b = bases[tid % len(bases)]
        ents = [dict(loc=f"{b}/{c['kind']}/{m:05o}", kind=c["kind"], m=m, u=c["uid"], g=c["gid"],
                     tgt=f"t{m}" if c["kind"] == "sym" else "-", data=f"d{m}" if c["kind"] == "file" else "-")
                for m in c["modes"]]
        record(ents, "install", False, observers[(tid // len(bases)) % len(observers)], fmt=(tid // 16) % 2 == 1)
        if len(runs) >= 180:
            judge(f"Trace:export-{tid // 180}")
    judge("Trace:export-last")
    ck.sample(dict(direction="spec->code", case={k: cases[0][k] for k in ("kind", "uid", "gid")}, modes="0..255"))
    # 3. code -> spec: random mixed sets, both engine modes, fix_perms on/off
    r_ = rng(23)
    nrand = ck.pick(60, 1200)
    for n in range(nrand):
        ents = random_entries(r_, r_.randint(1, 30))
        record(ents, r_.choice(["install", "install", "replace"]), r_.random() < 0.4,
               r_.choice(["default", "explicit", "file", "formatter"]), fmt=r_.random() < 0.5)
        if n == 0:
            ck.sample(dict(direction="code->spec", first_entry=ents[0]))
        if len(runs) >= 400:
            judge(f"Trace:random-{n // 400}")
    judge("Trace:random-last")
