"""G09 -- operation templates and repository-level stage machines.

Spec        : RepoOps.tla.  Part A: pkgcore.operations.base as a decision table (which operations
              an object offers as a function of _cmd_api_X / is_standalone / _cmd_implementation_X /
              _cmd_check_support_X and the enable/disable overrides; exception recasting; run_if_supported;
              supports()).  Part B: pkgcore.operations.repo install / uninstall / replace as state machines
              over snakeoil's ForcedDepends (dependency table, depth-first linearisation, completed-stage set,
              repository write lock, notify_add_package / notify_remove_package).
MC          : RepoOps_MC -- per kind, every sequence of stage calls under every script of outcomes
              (True / false value / exception) of the format specific stages; invariants InvClosed, InvLock,
              InvUnderway, InvNotifyOnce, InvNotifyAfterData, FinishCompletes + action property Monotone.
              Vacuity guards: a design that forgets completed stages (Recheck = FALSE) must break InvLock, a
              replace table without the notify_remove edge must break InvNotifyAfterData.
spec -> code: Part A is finite: every class description over two operation names x overrides x casting mode is
              enumerated (by the driver, in the vocabulary of the spec) and built as a real subclass of
              operations.base; Part B: RepoOps_Sim (TLC -simulate) draws call histories, replayed on real
              subclasses of repo.install / uninstall / replace.
code -> spec: seeded random call histories on the same real objects.
All observations are judged clause by clause by RepoOps_Trace (nothing is compared in Python).

Carve-outs: `ignore_deps=True` and `__set_stage_state__` (documented as "know what you are doing") are not
exercised; stage methods are scripted recorders; the lock and the repository are recorders.  Named deviation
(specified as the code behaves): force-enabling an operation without _cmd_api_ makes the constructor raise
AttributeError; a stage that fails after start leaves the write lock held (the object is abandoned; the domain
level, G01, is where abandonment is handled).
"""
import itertools

from pylib import tlc
from pylib.common import rng, seed, use_repo

NAMES = ["a", "b"]
BEHAVIOURS = ["ret", "exc_cast", "exc_sub", "exc_pkgcore", "exc_other"]
REAL = {"start": "start", "add_data": "add_data", "remove_data": "remove_data", "finalize_data": "finalize_data",
        "notify_add": "_notify_repo_add", "notify_remove": "_notify_repo_remove", "finish": "finish"}
ABSTRACT = {v: k for k, v in REAL.items()}
STAGES = {
    "install": ["start", "add_data", "finalize_data", "notify_add", "finish"],
    "uninstall": ["start", "remove_data", "finalize_data", "notify_remove", "finish"],
    "replace": ["start", "add_data", "remove_data", "finalize_data", "notify_add", "notify_remove", "finish"],
}


# ---------------------------------------------------------------- part A
def descriptors():
    out = [dict(present=False, standalone=False, impl=False, chk="none")]
    for sa, im, ch in itertools.product([False, True], [False, True], ["none", "yes", "no"]):
        out.append(dict(present=True, standalone=sa, impl=im, chk=ch))
    return out


def build_class(ops_mod, excs, cls_desc, casting):
    attrs = {"_seen": [], "_checks": []}
    if casting == "None":
        attrs["__casting_exception__"] = None
    for d in cls_desc:
        if not d["present"]:
            continue
        n = d["name"]

        def api(self, b, observer=None, _n=n):
            self._seen.append((_n, observer is not None))
            if b == "ret":
                return ("val", _n)
            raise excs[b](f"scripted {b}")

        if d["standalone"]:
            api = ops_mod.is_standalone(api)
        attrs[f"_cmd_api_{n}"] = api
        if d["impl"]:
            attrs[f"_cmd_implementation_{n}"] = lambda self, *a, **k: None
        if d["chk"] != "none":

            def chk(self, _n=n, _v=(d["chk"] == "yes")):
                self._checks.append(_n)
                return _v

            attrs[f"_cmd_check_support_{n}"] = chk
    return type("ScriptedOps", (ops_mod.base,), attrs)


def api_event(ops_mod, excs, tid, cls_desc, en, dis, casting):
    klass = build_class(ops_mod, excs, cls_desc, casting)
    ev = dict(t="api", tid=tid, i=0, cls=cls_desc, en=list(en), dis=list(dis), casting=casting, ctor="ok",
              enabled=[], raw=[], checks=[], supp_yes=[], supp_raw_yes=[], calls=[])
    try:
        obj = klass(disable_overrides=dis, enable_overrides=en)
    except AttributeError:
        ev["ctor"] = "AttributeError"
        return ev
    ev["enabled"] = sorted(obj.supports())
    ev["raw"] = sorted(obj.supports(raw=True))
    ev["supp_yes"] = [n for n in NAMES if obj.supports(n)]
    ev["supp_raw_yes"] = [n for n in NAMES if obj.supports(n, raw=True)]
    sentinel = object()
    for op in NAMES:
        for b in BEHAVIOURS:
            for via in ("direct", "run"):
                del klass._seen[:]
                c = dict(op=op, b=b, via=via, kind="ret", cls="-", wrapped=False, cause_ok=True, reached=False, obs=False)
                try:
                    if via == "direct":
                        r = getattr(obj, op)(b)
                    else:
                        r = obj.run_if_supported(op, b, or_return=sentinel)
                    if r is sentinel:
                        c["kind"] = "or_return"
                    elif r != ("val", op):
                        c["kind"] = "ret-wrong-value"
                except Exception as e:  # noqa: BLE001 - the class is the observation
                    c["kind"] = "raise"
                    c["cls"] = type(e).__name__
                    inner = getattr(e, "_exc", None)
                    c["wrapped"] = inner is not None
                    if inner is not None:
                        c["cause_ok"] = bool(type(inner).__name__ == "OtherPkgcoreError" and e.__cause__ is inner
                                             and getattr(e, "_api", None) == op and str(e) == str(inner))
                if klass._seen:
                    c["reached"] = True
                    c["obs"] = klass._seen[0][1]
                    if len(klass._seen) != 1 or klass._seen[0][0] != op:
                        c["kind"] = "api-called-wrongly"
                ev["calls"].append(c)
    # the support checks ran while the object was built and never again
    ev["checks"] = list(klass._checks)
    return ev


def part_a(ck, tlcenv):
    ops_mod = __import__("pkgcore.operations", fromlist=["base"])
    from pkgcore.exceptions import PkgcoreException

    class SubError(ops_mod.OperationError):
        pass

    class OtherPkgcoreError(PkgcoreException):
        pass

    excs = {"exc_cast": lambda m: ops_mod.OperationError("scripted"), "exc_sub": lambda m: SubError("scripted"),
            "exc_pkgcore": OtherPkgcoreError, "exc_other": ValueError}
    subsets = [[], ["a"], ["b"], ["a", "b"]]
    events = []
    tid = 0
    for da, db in itertools.product(descriptors(), repeat=2):
        cls_desc = [dict(da, name="a"), dict(db, name="b")]
        for en, dis, casting in itertools.product(subsets, subsets, ["OperationError", "None"]):
            ev = api_event(ops_mod, excs, tid, cls_desc, en, dis, casting)
            events.append(ev)
            ck.count()
            if ev["ctor"] == "ok" and ev["enabled"] and (en or dis):
                ck.nontriv(("api", tid))
            tid += 1
    ck.sample(dict(direction="spec->code (exhaustive class space)", event=events[777]))
    for v in ck.trace("RepoOps_Trace", events, label="Trace:api-table", timeout=900,
                      cfg_text="SPECIFICATION TraceSpec\n"):
        ev = events[v["tid"]]
        ck.violation(v["clause"], dict(part="api", cls=ev["cls"], en=ev["en"], dis=ev["dis"], casting=ev["casting"],
                                       observed={k: ev[k] for k in ("ctor", "enabled", "raw", "checks")}))
    return len(events)


# ---------------------------------------------------------------- part C
def part_c(ck):
    from pkgcore.exceptions import PkgcoreException
    from pkgcore.operations import repo as repo_ops
    from pkgcore.sync import base as sync_base

    class OtherPkgcoreError(PkgcoreException):
        pass

    events = []
    tid = 0
    for loc, lazy, disabled, o, via in itertools.product(["repo", "config", "none"], [False, True], [False, True],
                                                         ["ret_true", "ret_false", "raise_pk", "raise_other"], ["direct", "run"]):
        log = []
        inst = []

        class FakeSyncer(sync_base.Syncer):
            def __init__(self):  # no path / uri handling: only the operation template is under test
                pass

            def sync(self, **kw):
                log.append("sync")
                if o == "raise_pk":
                    raise OtherPkgcoreError("scripted")
                if o == "raise_other":
                    raise ValueError("scripted")
                return o == "ret_true"

        sy = FakeSyncer()
        sy.disabled = disabled

        class Lazy:
            def instantiate(self):
                inst.append(1)
                return sy

        ref = Lazy() if lazy else sy

        class Conf:
            pass

        class Repo:
            frozen = False

            def _pre_sync(self):
                log.append("pre")

            def _post_sync(self):
                log.append("post")

        repo = Repo()
        if loc == "repo":
            repo._syncer = ref
        elif loc == "config":
            repo.config = Conf()
            repo.config._syncer = ref
        ops = repo_ops.sync_operations(repo)
        ev = dict(t="sync", tid=tid, i=0, loc=loc, lazy=lazy, disabled=disabled, o=o, via=via, offered=bool(ops.supports("sync")),
                  kind="ret", cls="-", wrapped=False, val="-", log=[], instantiated=False)
        sentinel = object()
        try:
            r = ops.sync() if via == "direct" else ops.run_if_supported("sync", or_return=sentinel)
            if r is sentinel:
                ev["kind"] = "or_return"
            else:
                ev["val"] = "ret_true" if r is True else "ret_false" if r is False else "other"
        except Exception as e:  # noqa: BLE001
            ev["kind"] = "raise"
            ev["cls"] = type(e).__name__
            ev["wrapped"] = getattr(e, "_exc", None) is not None
        ev["log"] = list(log)
        ev["instantiated"] = bool(inst)
        events.append(ev)
        ck.count()
        if ev["offered"]:
            ck.nontriv(("sync", tid))
        tid += 1
    for v in ck.trace("RepoOps_Trace", events, label="Trace:sync-table", timeout=600, cfg_text="SPECIFICATION TraceSpec\n"):
        ev = events[v["tid"]]
        ck.violation(v["clause"], dict(part="sync", case={k: ev[k] for k in ("loc", "lazy", "disabled", "o", "via")},
                                       observed={k: ev[k] for k in ("offered", "kind", "cls", "wrapped", "val", "log")}))



# ---------------------------------------------------------------- part D
def part_d(ck):
    from pkgcore.operations import repo as repo_ops

    names = ["install", "uninstall"]
    subsets = [[], ["install"], ["uninstall"], ["install", "uninstall"]]
    events = []
    tid = 0
    for impl, frozen, en, dis in itertools.product(subsets, [False, True], subsets, subsets):
        body = {}
        if "install" in impl:
            body["_cmd_implementation_install"] = lambda self, pkg, observer: ("raw", "install")
        if "uninstall" in impl:
            body["_cmd_implementation_uninstall"] = lambda self, pkg, observer: ("raw", "uninstall")
        raw_cls = type("RawOps", (repo_ops.operations,), body)

        class RawRepo:
            lock = None

        RawRepo.frozen = frozen
        rr = RawRepo()
        rr.operations = raw_cls(rr)

        class Wrapped:
            raw_repo = rr

        Wrapped.frozen = frozen
        proxy = repo_ops.operations_proxy(Wrapped(), disable_overrides=dis, enable_overrides=en)
        rawen = sorted(set(rr.operations.supports()) & set(names))
        enabled = sorted(set(proxy.supports()) & set(names))
        sentinel = object()
        for op, via in itertools.product(names, ["direct", "run"]):
            ev = dict(t="proxy", tid=tid, i=0, rawen=rawen, en=list(en), dis=list(dis), op=op, via=via, enabled=enabled,
                      kind="ret", cls="-")
            try:
                r = getattr(proxy, op)("pkg") if via == "direct" else proxy.run_if_supported(op, "pkg", or_return=sentinel)
                if r is sentinel:
                    ev["kind"] = "or_return"
                elif r != ("raw", op):
                    ev["kind"] = "ret-wrong-value"
            except Exception as e:  # noqa: BLE001
                ev["kind"] = "raise"
                ev["cls"] = type(e).__name__
            events.append(ev)
            ck.count()
            if en or dis:
                ck.nontriv(("proxy", tid))
            tid += 1
    for v in ck.trace("RepoOps_Trace", events, label="Trace:proxy-table", timeout=600, cfg_text="SPECIFICATION TraceSpec\n"):
        ev = events[v["tid"]]
        ck.violation(v["clause"], dict(part="proxy", case={k: ev[k] for k in ("rawen", "en", "dis", "op", "via")},
                                       observed={k: ev[k] for k in ("enabled", "kind", "cls")}))


# ---------------------------------------------------------------- part B
class World:
    """One real operation object with recorders around it."""

    def __init__(self, kind):
        from pkgcore.operations import repo as repo_ops

        w = self
        self.kind = kind
        self.log = []
        self.lock = 0
        self.nadd = 0
        self.nrem = 0
        self.script = {}
        self.falsy = False

        class Lock:
            def acquire_write_lock(self_):
                w.lock += 1
                w.log.append("start")

            def release_write_lock(self_):
                w.lock -= 1
                w.log.append("finish")

            acquire_read_lock = release_read_lock = lambda self_: None

        class Repo:
            lock = Lock()

            def notify_add_package(self_, pkg):
                w.nadd += 1
                w.log.append("notify_add")

            def notify_remove_package(self_, pkg):
                w.nrem += 1
                w.log.append("notify_remove")

        def user(name):
            def f(self_):
                w.log.append(name)
                o = w.script[name]
                if o == "T":
                    return True
                if o == "F":
                    return None if w.falsy else False
                raise RuntimeError(f"scripted failure of {name}")

            f.__name__ = name
            return f

        base = getattr(repo_ops, kind)
        body = {n: user(n) for n in ("add_data", "remove_data", "finalize_data") if n in STAGES[kind]}
        klass = type(base)("Scripted_" + kind, (base,), body)
        if kind == "replace":
            self.op = klass(Repo(), object(), object(), None)
        else:
            self.op = klass(Repo(), object(), None)

    def observe(self):
        done = sorted(ABSTRACT.get(s, "?" + s) for s in getattr(self.op, "_stage_state", ()))
        return dict(done=done, lock=self.lock, underway=bool(self.op.underway), nadd=self.nadd, nrem=self.nrem)

    def call(self, stage, script, falsy=False):
        self.script = script
        self.falsy = falsy
        del self.log[:]
        try:
            r = getattr(self.op, REAL[stage])()
            out = "True" if r else "False"
            if r not in (True, False, None):
                out = "other:" + repr(r)
        except RuntimeError:
            out = "raise"
        return out, list(self.log)


def run_history(kind, tid, calls, events, r_=None):
    w = World(kind)
    last_post = None
    for i, c in enumerate(calls):
        pre = w.observe()
        script = {"add_data": c["a"], "remove_data": c["r"], "finalize_data": c["f"]}
        out, ran = w.call(c["stage"], script, falsy=bool(r_ and r_.random() < 0.5))
        post = w.observe()
        events.append(dict(t="stage", tid=tid, i=i, kind=kind, stage=c["stage"], a=c["a"], r=c["r"], f=c["f"],
                           pre=pre, post=post, out=out, ran=ran, chained=(last_post is None or last_post == pre)))
        last_post = post


def judge_stage(ck, events, hists, label):
    for v in ck.trace("RepoOps_Trace", events, label=label, timeout=900, cfg_text="SPECIFICATION TraceSpec\n"):
        kind, calls = hists[v["tid"]]
        ck.violation(v["clause"], dict(part="stage", kind=kind, history=calls, at=v["i"]))


def mc_cfg(kind, variant="shipped", recheck="TRUE", invs=None):
    invs = invs or ["InvClosed", "InvLock", "InvUnderway", "InvNotifyOnce", "InvNotifyAfterData", "FinishCompletes"]
    return (f'SPECIFICATION Spec\nCONSTANT K = "{kind}"\nCONSTANT Variant = "{variant}"\nCONSTANT Recheck = {recheck}\n'
            + "".join(f"INVARIANT {i}\n" for i in invs) + "PROPERTY Monotone\nCONSTRAINT Bound\n")


def run(ck):
    use_repo()
    ck.rule = ("part A: one case per (class description over two operation names, enable set, disable set, casting mode), "
               "exhaustive; non-trivial = the object was built, offers something and has an override.  part B: call "
               "histories of stage methods with scripted outcomes; non-trivial = a history in which some stage failed "
               "and a later call resumed")
    ck.assumptions = [
        "stage methods, lock and repository are scripted recorders; ignore_deps / __set_stage_state__ not exercised",
        "operation names are drawn from two names; behaviours from return / casting class / its subclass / other "
        "PkgcoreException / ValueError",
    ]
    if ck.replay_case:
        d = ck.replay_case["detail"]
        if d.get("part") == "stage":
            events = []
            run_history(d["kind"], 0, d["history"], events)
            judge_stage(ck, events, {0: (d["kind"], d["history"])}, "Trace:replay")
            ck.count()
            ck.nontriv("replay")
            return
    # 1. design
    for kind in ("install", "uninstall", "replace"):
        ck.mc("RepoOps_MC", cfg_text=mc_cfg(kind), workers=4, timeout=600, label=f"MC:RepoOps_MC K={kind}")
    g1 = ck.mc("RepoOps_MC", cfg_text=mc_cfg("replace", recheck="FALSE", invs=["InvLock"]), workers=2, timeout=600,
               label="MC-guard:RepoOps_MC forgets completed stages", expect_ok=False)
    g2 = ck.mc("RepoOps_MC", cfg_text=mc_cfg("replace", variant="dropped_remove", invs=["InvNotifyAfterData"]), workers=2,
               timeout=600, label="MC-guard:RepoOps_MC replace without notify_remove edge", expect_ok=False)
    if not g1.violated or not g2.violated:
        raise tlc.MachineryError(f"vacuity guard not refuted: recheck={g1.violated!r} dropped_remove={g2.violated!r}")
    ck.extra["guards_refuted"] = [g1.violated, g2.violated]
    # 2. part A (finite, complete)
    part_a(ck, None)
    part_c(ck)
    part_d(ck)
    ck.exhaustive = False  # part A is complete, part B is sampled
    # 3. part B spec -> code
    Dp = ck.pick(5, 8)
    nsim = ck.pick(150, 1500)
    events, hists = [], {}
    tid = 0
    for kind in ("install", "uninstall", "replace"):
        cfg = f'SPECIFICATION SimSpec\nCONSTANT K = "{kind}"\nCONSTANT Dp = {Dp}\n'
        sim = tlc.run("RepoOps_Sim", cfg_text=cfg, simulate=f"num={nsim}", depth=Dp + 2, seed=seed() + 1, workers=1, timeout=600)
        ck.add_mc(f"Simulate:RepoOps_Sim K={kind} num={nsim} depth={Dp}", sim)
        behs = [p for p in sim.tagged("BEH")]
        if len(behs) < nsim // 2:
            raise tlc.MachineryError(f"simulation produced only {len(behs)} behaviours\n{sim.out[-1500:]}")
        for p in behs:
            calls = list(p[2])
            hists[tid] = (kind, calls)
            run_history(kind, tid, calls, events)
            ck.count()
            _nontriv(ck, events, tid, calls)
            tid += 1
    ck.sample(dict(direction="spec->code", kind=hists[0][0], history=hists[0][1]))
    judge_stage(ck, events, hists, "Trace:sim-histories")
    # 4. part B code -> spec
    r_ = rng(9)
    events, hists = [], {}
    for tid in range(ck.pick(600, 6000)):
        kind = r_.choice(list(STAGES))
        calls = []
        for _ in range(r_.randint(1, 7)):
            # mostly-succeeding scripts reach the late stages; failures concentrate on one stage
            sc = {u: "T" for u in ("add_data", "remove_data", "finalize_data")}
            if r_.random() < 0.6:
                sc[r_.choice(list(sc))] = r_.choice(["F", "X"])
            calls.append(dict(stage=r_.choice(STAGES[kind]), a=sc["add_data"], r=sc["remove_data"], f=sc["finalize_data"]))
        hists[tid] = (kind, calls)
        run_history(kind, tid, calls, events, r_=r_)
        ck.count()
        _nontriv(ck, events, tid, calls)
    ck.sample(dict(direction="code->spec", kind=hists[0][0], history=hists[0][1], first_event=events[0]))
    judge_stage(ck, events, hists, "Trace:random-histories")


def _nontriv(ck, events, tid, calls):
    mine = [e for e in events[-len(calls):] if e["tid"] == tid]
    failed = False
    for e in mine:
        if e["out"] != "True":
            failed = True
        elif failed and e["ran"]:
            ck.nontriv(("stage", e["kind"], repr(calls)))
            return
