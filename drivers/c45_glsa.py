"""C45 — security advisories flag exactly the vulnerable versions (pkgsets/glsa.py).

MC          : Glsa_MC    — advisory entries are built range by range over the range pool (every operator, r-forms,
                           globs, slots); on every entry the pointwise three-valued definition (Affected) equals the
                           set-algebra formulation, verdicts move monotonically, and the operator algebra holds
                           (le = lt or eq, r-forms = plain forms within one version, glob = textual extension);
              GlsaVer_MC — the PMS version order the ranges compare with is a total preorder.
spec -> code: Glsa_Export enumerates the package pool and the advisory entries (every single range; pairs
              vulnerable x unaffected; two vulnerable ranges; arch lists; foreign name; no vulnerable range).
              Each entry is written as a GLSA XML file into a scratch directory and read by the real GlsaDirSet.
code -> spec: seeded random advisory DIRECTORIES (1-3 advisories for different packages, each 1-3 vulnerable /
              0-2 unaffected ranges, all operators, globs, slots, arch lists) against random package sets.
Observed per entry, all from ONE GlsaDirSet instance per directory: restriction.match(pkg) of the restriction the
full walk yields (sel), the packages find_vulnerable_repo_pkgs() reports from a repository holding the same packages
(scan), and the match of the per-name restriction of pkg_grouped_iter() (grouped).  The three queries come in a
seeded order and each is preceded by a walk that is abandoned part-way (next() on __iter__ / iter_vulnerabilities /
the scan, any() stopping at the first hit): what an instance reports must not depend on how it was used before.
Judged by Glsa_Trace: clauses {Match,Scan,Grouped}_FalseAlarm_{name,arch,unaffected,slot,version}, {..}_Missed.

Carve-outs (not judged): an entry containing "rlt" of a version without revision (the code documents it as a
guaranteed empty set and refuses it), slot="*", globs on other operators than eq; for "eq V*" a package version
that extends V textually inside a digit run or by a letter ("1*" vs "10": pinned by the repository's tests as a
match, not a component prefix); versions with a second spelling (C01's subject).
"""
import os

from pylib import tlc
from pylib.common import mktmp, rng, use_repo

INVV = ("INVARIANT AllPlain\nINVARIANT Reflexive\nINVARIANT Antisymmetric\nINVARIANT Transitive\nINVARIANT EqualIsSame\n"
        "INVARIANT ParseInvertsRender\nINVARIANT OpsAgree\n")
INVG = "INVARIANT PointwiseIsSetAlgebra\nINVARIANT OpAlgebra\nINVARIANT GlobLaw\n"

TEMPLATE = """<?xml version="1.0" encoding="UTF-8"?>
<glsa id="{id}">
  <title>generated advisory</title>
  <synopsis>s</synopsis>
  <product type="ebuild">p</product>
  <announced>2003-11-23</announced>
  <revised>2003-11-23: 01</revised>
  <access>remote</access>
  <affected>
{packages}
  </affected>
  <background><p>b</p></background>
  <description><p>d</p></description>
  <impact type="normal"><p>i</p></impact>
  <workaround><p>w</p></workaround>
  <resolution><p>r</p></resolution>
  <references/>
</glsa>
"""


def render_range(tag, r):
    slot = f' slot="{r["slot"]}"' if r["slot"] else ""
    return f'      <{tag} range="{r["op"]}"{slot}>{r["ver"]}{"*" if r["glob"] else ""}</{tag}>'


def render_entry(e):
    arch = f' arch="{" ".join(e["arches"])}"' if e["arches"] else ""
    lines = [render_range("unaffected", r) for r in e["unaff"]] + [render_range("vulnerable", r) for r in e["vuln"]]
    return f'    <package name="{e["name"]}" auto="yes"{arch}>\n' + "\n".join(lines) + "\n    </package>"


# ---------------------------------------------------------------- random generation (inputs only)
VERS = ["1", "1.2", "1.2-r1", "1.2-r2", "1.2-r3", "1.3", "1.3-r1", "1.20", "1.2.3", "1.2_alpha", "1.2_p1", "1.2_rc1-r1", "1.2a", "2", "0.9", "1.10-r2"]
OPS = ["lt", "le", "eq", "ge", "gt", "rlt", "rle", "rge", "rgt"]
ARCHES = ["x86", "amd64", "arm", "sparc"]


def rand_range(r_):
    if r_.random() < 0.15:
        return dict(op="eq", ver=r_.choice(["1", "1.2", "1.2-r1", "1.2_alpha", "1.2.3", "0"]), glob=True, slot=r_.choice(["", "", "1"]))
    return dict(op=r_.choice(OPS), ver=r_.choice(VERS), glob=False, slot=r_.choice(["", "", "", "0", "1", "2"]))


def rand_entry(r_, name):
    k = r_.random()
    arches = [] if k < 0.6 else ["*"] if k < 0.65 else sorted(r_.sample(ARCHES, r_.randint(1, 2)))
    return dict(name=name, arches=arches, vuln=[rand_range(r_) for _ in range(r_.randint(1, 3))],
                unaff=[rand_range(r_) for _ in range(r_.choice([0, 0, 1, 1, 2]))])


def rand_universe(r_):
    out = []
    for _ in range(r_.randint(10, 16)):
        kw = sorted(r_.sample(ARCHES + ["~x86", "~arm"], r_.randint(1, 2)))
        out.append(dict(name=r_.choice(["c/p", "c/p", "c/p", "c/p", "c/q", "d/p"]), ver=r_.choice(VERS), slot=r_.choice(["0", "1", "2"]),
                        keywords=kw))
    return out


def run(ck):
    use_repo()
    from pkgcore.pkgsets import glsa
    from pkgcore.test.misc import FakePkg, FakeRepo

    ck.rule = ("advisory entries enumerated by TLC and seeded random advisories, written as GLSA XML, read by the real GlsaDirSet "
               "and evaluated on every package of the set (restriction.match and find_vulnerable_repo_pkgs); non-trivial = "
               "distinct (entry, package set) judged by the trace spec (entries it calls unspecified are counted in "
               "extra.unspec only)")
    ck.assumptions = [
        "packages are pkgcore.test.misc.FakePkg objects (real CPV parsing) with slot and keywords; the scanned repository is a FakeRepo",
        "one advisory file per case in a scratch directory; names, slots and arches are opaque",
        "versions with a single spelling (C01 covers the rest)",
    ]
    size = ck.pick(1, 2)
    scratch = mktmp("glsa")
    events, meta = [], {}

    def set_universe(udicts):
        pkgs = [FakePkg(f"{d['name']}-{d['ver']}", slot=d["slot"], keywords=tuple(d["keywords"])) for d in udicts]
        events.append(dict(tid=len(events), i=0, ev="universe",
                           pkgs=[dict(name=d["name"], ver=list(d["ver"]), slot=d["slot"], keywords=list(d["keywords"])) for d in udicts]))
        return pkgs

    def record(udicts, pkgs, entries, r_=None, script=None):
        """one advisory directory: one file per <package> entry (distinct names), read by ONE GlsaDirSet instance that is
        asked everything -- full walk, repository scan, grouped walk -- in a seeded order, interleaved with walks that
        are abandoned part-way (next() / any() stopping at the first hit)"""
        paths = []
        for n, e in enumerate(entries):
            paths.append(os.path.join(scratch, f"glsa-200001-{n + 1:02d}.xml"))
            with open(paths[-1], "w") as f:
                f.write(TEMPLATE.format(id=f"200001-{n + 1:02d}", packages=render_entry(e)))
        repo = FakeRepo(pkgs=pkgs)
        yielded, scanned, grouped, walks = {}, {}, {}, []

        def partial(kind=None):
            if kind is None:
                kind = "next_iter" if r_ is None else r_.choice(["next_iter", "any_match", "next_scan", "next_vulns", "none"])
                if kind == "any_match":
                    kind += ":" + str(r_.randrange(len(pkgs)))
            walks.append("partial:" + kind)
            if kind == "next_iter":
                next(iter(src), None)
            elif kind.startswith("any_match:"):
                p = pkgs[int(kind.split(":")[1])]
                any(r.match(p) for r in src)
            elif kind == "next_scan":
                next(iter(glsa.find_vulnerable_repo_pkgs(src, repo)), None)
            elif kind == "next_vulns":
                next(iter(src.iter_vulnerabilities()), None)

        def full_iter():
            for r in src:
                yielded.setdefault(r.key, []).append(r)

        def full_scan():
            for r, matches in glsa.find_vulnerable_repo_pkgs(src, repo):
                scanned.setdefault(r.key, set()).update(id(p) for p in matches)

        def full_grouped():
            for r in src.pkg_grouped_iter():
                grouped.setdefault(r.key, []).append(r)

        steps = [("iter", full_iter), ("scan", full_scan), ("grouped", full_grouped)]
        if r_ is not None:
            r_.shuffle(steps)
        try:
            src = glsa.GlsaDirSet(scratch)
            if script is not None:  # replay of a recorded query sequence
                for q in script:
                    if q.startswith("partial:"):
                        partial(q[len("partial:"):])
                    else:
                        walks.append(q)
                        dict(steps)[q]()
            else:
                for name, step in steps:
                    partial()
                    walks.append(name)
                    step()
        finally:
            for path in paths:
                os.unlink(path)
        out = []
        for e in entries:
            rs = yielded.get(e["name"], [])
            sel = [any(bool(r.match(p)) for r in rs) for p in pkgs]
            scan = [id(p) in scanned.get(e["name"], ()) for p in pkgs]
            grp = [any(bool(r.match(p)) for r in grouped.get(e["name"], [])) for p in pkgs]
            ev = dict(tid=len(events), i=0, ev="entry", name=e["name"], arches=list(e["arches"]),
                      vuln=[dict(op=r["op"], ver=list(r["ver"]), glob=r["glob"], slot=r["slot"]) for r in e["vuln"]],
                      unaff=[dict(op=r["op"], ver=list(r["ver"]), glob=r["glob"], slot=r["slot"]) for r in e["unaff"]],
                      yielded=bool(rs), sel=sel, scan=scan, grouped=grp)
            meta[ev["tid"]] = (udicts, e, list(entries), list(walks))
            events.append(ev)
            out.append(ev)
            ck.count()
        if len(entries) > 1:
            ck.extra["multi_advisory_sessions"] = ck.extra.get("multi_advisory_sessions", 0) + 1
        return out

    def judge(label):
        verdicts = ck.trace("Glsa_Trace", events, label=label, timeout=ck.pick(400, 3000))
        for v in verdicts:
            e = events[v["tid"]]
            c = v["clause"]
            if c == "OutsideDomain":
                raise tlc.MachineryError(f"generated case leaves the domain: {e}")
            if c.startswith("~"):
                ck.extra[c[1:]] = ck.extra.get(c[1:], 0) + 1
                if c == "~judged":
                    ck.nontriv(("e", v["tid"]))
                continue
            udicts, entry, session, walks = meta[v["tid"]]
            flagged = [f"{d['name']}-{d['ver']}:{d['slot']}" for d, s in zip(udicts, e["sel"]) if s]
            scanned = [f"{d['name']}-{d['ver']}:{d['slot']}" for d, s in zip(udicts, e["scan"]) if s]
            ck.violation(c, dict(entry=entry, xml=render_entry(entry), yielded=e["yielded"], flagged=flagged, scanned=scanned,
                                 session=session, queries=walks,
                                 vulnerable_ops=sorted({r["op"] + ("*" if r["glob"] else "") for r in entry["vuln"]}),
                                 unaffected_ops=sorted({r["op"] + ("*" if r["glob"] else "") for r in entry["unaff"]}),
                                 universe=udicts))

    if ck.replay_case:
        d = ck.replay_case["detail"]
        pkgs = set_universe(d["universe"])
        ev = record(d["universe"], pkgs, d.get("session") or [d["entry"]], script=d.get("queries"))
        ev = [x for x in ev if x["name"] == d["entry"]["name"]]
        judge("Trace:replay")
        ck.sample(dict(xml=d["xml"], flagged=sum(ev[0]["sel"])))
        ck.nontriv("replay-a")
        ck.nontriv("replay-b")
        return

    # 1. the design
    ck.mc("GlsaVer_MC", cfg_text=f"SPECIFICATION Spec\nCONSTANT Level = {ck.pick(1, 2)}\n" + INVV, workers=4,
          timeout=ck.pick(200, 2000), label=f"MC:GlsaVer_MC Level={ck.pick(1, 2)} (PMS version order)")
    for mv, mu, small, prop in ck.pick([(1, 1, "TRUE", "")], [(1, 1, "FALSE", ""), (2, 1, "TRUE", ""), (1, 1, "TRUE", "PROPERTY Monotone\n")]):
        ck.mc("Glsa_MC", cfg_text=f"SPECIFICATION Spec\nCONSTANTS Size = 1\n MaxV = {mv}\n MaxU = {mu}\n Small = {small}\n" + INVG + prop,
              workers=4, timeout=ck.pick(300, 3000), label=f"MC:Glsa_MC MaxV={mv} MaxU={mu} Small={small}")
    ck.exhaustive = False
    # 2. spec -> code
    cases = ck.export("Glsa_Export", cfg_text=f"CONSTANT Size = {size}\n", timeout=900)
    udicts = sorted((dict(name=c["name"], ver="".join(c["ver"]), slot=c["slot"], keywords=sorted(c["keywords"]))
                     for c in cases if c["kind"] == "pkg"), key=lambda d: (d["name"], d["ver"], d["slot"], d["keywords"]))
    entries = [dict(name=c["name"], arches=sorted(c["arches"]),
                    vuln=[dict(op=r["op"], ver="".join(r["ver"]), glob=r["glob"], slot=r["slot"]) for r in c["vuln"]],
                    unaff=[dict(op=r["op"], ver="".join(r["ver"]), glob=r["glob"], slot=r["slot"]) for r in c["unaff"]])
               for c in cases if c["kind"] == "entry"]
    entries.sort(key=lambda e: render_entry(e))
    if len(udicts) < 20 or len(entries) < 200:
        raise tlc.MachineryError(f"export too small: {len(udicts)} packages, {len(entries)} entries")
    pkgs = set_universe(udicts)
    for e in entries:
        ev = record(udicts, pkgs, [e])
    ents = [e for e in events if e["ev"] == "entry"]
    k = next((e for e in ents if e["unaff"] and 1 < sum(e["sel"]) < len(udicts) // 2), ents[0])  # evidence sample only
    ck.sample(dict(direction="spec->code", xml=render_entry(meta[k["tid"]][1]), flagged=sum(k["sel"]), of=len(udicts)))
    # 3. code -> spec
    r_ = rng(45)
    for u in range(ck.pick(10, 60)):
        uni = rand_universe(r_)
        pkgs = set_universe(uni)
        for n in range(ck.pick(25, 60)):
            names = r_.sample(["c/p", "c/q", "d/p"], r_.choice([1, 2, 2, 3, 3]))
            ents = [rand_entry(r_, nm) for nm in names]
            ev = record(uni, pkgs, ents, r_)
        if u == 0:
            ck.sample(dict(direction="code->spec", xml=render_entry(ents[0]), flagged=sum(ev[0]["sel"]), of=len(uni)))
    judge("Trace:exported+random advisories")
    if ck.extra.get("judged", 0) < 300:
        raise tlc.MachineryError(f"too few judged entries: {ck.extra}")
