"""G06 (growth) - EnvUpdate: the env.d fold, the generated files, CONFIG_PROTECT extraction and the
mtime-watching triggers (ebuild/triggers.py: collapse_envd, perform_env_update, env_update,
gen_config_protect_filter, InfoRegen; merge/triggers.py: mtime_watcher, ldconfig, InfoRegen).

MC          : EnvUpdate_MC - one root (env.d, generated files, info directories, clock) driven by
              install / uninstall / replace operations hook by hook with the environment acting in
              between; invariants InvGenerated, InvLdFresh, InvPreQuiet, InvDetect, InvIndexFresh,
              InvIdem, action property PastOnly.  Vacuity guards: ForcePast = FALSE must break
              InvDetect, Resnap = TRUE (second snapshot of a replace) must break InvIndexFresh.
laws/export : EnvUpdate_Export - laws of the fold; every env.d of <= MaxFiles files of a 13 file
              universe (eligibility and order of names, classes, last-wins / accumulate) is built on
              disk and given to the real collapse_envd / perform_env_update / gen_config_protect_filter.
spec -> code: EnvUpdate_Sim (TLC -simulate) chooses histories; they are replayed on a real root with a
              real MergeEngine carrying the real env_update, ldconfig and InfoRegen triggers.
code -> spec: seeded random env.d trees (random names from the name grammar, random values) and
              seeded random histories, recorded the same way.
Everything is judged by EnvUpdate_Trace, clause by clause, hooks from the previously observed state.

The world is scripted: time.time() of merge/triggers.py is a model clock (mtimes are BASE + model
seconds), /sbin/ldconfig and install-info are recording fakes installed in place of the `spawn`
module object of merge/triggers.py (install-info is also a file on a private PATH so that the real
find_binary lookup decides whether it is "installed"); os.rename / os.remove are wrapped while a
hook runs to see which generated files are replaced and which indexes are wiped.

Carve-outs: values are made of tokens without quotes, `$`, `#`, blanks other than the space; the
broken env.d file only appears between operations; file names of info directories come from the
spec's name classes; collision-ignore patterns (fnmatch) are not specified here (C21 has them).
"""
import contextlib
import json
import os
import shutil
import threading

from pylib import tlc
from pylib.common import mktmp, rng, seed, use_repo

BASE = 1_000_000_000
CONSTS = "  ForcePast = TRUE\n  Resnap = FALSE\n"
GEN = {"profile.env": "penv", "profile.csh": "pcsh", "ld.so.conf": "conf"}
TEXT = {"ok": "", "dup": "install-info: menu item `x' already exists, for file `x'", "noentry": "install-info: warning: no info dir entry in `x'",
        "err": "install-info: x: could not read (bad file)"}


def name_of(codes):
    return "".join(chr(c) for c in codes)


def render_file(rec):
    if rec["kind"] == "bad":
        return 'EDITOR="unterminated\n'
    return "".join('%s="%s"\n' % (d["k"], "".join(d["v"])) for d in rec["defs"])


class Universe:
    """What the export says: env.d files by id, the path table, the name classes of info dirs."""

    def __init__(self, header):
        self.files = {r["id"]: r for r in header["hist"] + header["x"]}
        self.paths = {r["tok"]: r["comps"] for r in header["paths"]}
        for tok, comps in self.paths.items():
            if tok != "/" + "/".join(comps):
                raise tlc.MachineryError(f"path table renders {comps} as {tok}")
        self.outcome = {r["f"]: r["o"] for r in header["outcome"]}
        self.index_names = set(header["names"]["idx"])
        self.header = dict(tid=-1, i=0, ev="universe", files=list(self.files.values()))

    def add_file(self, rec):
        self.files[rec["id"]] = rec
        self.header["files"] = list(self.files.values())


# ---------------------------------------------------------------------------------------------
# one root directory
# ---------------------------------------------------------------------------------------------
class Root:
    def __init__(self, uni, path, dirs=()):
        self.uni, self.path = uni, path
        self.envd = os.path.join(path, "etc", "env.d")
        os.makedirs(self.envd)
        self.present = {}  # env.d name -> id
        self.dirs = list(dirs)  # tracked directory tokens
        self.now = 2
        self._ino = {}

    def real(self, tok):
        return os.path.join(self.path, tok.lstrip("/"))

    def tok(self, real):
        return "/" + os.path.relpath(os.path.normpath(real), self.path)

    def put_env(self, fid):
        rec = self.uni.files[fid]
        p = os.path.join(self.envd, name_of(rec["name"]))
        if rec["kind"] == "dir":
            os.mkdir(p)
        else:
            with open(p, "w") as f:
                f.write(render_file(rec))
        self.present[name_of(rec["name"])] = fid

    def drop_env(self, fid):
        rec = self.uni.files[fid]
        p = os.path.join(self.envd, name_of(rec["name"]))
        if rec["kind"] == "dir":
            os.rmdir(p)
        else:
            os.unlink(p)
        del self.present[name_of(rec["name"])]

    def stamp(self, d):
        os.utime(self.real(d), (BASE + self.now, BASE + self.now))

    # ---- projection ----
    def gen_file(self, name):
        p = os.path.join(self.path, "etc", name)
        if not os.path.exists(p):
            return dict(ex=False, head="", lines=[])
        with open(p) as f:
            text = f.read()
        lines = text.split("\n")
        if lines and lines[-1] == "":
            lines.pop()
        head, rest = (lines[0], lines[1:]) if lines and lines[0].startswith("#") else ("", lines)
        if name != "ld.so.conf":
            rest = [parse_line(name, x) for x in rest]
        return dict(ex=True, head=head, lines=rest)

    def ino(self, name):
        p = os.path.join(self.path, "etc", name)
        try:
            st = os.stat(p)
        except FileNotFoundError:
            return 0
        return self._ino.setdefault((st.st_ino, st.st_mtime_ns, st.st_ctime_ns), len(self._ino) + 1)

    def envd_ids(self):
        names = sorted(os.listdir(self.envd))
        if set(names) != set(self.present):
            raise tlc.MachineryError(f"env.d holds {names}, expected {sorted(self.present)}")
        return sorted(self.present.values())

    def files_state(self):
        return dict(penv=self.gen_file("profile.env"), pcsh=self.gen_file("profile.csh"), conf=self.gen_file("ld.so.conf"))

    def dir_state(self):
        out = []
        for d in self.dirs:
            p = self.real(d)
            if os.path.isdir(p):
                out.append(dict(d=d, ex=True, mt=int(os.stat(p).st_mtime) - BASE, files=sorted(os.listdir(p))))
            else:
                out.append(dict(d=d, ex=False, mt=0, files=[]))
        return out


def parse_line(fname, line):
    """sh: export NAME="VALUE"; csh: words `setenv NAME "VALUE"` (quotes removed as the shell would)."""
    import re

    if fname == "profile.env":
        m = re.fullmatch(r'(\w+) (\w+)="(.*)"', line)
        if m:
            return dict(verb=m.group(1), k=m.group(2), v=m.group(3))
    else:
        m = re.fullmatch(r'(\w+)\s+(\w+)\s+(?:"([^"]*)"|\'([^\']*)\')', line)
        if m:
            return dict(verb=m.group(1), k=m.group(2), v=m.group(3) if m.group(3) is not None else m.group(4))
    return dict(verb="?", k="?", v=line)


# ---------------------------------------------------------------------------------------------
# pure functions on a fresh tree
# ---------------------------------------------------------------------------------------------
def pure_events(uni, tid, ids, extras, probes, events, ck):
    from pkgcore.ebuild import triggers as et

    path = mktmp(f"pure{tid}")
    root = Root(uni, path)
    for fid in ids:
        root.put_env(fid)
    i = 0
    base = dict(tid=tid, envd=sorted(ids))
    # 1. collapse_envd
    row, raised = [], False
    inc, colon = [], []
    try:
        d, inc, colon = et.collapse_envd(root.envd)
        for k in sorted(d):
            v = d[k]
            if isinstance(v, str):
                row.append(dict(k=k, kind="str", str=v, list=[]))
            else:
                row.append(dict(k=k, kind="list", str="", list=[str(x) for x in v]))
    except Exception as e:
        raised = True
        if type(e).__name__ != "BashParseError":
            raise
    i += 1
    events.append(dict(base, i=i, ev="collapse", raised=raised, d=row, inc=sorted(inc), colon=sorted(colon)))
    # 2. CONFIG_PROTECT
    if not raised:
        for ex in extras:
            flt = et.gen_config_protect_filter(path, tuple(ex["p"]), tuple(ex["m"]))
            pr = [dict(comps=c, hit=bool(flt.match(os.path.join(path, *c)))) for c in probes]
            i += 1
            events.append(dict(base, i=i, ev="protect", extrap=list(ex["p"]), extram=list(ex["m"]), probes=pr))
    # 3. perform_env_update, twice (the second run sees its own output), with a foreign ld.so.conf
    with open(os.path.join(path, "etc", "ld.so.conf"), "w") as f:
        f.write("# by hand\n/hand/lib\n")
    for _ in range(2):
        pre = root.files_state()
        writes, raised = [], False
        with watch_fs(root, writes, None):
            try:
                et.perform_env_update(path)
            except Exception as e:
                raised = True
                if type(e).__name__ != "BashParseError":
                    raise
        i += 1
        events.append(dict(base, i=i, ev="update", raised=raised, pre=pre, post=root.files_state(),
                           writes=[w[1] for w in writes if w[0] == "write"]))
    shutil.rmtree(path, ignore_errors=True)
    ck.count()
    return raised


@contextlib.contextmanager
def watch_fs(root, log, on_remove):
    """Record renames onto generated files and removals under the root while the block runs."""
    real_rename, real_remove, real_unlink = os.rename, os.remove, os.unlink
    etc = os.path.join(root.path, "etc")

    def rename(src, dst, *a, **kw):
        r = real_rename(src, dst, *a, **kw)
        if os.path.dirname(os.path.abspath(dst)) == etc:
            log.append(("write", os.path.basename(dst)))
        return r

    def remove(p, *a, **kw):
        r = real_remove(p, *a, **kw)
        if on_remove is not None and os.path.abspath(p).startswith(root.path + "/"):
            on_remove(os.path.abspath(p))
        return r

    os.rename, os.remove, os.unlink = rename, remove, remove
    try:
        yield
    finally:
        os.rename, os.remove, os.unlink = real_rename, real_remove, real_unlink


# ---------------------------------------------------------------------------------------------
# histories: real engine, real triggers, scripted world
# ---------------------------------------------------------------------------------------------
class Observer:
    def __init__(self, log):
        self.log = log

    def trigger_start(self, hook, trig):
        self.log.append(("trig", trig.label))

    def warn(self, msg, *a, **kw):
        self.log.append(("warn", str(msg)))

    def __getattr__(self, name):
        return lambda *a, **kw: None


class World:
    MODES = None

    def __init__(self, uni, bindir, nobindir):
        from pkgcore.ebuild import triggers as et
        from pkgcore.merge import const, engine
        from pkgcore.merge import triggers as mt

        self.uni, self.et, self.mt, self.engine_mod = uni, et, mt, engine
        self.modes = {"install": const.INSTALL_MODE, "uninstall": const.UNINSTALL_MODE, "replace": const.REPLACE_MODE}
        self.bindir, self.nobindir = bindir, nobindir
        self.log = []
        world = self

        class RecInfoRegen(et.InfoRegen):
            def regen(s, binary, basepath):
                world.log.append(("regen", world.root.tok(basepath)))
                return et.InfoRegen.regen(s, binary, basepath)

        self.RecInfoRegen = RecInfoRegen

    # ---- the scripted tools ----
    def spawn(self, argv, **kw):
        if os.path.basename(argv[0]) != "ldconfig":
            raise tlc.MachineryError(f"unexpected spawn {argv}")
        seen = []
        try:
            with open(os.path.join(self.root.path, "etc", "ld.so.conf")) as f:
                seen = [x.strip() for x in f if x.strip() and not x.lstrip().startswith("#")]
        except FileNotFoundError:
            pass
        self.log.append(("ldconfig", list(argv[1:]), seen))
        return self.rc

    def spawn_get_output(self, argv, **kw):
        if os.path.basename(argv[0]) != "install-info" or argv[1] != "--quiet" or argv[3] != "--dir-file":
            raise tlc.MachineryError(f"unexpected spawn_get_output {argv}")
        d, f = os.path.split(argv[2])
        tok = self.root.tok(d)
        if os.path.normpath(argv[4]) != os.path.join(os.path.normpath(d), "dir"):
            raise tlc.MachineryError(f"install-info index {argv[4]} for {argv[2]}")
        self.log.append(("info", tok, f))
        out = self.uni.outcome.get(f)
        if out is None:
            raise tlc.MachineryError(f"no scripted outcome for {f}")
        if out in ("ok", "dup") and not os.path.exists(argv[4]):
            with open(argv[4], "w") as fh:
                fh.write("index\n")
            self.root.stamp(tok)
        return 0, TEXT[out]

    def time(self):
        return BASE + self.root.now + 0.5

    def removed(self, p):
        d, f = os.path.split(p)
        tok = self.root.tok(d)
        self.log.append(("rm", tok, f))
        if tok in self.root.dirs and os.path.isdir(d):
            self.root.stamp(tok)

    # ---- state ----
    def reset(self, bin_, dirs):
        path = mktmp("root%d" % next(_rootno))
        shutil.rmtree(path)
        os.makedirs(path)
        self.root = Root(self.uni, path, dirs=sorted(dirs))
        self.bin = bin_
        self.rc = 0
        self.eng = None
        self.trigs = {}
        for d, files in dirs.items():
            os.makedirs(self.root.real(d))
            for f in files:
                open(os.path.join(self.root.real(d), f), "w").close()
            os.utime(self.root.real(d), (BASE, BASE))

    def snap(self, trig):
        if trig is None or trig.saved_mtimes.saved_mtimes is None:
            return dict(set=False, m=[])
        return dict(set=True, m=sorted([self.root.tok(x.location), int(x.mtime) - BASE] for x in trig.saved_mtimes.saved_mtimes))

    def state(self):
        r = self.root
        st = dict(envd=r.envd_ids(), dirs=r.dir_state(), now=r.now, bin=self.bin,
                  snapL=self.snap(self.trigs.get("ld")), snapI=self.snap(self.trigs.get("info")),
                  ino=dict(penv=r.ino("profile.env"), pcsh=r.ino("profile.csh"), conf=r.ino("ld.so.conf")))
        st.update(r.files_state())
        return st

    # ---- events ----
    def begin(self, mode):
        eng = self.engine_mod.MergeEngine
        names = {"install": eng.install_hooks, "uninstall": eng.uninstall_hooks, "replace": eng.replace_hooks}[mode]
        self.eng = eng(self.modes[mode], None, {k: [] for k in names}, {}, [], Observer(self.log), offset=self.root.path,
                       disable_plugins=True)
        ld, generic, env, info = self.mt.ldconfig(), self.mt.InfoRegen(), self.et.env_update(), self.RecInfoRegen()
        for x in (ld, generic, env, info):  # default plugins first, then the ebuild triggers (as domain does)
            x.register(self.eng)
        self.trigs = dict(ld=ld, info=info)
        self.mode = mode
        self.pc = 0

    def hook(self, rc):
        seq = dict(install=["pre_merge", "post_merge"], uninstall=["pre_unmerge", "post_unmerge"],
                   replace=["pre_merge", "post_merge", "pre_unmerge", "post_unmerge"])[self.mode]
        h = seq[self.pc]
        self.pc += 1
        self.rc = rc
        del self.log[:]
        mt = self.mt
        saved = (mt.spawn, mt.time, os.environ.get("PATH"))
        mt.spawn, mt.time = self, self
        os.environ["PATH"] = self.bindir if self.bin else self.nobindir
        try:
            with watch_fs(self.root, self.log, self.removed):
                getattr(self.eng, h)()
        finally:
            mt.spawn, mt.time = saved[0], saved[1]
            os.environ["PATH"] = saved[2]
        log = list(self.log)
        warns = [x[1] for x in log if x[0] == "warn"]
        badwarn = []
        for msg in warns:
            if msg.startswith("bad info files:"):
                for d in self.root.dirs:
                    for f in self.uni.outcome:
                        if repr(os.path.join(self.root.real(d), f)) in msg:
                            badwarn.append([d, f])
        for x in log:
            if x[0] == "ldconfig" and x[1] != ["-X", "-r", self.root.path]:
                raise tlc.MachineryError(f"ldconfig called with {x[1]}")
        obs = dict(trigs=[x[1] for x in log if x[0] == "trig"], writes=[x[1] for x in log if x[0] == "write"],
                   ldruns=sum(1 for x in log if x[0] == "ldconfig"),
                   ldseen=[y for x in log if x[0] == "ldconfig" for y in x[2]],
                   regens=[x[1] for x in log if x[0] == "regen"], infos=[[x[1], x[2]] for x in log if x[0] == "info"],
                   rms=[[x[1], x[2]] for x in log if x[0] == "rm" and x[2] in self.uni.index_names],
                   warns=len(warns), badwarn=badwarn)
        return h, obs

    def apply(self, a):
        """One input event of a history; returns the fields to record besides the state."""
        r = self.root
        ev = a["ev"]
        if ev == "begin":
            self.begin(a["a"])
            return {}
        if ev == "hook":
            h, obs = self.hook(a["n"])
            return dict(h=h, mode=self.mode, rc=a["n"], obs=obs)
        if ev == "end":
            self.eng, self.trigs = None, {}
        elif ev == "toggle":
            p = os.path.join(r.real(a["a"]), a["b"])
            if os.path.exists(p):
                os.unlink(p)
            else:
                open(p, "w").close()
            r.stamp(a["a"])
        elif ev == "mkrmdir":
            p = r.real(a["a"])
            if os.path.isdir(p):
                shutil.rmtree(p)
            else:
                os.makedirs(p)
                r.stamp(a["a"])
        elif ev == "setenv":
            if a["a"] in r.present.values():
                r.drop_env(a["a"])
            else:
                r.put_env(a["a"])
        elif ev == "rmconf":
            os.unlink(os.path.join(r.path, "etc", "ld.so.conf"))
        elif ev == "tick":
            r.now += 1
        else:
            raise tlc.MachineryError(f"unknown event {a}")
        return {}


_rootno = iter(range(10**9))
INIT_DIRS = {"/usr/share/info": ["a.info"], "/opt/info": ["bad.info"], "/opt/lib": []}
INDEXED_DIRS = {"/usr/share/info": ["a.info", "dir"], "/opt/info": ["b.info", "dir", "dir.old"], "/opt/lib": []}


def run_history(world, tid, bin_, hist, events, init_dirs=None, init_env=("f1",)):
    world.reset(bin_, init_dirs or INIT_DIRS)
    for fid in init_env:
        world.root.put_env(fid)
    events.append(dict(tid=tid, i=0, ev="init", st=world.state()))
    for n, a in enumerate(hist, 1):
        extra = world.apply(a)
        events.append(dict(tid=tid, i=n, ev=a["ev"], a=a.get("a", "-"), b=a.get("b", "-"), n=a.get("n", 0), st=world.state(), **extra))
    shutil.rmtree(world.root.path, ignore_errors=True)


def random_history(r_, length, env_ids, dir_toks, names):
    """code -> spec: a seeded walk that respects the engine contract (hooks in order, env.d breakage only
    between operations, nothing between the last hook and the end of an operation)."""
    hist, mode, pc, n = [], None, 0, 0
    seqlen = dict(install=2, uninstall=2, replace=4)
    while len(hist) < length:
        c = r_.random()
        if mode == "done":
            hist.append(dict(ev="end"))
            mode = None
        elif mode is None and c < 0.25:
            mode = r_.choice(["install", "uninstall", "replace", "replace"])
            pc = 0
            hist.append(dict(ev="begin", a=mode))
        elif mode is not None and c < 0.3:
            hist.append(dict(ev="hook", n=r_.choice([0, 0, 0, 3])))
            pc += 1
            if pc == seqlen[mode]:
                mode = "done"
        elif c < 0.6:
            hist.append(dict(ev="toggle", a=r_.choice(dir_toks), b=r_.choice(names)))
        elif c < 0.68:
            hist.append(dict(ev="mkrmdir", a=r_.choice(dir_toks)))
        elif c < 0.82:
            fid = r_.choice(env_ids)
            hist.append(dict(ev="setenv", a=fid))
        elif c < 0.86:
            hist.append(dict(ev="rmconf"))
        else:
            hist.append(dict(ev="tick"))
        n += 1
    return hist


def sanitize(world_files, hist, init_env, init_dirs):
    """Drop the steps of a random walk that are not applicable in the state they meet (a pure function of the
    inputs: existence of directories / of ld.so.conf is tracked from the inputs, nothing is predicted)."""
    out = []
    present = set(init_env)
    dirs = {d: True for d in init_dirs}
    inop = False
    conf = False
    for a in hist:
        ev = a["ev"]
        if ev == "begin":
            inop = True
        elif ev == "end":
            inop = False
        elif ev == "hook":
            conf = True
        elif ev == "toggle" and not dirs[a["a"]]:
            continue
        elif ev == "mkrmdir":
            dirs[a["a"]] = not dirs[a["a"]]
        elif ev == "setenv":
            if world_files[a["a"]]["kind"] == "bad" and inop:
                continue
            present ^= {a["a"]}
        elif ev == "rmconf":
            if not conf or inop:
                continue
            conf = False
        out.append(a)
    return out


# ---------------------------------------------------------------------------------------------
# random env.d trees (code -> spec, pure part)
# ---------------------------------------------------------------------------------------------
TOKENS = ["/a", "/b", "/lib", "/usr/lib", "/opt/lib", "/opt/info", "/usr/share/info", "w1", "w2", "XCOLON", "XSPACE", "XPLAIN", "aterm"]
PATHTOKS = ["/etc/app", "/etc/app/keep", "/etc/ap", "/opt/cfg", "/opt/cfg/sub", "/usr/share/app", "/etc", "/"]
VARS = ["CLASSPATH", "EDITOR", "INFOPATH", "LDPATH", "MANPATH", "PATH", "XCOLON", "XPLAIN", "XSPACE", "_UNDER", "aterm"]


def random_name(r_):
    c = r_.random()
    stem = "".join(r_.choice("0123456789") for _ in range(r_.choice([1, 2, 2, 2, 3]))) + "".join(
        r_.choice("abz_-.") for _ in range(r_.choice([0, 1, 1, 2])))
    if c < 0.1:
        return stem + ".bak"
    if c < 0.2:
        return stem + "~"
    if c < 0.28:
        return "._cfg0000_" + stem
    if c < 0.36:
        return r_.choice("abx") + stem
    return stem


def random_value(r_, var):
    if var in ("CONFIG_PROTECT", "CONFIG_PROTECT_MASK"):
        out = []
        for _ in range(r_.randint(0, 3)):
            out += [r_.choice(PATHTOKS), " "]
        return out[:-1] if out and r_.random() < 0.7 else out
    if var in ("COLON_SEPARATED", "SPACE_SEPARATED"):
        out = []
        for _ in range(r_.randint(1, 2)):
            out += [r_.choice(["XCOLON", "XSPACE", "XPLAIN", "aterm", "EDITOR"]), " "]
        return out[:-1]
    out = []
    for _ in range(r_.randint(0, 5)):
        out.append(r_.choice(TOKENS) if r_.random() < 0.55 else r_.choice([":", " ", ":", " "]))
    # no two tokens side by side (they would read as one word)
    norm = []
    for x in out:
        if norm and norm[-1] not in (":", " ") and x not in (":", " "):
            norm.append(r_.choice([":", " "]))
        norm.append(x)
    return norm


def random_tree(r_, k):
    recs, names = [], set()
    for n in range(r_.randint(1, 5)):
        name = random_name(r_)
        if name in names or name in (".", ".."):
            continue
        names.add(name)
        kind = "file" if r_.random() < 0.9 else r_.choice(["dir", "bad"])
        defs = []
        if kind == "file":
            for _ in range(r_.randint(0, 4)):
                var = r_.choice(VARS + ["CONFIG_PROTECT", "CONFIG_PROTECT_MASK", "COLON_SEPARATED", "SPACE_SEPARATED"])
                defs.append(dict(k=var, v=random_value(r_, var)))
        recs.append(dict(id=f"r{k}_{n}", name=[ord(c) for c in name], kind=kind, defs=defs))
    return recs


# ---------------------------------------------------------------------------------------------
class Batch:
    """Events of many roots, judged by one TLC run per `limit` events (each run gets the files it needs)."""

    def __init__(self, ck, uni, limit):
        self.ck, self.uni, self.limit = ck, uni, limit
        self.events, self.index, self.added = [], {}, []
        self._tid = 0
        self._n = 0

    def tid(self):
        self._tid += 1
        return self._tid

    def maybe_flush(self, label):
        if len(self.events) >= self.limit:
            self.flush(label)

    def flush(self, label):
        if self.events:
            self._n += 1
            judge(self.ck, self.uni, self.events, f"Trace:{label}-{self._n}", self.index)
        for rec_id in self.added:
            del self.uni.files[rec_id]
        self.uni.header["files"] = list(self.uni.files.values())
        self.events, self.index, self.added = [], {}, []


def judge(ck, uni, events, label, index):
    verdicts = ck.trace("EnvUpdate_Trace", [uni.header] + events, label=label, timeout=1500,
                        cfg_text="SPECIFICATION TraceSpec\nCONSTANTS\n" + CONSTS)
    by = {(e["tid"], e["i"]): e for e in events}
    for v in verdicts:
        e = by[(v["tid"], v["i"])]
        if v["clause"] == "OutsideDomain":
            raise tlc.MachineryError(f"generator left the modelled domain: {json.dumps(e)[:600]}")
        det = dict(index[e["tid"]])
        if det["kind"] == "history":
            det["history"] = det["history"][: e["i"]]
        det.update(clause_event=e["ev"], hook=e.get("h", "-"), mode=e.get("mode", "-"))
        if e["ev"] == "hook":
            det["observed"] = e["obs"]
        elif e["ev"] in ("collapse", "update", "protect"):
            det["observed"] = {k: e[k] for k in e if k not in ("tid", "i", "ev", "envd")}
        ck.violation(v["clause"], det)


MC_CFG = ("SPECIFICATION Spec\nCONSTANTS\n  ForcePast = {fp}\n  Resnap = {rs}\n  MaxClock = {clock}\n  MaxOps = {ops}\n"
          "  Modes = {modes}\n  EnvIds = {envs}\n  TogNames = {togs}\n  InfoDirs = {dirs}\n{props}")
ALL_PROPS = ("INVARIANT InvGenerated\nINVARIANT InvLdFresh\nINVARIANT InvPreQuiet\nINVARIANT InvDetect\n"
             "INVARIANT InvIndexFresh\nINVARIANT InvIdem\nPROPERTY PastOnly\n")
GUARDS = [
    ("no-forced-past", dict(fp="FALSE", rs="FALSE", clock=3, ops=1, modes='{"install"}', envs='{"f1"}', togs='{"a.info", "dir"}',
                            dirs='{"/usr/share/info"}', props="INVARIANT InvDetect\n"), "InvDetect"),
    ("second-snapshot-in-replace", dict(fp="TRUE", rs="TRUE", clock=3, ops=1, modes='{"replace"}', envs='{"f1"}',
                                        togs='{"a.info", "dir"}', dirs='{"/usr/share/info"}', props="INVARIANT InvIndexFresh\n"), "InvIndexFresh"),
]


def run(ck):
    use_repo()
    ck.rule = ("env.d trees (exported: every <=MaxFiles subset of a 13-file universe; random: names from the name grammar, values "
               "from an atom alphabet) folded by collapse_envd / perform_env_update / gen_config_protect_filter, and histories of "
               "merge operations (begin, hooks, environment steps) on a real MergeEngine with the real env_update, ldconfig and "
               "InfoRegen triggers; non-trivial = distinct env.d with at least two eligible files or a class declaration, or "
               "distinct history in which a post hook runs after a directory or env.d change")
    ck.assumptions = [
        "values contain no quotes, `$`, `#` or blanks other than the space; variable names come from the spec's ordered list",
        "time.time of merge/triggers.py is a model clock; directory mtimes are whole model seconds",
        "/sbin/ldconfig and install-info are recording fakes (outcome of install-info per file name from the spec's table)",
        "the unparsable env.d file appears and disappears only between operations; post hooks follow their pre hooks",
    ]
    saved_path = os.environ.get("PATH", "")
    tenv = {"PATH": saved_path}
    bindir, nobindir = mktmp("bin"), mktmp("nobin")
    with open(os.path.join(bindir, "install-info"), "w") as f:
        f.write("#!/bin/sh\nexit 0\n")
    os.chmod(os.path.join(bindir, "install-info"), 0o755)

    # ---- export (also gives the driver the universe) ----
    maxfiles = ck.pick(2, 3)
    cases = ck.export("EnvUpdate_Export", cfg_text=f"CONSTANTS\n{CONSTS}  MaxFiles = {maxfiles}\n", timeout=900, env=tenv,
                       label=f"Export+Laws:EnvUpdate_Export MaxFiles={maxfiles}")
    uni = Universe(cases[0])
    cases = cases[1:]
    world = World(uni, bindir, nobindir)

    if ck.replay_case:
        d = ck.replay_case["detail"]
        events = []
        for rec in d.get("files", []):
            uni.add_file(rec)
        if d["kind"] == "history":
            run_history(world, 1, d["bin"], d["history"], events, init_env=d["init_env"], init_dirs=d.get("init_dirs"))
        else:
            pure_events(uni, 1, d["envd"], d["extras"], d["probes"], events, ck)
        judge(ck, uni, events, "Trace:replay", {1: d})
        ck.count()
        ck.nontriv("replay")
        ck.sample({k: d[k] for k in d if k not in ("probes", "observed")})
        return

    # ---- TLC jobs that do not depend on the code run in the background ----
    jobs = {}

    def bg(label, fn):
        def go():
            try:
                jobs[label] = ("ok", fn())
            except BaseException as e:  # reported by the main thread
                jobs[label] = ("err", e)
        th = threading.Thread(target=go)
        th.start()
        return th

    import time as _t

    threads = []
    allmodes = '{"install", "uninstall", "replace"}'
    mc_conf = ck.pick(dict(fp="TRUE", rs="FALSE", clock=3, ops=1, modes=allmodes, envs='{"f2", "f3"}', togs='{"a.info", "dir"}',
                           dirs='{"/opt/info"}', props=ALL_PROPS),
                      dict(fp="TRUE", rs="FALSE", clock=3, ops=1, modes=allmodes, envs='{"f1", "f2", "f3"}', togs='{"a.info", "dir"}',
                           dirs='{"/usr/share/info", "/opt/info"}', props=ALL_PROPS))
    threads.append(bg("MC", lambda: tlc.run("EnvUpdate_MC", cfg_text=MC_CFG.format(**mc_conf), workers=ck.pick(3, 8), timeout=ck.pick(600, 3000),
                                            env=tenv, heap=ck.pick(None, "8g"))))
    for name, conf, inv in GUARDS:
        _t.sleep(0.2)
        threads.append(bg("guard:" + name, (lambda conf=conf: tlc.run("EnvUpdate_MC", cfg_text=MC_CFG.format(**conf), workers=1, timeout=600, env=tenv))))
    _t.sleep(0.2)
    D = ck.pick(16, 22)
    nsim = ck.pick(120, 1200)
    sim_cfg = ("SPECIFICATION SimSpec\nCONSTANTS\n" + CONSTS + f"  MaxClock = 12\n  MaxOps = 5\n  Modes = {{\"install\", \"uninstall\", \"replace\"}}\n"
               "  EnvIds = {\"f1\", \"f2\", \"f3\"}\n  TogNames = {\"a.info\", \"dir\", \"bad.info\", \".keepinfodir\", \"dup.info\", \"dir.old\", \".hid.info\"}\n"
               "  InfoDirs = {\"/usr/share/info\", \"/opt/info\"}\n"
               f"  D = {D}\n")
    threads.append(bg("sim", lambda: tlc.run("EnvUpdate_Sim", cfg_text=sim_cfg, simulate=f"num={nsim}", depth=D + 2, seed=seed() + 1, workers=1,
                                             timeout=900, env=tenv)))

    batch = Batch(ck, uni, ck.pick(4000, 6000))

    # ---- spec -> code, pure functions ----
    for c in cases:
        extras = [dict(p=x["p"], m=x["m"]) for x in c["extras"]]
        tid = batch.tid()
        pure_events(uni, tid, c["envd"], extras, c["probes"], batch.events, ck)
        batch.index[tid] = dict(kind="pure", envd=c["envd"], extras=extras, probes=c["probes"], files=[])
        if len(c["envd"]) >= 2:
            ck.nontriv(("x", tuple(sorted(c["envd"]))))
        batch.maybe_flush("exported-envd")
    ck.sample(dict(direction="spec->code", case=dict(envd=cases[-1]["envd"]), recorded=batch.events[-1]))
    ck.exhaustive = True

    # ---- code -> spec, random env.d trees ----
    r_ = rng(6)
    probes = cases[0]["probes"]
    extras = [dict(p=[], m=[]), dict(p=["/opt/cfg"], m=["/etc/app"])]
    for n in range(ck.pick(100, 1500)):
        recs = random_tree(r_, n)
        for rec in recs:
            uni.add_file(rec)
            batch.added.append(rec["id"])
        ids = [rec["id"] for rec in recs]
        tid = batch.tid()
        pure_events(uni, tid, ids, extras, probes, batch.events, ck)
        batch.index[tid] = dict(kind="pure", envd=ids, extras=extras, probes=probes, files=recs)
        ck.nontriv(("r", json.dumps([[x["name"], x["kind"], x["defs"]] for x in recs])))
        if n == 0:
            ck.sample(dict(direction="code->spec", tree=[dict(name=name_of(x["name"]), kind=x["kind"], text=render_file(x)) for x in recs]))
        batch.maybe_flush("random-envd")
    batch.flush("envd-trees")

    # ---- code -> spec, random histories ----
    names = ["a.info", "b.info", "bad.info", "dup.info", "noent.info", "dir", "dir.old", ".keepinfodir", ".hid.info", "dir", "a.info"]
    for n in range(ck.pick(60, 600)):
        bin_ = r_.random() < 0.85
        init_env = ["f1"] if r_.random() < 0.7 else ["f2"]
        hist = sanitize(uni.files, random_history(r_, r_.randint(8, ck.pick(24, 40)), ["f1", "f2", "f2", "f3"], list(INIT_DIRS), names), init_env, INIT_DIRS)
        init_dirs = INIT_DIRS if r_.random() < 0.5 else INDEXED_DIRS
        tid = batch.tid()
        run_history(world, tid, bin_, hist, batch.events, init_env=init_env, init_dirs=init_dirs)
        batch.index[tid] = dict(kind="history", bin=bin_, history=hist, init_env=init_env, init_dirs=init_dirs, files=[])
        ck.count()
        if any(a["ev"] == "hook" for a in hist):
            ck.nontriv(("h", json.dumps(hist)))
        batch.maybe_flush("random-histories")
    ck.sample(dict(direction="code->spec", history=hist[:12]))

    # ---- spec -> code, simulated histories ----
    for th in threads:
        th.join()
    for label, (status, res) in jobs.items():
        if status == "err":
            raise res
    sim = jobs["sim"][1]
    ck.add_mc(f"Simulate:EnvUpdate_Sim num={nsim} depth={D}", sim)
    behs = [(p[1], p[2]) for p in sim.tagged("BEH")]
    if len(behs) < nsim // 3:
        raise tlc.MachineryError(f"simulation produced only {len(behs)} behaviours\n{sim.out[-2000:]}")
    for bin_, hist in behs:
        hist = [dict(ev=a["ev"], a=a["a"], b=a["b"], n=a["n"]) for a in hist]
        tid = batch.tid()
        run_history(world, tid, bool(bin_), hist, batch.events)
        batch.index[tid] = dict(kind="history", bin=bool(bin_), history=hist, init_env=["f1"], files=[])
        ck.count()
        if any(a["ev"] == "hook" for a in hist):
            ck.nontriv(("s", json.dumps(hist)))
        batch.maybe_flush("sim-histories")
    ck.sample(dict(direction="spec->code", history=behs[0][1][:12]))
    batch.flush("histories")

    # ---- model checking results ----
    mc = jobs["MC"][1]
    ck.add_mc("MC:EnvUpdate_MC " + " ".join(f"{k}={v}" for k, v in mc_conf.items() if k != "props"), mc)
    if mc.violated:
        raise tlc.MachineryError(f"EnvUpdate_MC: model violates {mc.violated}\n{mc.out[-3000:]}")
    for name, conf, inv in GUARDS:
        res = jobs["guard:" + name][1]
        ck.add_mc(f"Guard:{name} (must violate {inv})", res)
        if res.violated != inv:
            raise tlc.MachineryError(f"vacuity guard {name}: expected TLC to refute {inv}, got {res.violated!r}\n{res.out[-2000:]}")
    ck.extra["vacuity_guards_refuted"] = [g[0] for g in GUARDS]
