"""C14 — USE-configured package views always reflect the current USE set
(package/conditionals.py PackageWrapper: request_enable/request_disable/rollback/commit and the
reuse-point cache of _getattr_wrapped; wrapped attributes of ebuild/repository.py ConfiguredTree).

MC          : ConfiguredPkg_MC — every history (requests on one or two flags incl. a locked one, rollbacks,
              commits, reads) with the cache mechanism: "advance the generation on every change and never
              go back" keeps every read fresh and an exact rollback keeps refused requests harmless; the
              three deviations (no advance on disable, commit resets the generation, kind-based rollback)
              are each shown to break it (TLC must find the counterexample).
spec -> code: ConfiguredPkg_Sim (TLC -simulate) chooses histories and the attributes to read after every
              step; they are executed on a real PackageWrapper around a real ebuild_src package whose raw
              attributes are of the form `f? ( x ) !f? ( y )` (the view reveals the USE set it was computed
              under) plus any-of / exactly-one-of groups, and dependencies whose atoms carry transitive USE
              deps with and without USE defaults (`[f?]`, `[!f=]`, `[f(+)?]`; judged structurally).
code -> spec: seeded random histories over random universes (3-5 flags, locked flags, random raw
              attributes, random initial USE), reads interleaved at every step.
Every step is judged by ConfiguredPkg_Trace: each read against the raw attribute evaluated under the USE
set observed at that moment (structurally against raw.evaluate_depset(use), by meaning against
DepSet!Evaluate), each refused request against the USE set before it, each operation against the
LimitedChangeSet semantics.

Carve-outs: how the USE set evolves is modelled as snakeoil's LimitedChangeSet does it (kind-based undo);
disabling a pinned flag that is already off may be granted or refused; raw attributes avoid `??` (C09).
Only requests on the configurable attribute ("use") are in the domain.
"""
from pylib import tlc
from pylib.common import rng, use_repo

from drivers.c09_depset import Api, Uri, lex

ATTRS = ["depend", "rdepend", "license", "restrict", "required_use", "fetchables", "bdepend", "pdepend"]
# attributes whose atoms carry transitive USE deps (`[f?]`, `[!f=]`, `[f(+)?]` ...): the DepSet spec does not
# give those atoms a meaning, so their views are judged structurally only (View_stale), not by View_meaning
OPAQUE = ["bdepend", "pdepend"]
FLAVOUR = dict(depend="dep", rdepend="dep", license="license", restrict="restrict", required_use="required_use",
               fetchables="src_uri")
KEY = dict(depend="DEPEND", rdepend="RDEPEND", license="LICENSE", restrict="RESTRICT", required_use="REQUIRED_USE",
           bdepend="BDEPEND", pdepend="PDEPEND")

MC_UNI = dict(
    flags=["a", "b", "c"], locked=["c"],
    raw=dict(
        depend="a? ( cat/a ) !a? ( cat/na ) b? ( cat/b ) !b? ( cat/nb ) c? ( cat/c ) !c? ( cat/nc )",
        rdepend="|| ( a? ( cat/a ) b? ( cat/b ) cat/z ) c? ( !a? ( cat/cna ) ) cat/y",
        license="a? ( LA ) !a? ( LNA ) || ( b? ( LB ) LC ) c? ( LCC )",
        restrict="a? ( test ) !b? ( mirror ) c? ( !a? ( strip ) ) fetch",
        required_use="a? ( b ) !b? ( !c ) ^^ ( a? ( x ) y c? ( z ) )",
        fetchables="a? ( http://e/a.tgz -> a-1.tgz ) !a? ( http://e/na.tgz ) b? ( c? ( http://e/bc.patch ) ) http://e/z.tar",
        bdepend="cat/ta[a(+)?] cat/tb[!b(-)?] cat/tc[c(+)=] cat/plain",
        pdepend="cat/ua[a?] cat/ub[!b=] c? ( cat/uc[a(-)?,b] ) || ( cat/ud[b(+)=] cat/ue )",
    ),
)


class World:
    def __init__(self, api, uni):
        from pkgcore.ebuild import ebuild_src
        from pkgcore.ebuild.eapi import get_eapi
        from pkgcore.ebuild.repository import ConfiguredTree
        from pkgcore.package.conditionals import make_wrapper

        self.api, self.uni = api, uni
        raw = ebuild_src.base(None, "dev-util/diffball-0.1-r1")
        object.__setattr__(raw, "eapi", get_eapi("8", suppress_unsupported=True))
        object.__setattr__(raw, "data", {KEY[a]: uni["raw"][a] for a in KEY})
        object.__setattr__(raw, "fetchables", api.parsers["src_uri"](uni["raw"]["fetchables"]))
        self.raw = raw
        self.kls = make_wrapper(object(), ConfiguredTree.configurable, ConfiguredTree.config_wrappables)
        self.raw_ast = {a: api.nodes(getattr(raw, a)) for a in ATTRS}
        self.pkg = None

    def header(self):
        return dict(tid=-1, i=0, ev="universe", flags=self.uni["flags"], locked=self.uni["locked"], attrs=ATTRS, opaque=OPAQUE,
                    raw=self.raw_ast)

    def state(self):
        lcs = self.pkg.use
        return dict(use=sorted(lcs), log=[dict(add=bool(kind), f=key) for kind, key in lcs._change_order])

    def apply(self, a):
        """Execute one operation; returns (granted, name of escaped exception)."""
        op = a["op"]
        try:
            if op == "init":
                self.pkg = self.kls(self.raw, initial_settings=list(a["vs"]), unchangable_settings=frozenset(self.uni["locked"]))
                return True, ""
            if op == "enable":
                return bool(self.pkg.request_enable("use", *a["vs"])), ""
            if op == "disable":
                return bool(self.pkg.request_disable("use", *a["vs"])), ""
            if op == "rollback":
                self.pkg.rollback(a["n"])
                return True, ""
            if op == "commit":
                self.pkg.commit()
                return True, ""
        except Exception as e:  # logged; judged by the trace spec
            return False, type(e).__name__
        raise ValueError(op)

    def reads(self, attrs):
        out = []
        now = frozenset(self.pkg.use)
        for a in attrs:
            view = getattr(self.pkg, a)
            fresh = getattr(self.raw, a).evaluate_depset(now)
            out.append(dict(attr=a, view=self.api.nodes(view), fresh=self.api.nodes(fresh)))
        return out


def full(a):
    out = dict(op=a["op"], vs=[], n=0, reads=[])
    out.update(a)
    return out


def run_history(world, tid, actions, events, r_=None, steps=0):
    """Execute a spec-chosen action list, or generate one (r_ given)."""
    hist, i = [], 0
    flags = world.uni["flags"]
    while True:
        if actions is not None:
            if i >= len(actions):
                break
            a = full(actions[i])
        else:
            if i >= steps:
                break
            rd = [x for x in ATTRS if r_.random() < 0.45]
            if i == 0:
                a = full(dict(op="init", vs=[f for f in flags if r_.random() < 0.5], reads=rd))
            else:
                x = r_.random()
                cnt = world.pkg.changes_count()
                if x < 0.34:
                    a = full(dict(op="enable", vs=r_.sample(flags, r_.randint(1, min(3, len(flags)))), reads=rd))
                elif x < 0.68:
                    a = full(dict(op="disable", vs=r_.sample(flags, r_.randint(1, min(3, len(flags)))), reads=rd))
                elif x < 0.88:
                    a = full(dict(op="rollback", n=r_.randint(0, cnt), reads=rd))
                else:
                    a = full(dict(op="commit", reads=rd))
        if a["op"] == "rollback" and a["n"] > world.pkg.changes_count():
            break  # the real object has fewer outstanding changes than the model: history ends here
        ret, exc = world.apply(a)
        i += 1
        events.append(dict(tid=tid, i=i, op=a["op"], vs=a["vs"], n=a["n"], ret=ret, exc=exc, st=world.state(),
                           reads=world.reads(a["reads"])))
        hist.append(a)
    return hist


def judge(ck, world, events, label):
    if not events:
        return
    # chunks end at history boundaries (every history starts with "init", which is judged on its own)
    verdicts, chunk = [], []
    for k, e in enumerate(events):
        chunk.append(e)
        last = k + 1 == len(events)
        if last or (len(chunk) >= 4000 and events[k + 1]["tid"] != e["tid"]):
            verdicts += ck.trace("ConfiguredPkg_Trace", [world.header()] + chunk, label=label, timeout=1700)
            chunk = []
    by = {(e["tid"], e["i"]): e for e in events}
    for v in verdicts:
        e = by[(v["tid"], v["i"])]
        if v["clause"] in ("OutsideDomain", "UnknownEvent"):
            raise tlc.MachineryError(f"generator left the property's domain: {e}")
        hist = [dict(op=x["op"], vs=x["vs"], n=x["n"], reads=[r["attr"] for r in x["reads"]])
                for x in events if x["tid"] == e["tid"] and x["i"] <= e["i"]]
        extra = v["extra"][0] if v.get("extra") else ""
        ck.violation(v["clause"], dict(op=e["op"], cause=extra if not v["clause"].startswith("View_") else "",
                                       attr=extra if v["clause"].startswith("View_") else "", exc=e["exc"],
                                       universe=world.uni, history=hist, observed=e["st"]))


def random_universe(r_, maxflags=5):
    nf = r_.randint(3, maxflags)
    flags = ["a", "b", "c", "d", "e"][:nf]
    locked = [f for f in flags if r_.random() < 0.3][:2]

    def reveal(mk_on, mk_off):
        return " ".join(f"{f}? ( {mk_on(f)} ) !{f}? ( {mk_off(f)} )" for f in flags if r_.random() < 0.7)

    def extra(leaves, anyof):
        f, g = r_.sample(flags, 2)
        s = f"{f}? ( !{g}? ( {leaves[0]} ) {leaves[1]} )"
        if anyof:
            s += f" || ( {g}? ( {leaves[2]} ) {leaves[3]} )"
        return s

    raw = dict(
        depend=reveal(lambda f: f"cat/{f}", lambda f: f"cat/n{f}") + " " + extra(["cat/p", "cat/q", "cat/r", "cat/s"], True),
        rdepend=extra([">=cat/p-1", "!cat/q", "cat/r:0", "cat/s"], True) + " " + reveal(lambda f: f"dev/{f}", lambda f: f"dev/n{f}"),
        license=reveal(lambda f: f"L{f}", lambda f: f"LN{f}") + " " + extra(["GPL-2", "MIT", "BSD", "ISC"], True),
        restrict=reveal(lambda f: f"r{f}", lambda f: f"rn{f}") + " " + extra(["test", "mirror", "strip", "fetch"], False),
        required_use=reveal(lambda f: f"x{f}", lambda f: f"!x{f}") + " " + extra(["p", "!q", "r", "s"], True)
        + f" ^^ ( {flags[0]}? ( u ) v w )",
        bdepend=" ".join(f"cat/t{f}[{r_.choice(['', '!'])}{f}{r_.choice(['(+)', '(-)', ''])}{r_.choice('?=')}]"
                         for f in flags if r_.random() < 0.8) + " cat/plain",
        pdepend=" ".join(f"cat/u{f}[{r_.choice(['', '!'])}{f}{r_.choice(['(+)', '(-)', ''])}{r_.choice('?=')}]"
                         for f in flags if r_.random() < 0.6) + " " + extra(["cat/p[" + flags[0] + "(+)?]", "cat/q", "cat/r", "cat/s"], True),
        fetchables=reveal(lambda f: f"http://e/{f}.tgz -> {f}-1.tgz", lambda f: f"http://e/n{f}.tgz") + " "
        + extra(["http://e/p", "q.patch", "r", "s"], False),
    )
    return dict(flags=flags, locked=locked, raw={k: " ".join(v.split()) for k, v in raw.items()})


def nontrivial(hist):
    ops = [a["op"] for a in hist]
    return any(o in ("disable", "rollback", "commit") for o in ops) and any(a["reads"] for a in hist[1:])


def run(ck):
    use_repo()
    api = Api()
    ck.rule = ("histories init / enable / disable (1-3 flags, locked ones included) / rollback / commit on a real "
               "PackageWrapper with reads of wrapped attributes after every step; chosen by TLC simulation of "
               "ConfiguredPkg_Sim and by a seeded generator over random universes; non-trivial = distinct history "
               "with a disable, rollback or commit and at least one read after the first operation")
    ck.assumptions = [
        "requests are made on the configurable attribute (use); the USE set evolves as snakeoil's LimitedChangeSet defines",
        "observed configuration = LimitedChangeSet contents and its change list (_change_order)",
        "fetchables are a DepSet of str-like leaves (stands for fetch.fetchable); raw attributes contain no `??` group",
    ]
    if ck.replay_case:
        d = ck.replay_case["detail"]
        w = World(api, d["universe"])
        events = []
        run_history(w, 0, d["history"], events)
        judge(ck, w, events, "Trace:replay")
        ck.count()
        ck.sample(d["history"])
        ck.nontriv("replay")
        ck.nontriv("replay2")
        return

    # 1. the design and the three deviations
    def cfg(bump, resets, exact, maxpt):
        t = lambda b: "TRUE" if b else "FALSE"
        return ("SPECIFICATION Spec\nCONSTANTS\n  MCFlags = {\"a\", \"b\", \"c\"}\n  Locked = {\"c\"}\n  Attrs = {\"depend\"}\n"
                f"  BumpOnDisable = {t(bump)}\n  CommitResets = {t(resets)}\n  Exact = {t(exact)}\n  OpenPolicy = \"skip\"\n"
                f"  MaxPt = {maxpt}\nINVARIANT TypeOK\nINVARIANT ViewFresh\nINVARIANT RefusedLeavesUse\nPROPERTY LockedNeverChange\n")

    mp = ck.pick(3, 5)
    ck.mc("ConfiguredPkg_MC", cfg_text=cfg(True, False, True, mp), workers=ck.pick(2, 4), timeout=ck.pick(200, 2400),
          label=f"MC:ConfiguredPkg_MC MaxPt={mp} (advance always, never reset, exact rollback)")
    for name, args, want in (("no advance on disable", (False, False, True), "ViewFresh"),
                             ("commit resets the generation", (True, True, True), "ViewFresh"),
                             ("kind-based rollback", (True, False, False), "RefusedLeavesUse")):
        res = ck.mc("ConfiguredPkg_MC", cfg_text=cfg(*args, 3), workers=1, timeout=300, expect_ok=False, label=f"MC:deviation {name}")
        if res.violated != want:
            raise tlc.MachineryError(f"deviation '{name}' should violate {want}, TLC says {res.violated}\n{res.out[-1500:]}")
    ck.extra["deviations_refuted_by_tlc"] = ["no advance on disable", "commit resets the generation", "kind-based rollback"]
    # 2. spec -> code
    D = ck.pick(8, 12)
    nsim = ck.pick(150, 1500)
    sim_attrs = "{" + ", ".join(f'"{a}"' for a in ("depend", "rdepend", "license", "bdepend")) + "}"
    from pylib.common import seed
    sim = tlc.run("ConfiguredPkg_Sim", cfg_text=f"SPECIFICATION SimSpec\nCONSTANTS\n  SimFlags = {{\"a\", \"b\", \"c\"}}\n  "
                  f"Locked = {{\"c\"}}\n  Attrs = {sim_attrs}\n  D = {D}\nINVARIANT Emit\n",
                  simulate=f"num={nsim}", depth=D + 2, seed=seed() + 14, workers=1, timeout=900)
    ck.add_mc(f"Simulate:ConfiguredPkg_Sim num={nsim} depth={D}", sim)
    behs = [p[1] for p in sim.tagged("BEH")]
    if len(behs) < nsim // 2:
        raise tlc.MachineryError(f"simulation produced only {len(behs)} behaviours\n{sim.out[-2000:]}")
    w = World(api, MC_UNI)
    events = []
    for tid, beh in enumerate(behs):
        hist = run_history(w, tid, beh, events)
        ck.count()
        if nontrivial(hist):
            ck.nontriv(("sim", repr(hist)))
    ck.sample(dict(direction="spec->code", history=behs[0]))
    judge(ck, w, events, "Trace:sim-histories")
    # 3. code -> spec
    r_ = rng(14)
    for u in range(ck.pick(2, 6)):
        uni = random_universe(r_, ck.pick(4, 5))
        w = World(api, uni)
        events = []
        for tid in range(ck.pick(60, 200)):
            hist = run_history(w, tid, None, events, r_=r_, steps=r_.randint(4, ck.pick(10, 16)))
            ck.count()
            if nontrivial(hist):
                ck.nontriv(("rnd", u, repr(hist)))
        if u == 0:
            ck.sample(dict(direction="code->spec", universe=uni, history=hist))
        judge(ck, w, events, f"Trace:random-universe-{u}")
