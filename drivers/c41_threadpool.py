"""C41 — the parallel map processes every item exactly once (src/pkgcore/util/thread_pool.py map_async).

MC          : ThreadPool_MC — feeder + worker threads + queue + one sentinel per worker + kill
              event; every interleaving for every input length / thread count / outputs-per-item
              assignment (bounded), inputs with and without a length, optionally a raising input.
              Invariants AtMostOnce, NoPhantom, ResultsSound, ExactlyOnceAtReturn, NoStuck and the
              liveness property Termination under weak fairness.  The single-shared-sentinel
              variant must violate NoStuck (non-vacuity).
spec -> code: ThreadPool_Export enumerates every call shape of the model (n, threads, has-length,
              outputs per item) x functor style (generator, as regen_iter / plain function, as
              thread_trigger) and, style "regen", the real worker of metadata regeneration:
              regen_repository -> map_async -> regen_iter over a stub repository whose per-thread
              regeneration callable succeeds, raises MetadataException or raises another error,
              for every assignment of these outcomes to the queue positions and every thread count;
              each is run on the real map_async several times under perturbed
              schedules (switch interval 1 us, seeded yields/sleeps in the input iterator and in
              the functors).
              Slow producers: ThreadPool_Export also enumerates, for every input length and thread
              count, an input that pauses for 0.25 s (real time, longer than any polling interval a
              worker might use) before handing out item p, for every position p (and before ending):
              the workers sit on an empty queue and must block, not leave.  These calls run a dozen
              at a time since they mostly sleep.
code -> spec: seeded random calls (0..50 items, 1..8 threads, list / tuple / generator inputs,
              per-thread args, raising inputs), plus random slow producers (1-2 pauses in 1..20 items).
Every run logs feed / take / emit / end / done events to one list (append is atomic under the
GIL; no wall clock) and ThreadPool_Trace walks the log as the projection of the model:
Item_taken_before_fed, Item_taken_twice on every take; Item_not_processed, Result_missing,
Result_extra, Raised, Did_not_return at the return.

Limits stated honestly: real schedules are sampled, exhaustiveness is on the model.  The order of
log entries of different threads is the order of the appends, not of the queue operations, so
the judge treats the queue as a bag (a sound abstraction of the FIFO model).
Domain: threads >= 1; an input that raises is only judged for "at most once".
"""
import itertools
import random
import sys
import threading
import time

from pylib import tlc
from pylib.common import rng, use_repo


class InputError(Exception):
    pass


LONG_PAUSE = 1.3  # every few slow-producer cases: beyond sub-second give-up timeouts of an idle worker (seeded change C41/m5)
PAUSE = 0.25  # seconds a slow producer stays silent: longer than any plausible polling interval of a worker


def one_run(mods, case, seed):
    """Run the real map_async once (style "regen": through the real regen_repository / regen_iter worker);
    return the event list of the run (without tid/i)."""
    map_async, regen_repository, MetadataException = mods
    n, threads, haslen, style = case["n"], case["threads"], case["haslen"], case["style"]
    out = case["out"]  # list, out[i-1] for item i
    fail_at = case.get("fail_at", -1)  # raise after that many items were handed out (-1: never)
    pause_s = case.get("pause_s", PAUSE)  # some cases stay silent much longer (a worker that gives up after a timeout)
    pauses = set(case.get("pauses") or ())  # the input pauses before handing out these items (n + 1: before it ends)
    r = random.Random(seed)
    naps = [r.choice((0, 0, 1, 1, 2, 3)) for _ in range(3 * n + 8)]
    log = []

    def nap(k):
        c = naps[k % len(naps)]
        if c == 1:
            time.sleep(0)
        elif c == 2:
            time.sleep(0.00002)
        elif c == 3:
            for _ in range(50):
                pass

    def feed():
        for i in range(1, n + 1):
            if fail_at == i - 1:
                raise InputError(i)
            if i in pauses:
                time.sleep(pause_s)
            log.append(("feed", i))
            nap(i)
            yield i
        if n + 1 in pauses:
            time.sleep(pause_s)
        if fail_at == n:
            raise InputError(n)

    class Sized:
        def __len__(self):
            return n

        def __iter__(self):
            return feed()

    ids = itertools.count(1)

    def gen_functor(it, tag, w):
        for item in it:
            log.append(("take", w, item))
            nap(n + item)
            for j in range(1, out[item - 1] + 1):
                log.append(("emit", w, item, j))
                yield (item, j)
                nap(2 * n + item + j)
        log.append(("end", w))

    def ret_functor(it, tag, w):
        acc = 0
        for item in it:
            log.append(("take", w, item))
            nap(n + item)
            acc += out[item - 1]
        log.append(("end", w))
        if acc:
            log.append(("emit", w, 1000 + w, acc))
            return (1000 + w, acc)
        return None

    class Repo:
        """What regen_repository needs of a repository: one regeneration callable per worker thread."""

        def _regen_operation_helper(self, **kwargs):
            w = next(ids)

            def regen(pkg):
                log.append(("take", w, pkg))
                nap(n + pkg)
                kind = kinds[pkg - 1]
                if kind == "meta":  # broken metadata: reported elsewhere, the worker goes on
                    raise MetadataException(pkg, "keywords", "unparsable")
                if kind == "err":  # any other failure is returned as (pkg, exception)
                    log.append(("emit", w, pkg, 1))
                    raise ValueError(pkg)

            return regen

    kinds = case.get("kinds") or ["ok"] * n
    functor = gen_functor if style == "gen" else ret_functor
    inp = Sized() if haslen else feed()
    box = {}

    def call():
        try:
            if style == "regen":
                res = [(pkg, 1) if isinstance(e, ValueError) and e.args == (pkg,) else (pkg, e)
                       for pkg, e in regen_repository(Repo(), inp, None, threads=threads)]
            else:
                res = map_async(inp, functor, "tag", threads=threads, per_thread_args=lambda: (next(ids),))
            # a result token is a pair of ints; anything else is reported as the token [-1, -1]
            box["results"] = [list(x) if isinstance(x, tuple) and len(x) == 2 and all(isinstance(y, int) for y in x) else [-1, -1]
                              for x in res]
        except InputError:
            box["raised"] = "InputError"
        except Exception as e:  # judged (Raised)
            box["raised"] = f"{type(e).__name__}: {e}"

    t = threading.Thread(target=call, daemon=True)
    t.start()
    t.join(60)
    hung = t.is_alive()
    evs = [dict(ev="call", n=n, threads=threads, haslen=haslen, failing=fail_at >= 0)]
    for rec in list(log):
        if rec[0] == "feed":
            evs.append(dict(ev="feed", item=rec[1]))
        elif rec[0] == "take":
            evs.append(dict(ev="take", w=rec[1], item=rec[2]))
        elif rec[0] == "emit":
            evs.append(dict(ev="emit", w=rec[1], a=rec[2], b=rec[3]))
        else:
            evs.append(dict(ev="end", w=rec[1]))
    evs.append(dict(ev="done", raised="raised" in box, hung=hung, results=box.get("results", [])))
    return evs, box.get("raised", ""), hung


BLANK = dict(ev="", n=0, threads=0, haslen=False, failing=False, item=0, w=0, a=0, b=0, raised=False, hung=False, results=[])


def mc_cfg(items, thr, fair, mayfail=True, rule="perworker", quit_=False, idle=False):
    inv = "INVARIANT TypeOK\nINVARIANT AtMostOnce\nINVARIANT NoPhantom\nINVARIANT ResultsSound\nINVARIANT ExactlyOnceAtReturn\nINVARIANT NoStuck\n"
    return (f"SPECIFICATION {'FairSpec' if fair else 'Spec'}\nCONSTANTS\n MaxItems = {items}\n MaxThreads = {thr}\n"
            f" MayFail = {'TRUE' if mayfail else 'FALSE'}\n SentinelRule = \"{rule}\"\n QuitOnEmpty = {'TRUE' if quit_ else 'FALSE'}\n QuitWhenIdle = {'TRUE' if idle else 'FALSE'}\n" + inv + ("PROPERTY Termination\n" if fair else ""))


def run(ck):
    use_repo()
    from pkgcore.operations.regen import regen_repository
    from pkgcore.package.errors import MetadataException
    from pkgcore.util.thread_pool import map_async

    mods = (map_async, regen_repository, MetadataException)

    ck.rule = ("one call of the real map_async per (call shape, schedule seed); call shapes enumerated by TLC from the model "
               "plus seeded random ones; non-trivial = distinct run with >= 2 items in which at least two different worker "
               "threads received items")
    ck.assumptions = [
        "real thread schedules are sampled (switch interval 1 us + seeded yields); every interleaving is explored on the model only",
        "log order = order of list.append under the GIL; the judge treats the queue as a bag",
        "threads >= 1; a raising input iterable is only judged for 'at most once'",
    ]
    events, runs = [], []  # runs[tid] = (case, seed, raised)
    hung_total = [0]

    def execute(case, seed, done=None):
        evs, raised, hung = done or one_run(mods, case, seed)
        tid = len(runs)
        runs.append((case, seed, raised))
        for i, e in enumerate(evs):
            rec = dict(BLANK)
            rec.update(e)
            rec.update(tid=tid, i=i)
            events.append(rec)
        ck.count()
        if case["n"] >= 2 and len({e["w"] for e in evs if e["ev"] == "take"}) >= 2:
            ck.nontriv((repr(sorted(case.items())), seed))
        hung_total[0] += hung
        if hung_total[0] >= 3:
            raise StopIteration

    def execute_slow(batch):
        """Calls with a pausing input spend their time asleep: run a dozen of them side by side (every call has
        its own log, queue and threads), then record them in order."""
        from concurrent.futures import ThreadPoolExecutor

        with ThreadPoolExecutor(12) as ex:
            results = list(ex.map(lambda cs: one_run(mods, cs[0], cs[1]), batch))
        for (case, seed), res in zip(batch, results):
            execute(case, seed, done=res)

    old_si = sys.getswitchinterval()
    sys.setswitchinterval(1e-6)
    try:
        try:
            if ck.replay_case:
                d = ck.replay_case["detail"]
                for k in range(200):
                    execute(d["case"], d["seed"] + k)
            else:
                # 1. the design: every interleaving (safety at the larger bound, liveness at the smaller one)
                if not ck.quick:
                    si, st_ = 3, 3
                    ck.mc("ThreadPool_MC", cfg_text=mc_cfg(si, st_, False), workers=8, timeout=1500,
                          label=f"MC:ThreadPool_MC safety items<={si} threads<={st_}")
                li, lt = ck.pick((2, 2), (3, 2))
                ck.mc("ThreadPool_MC", cfg_text=mc_cfg(li, lt, True), workers=ck.pick(2, 4), timeout=ck.pick(200, 1500),
                      label=f"MC:ThreadPool_MC safety+liveness items<={li} threads<={lt}")
                if not ck.quick:
                    bad = ck.mc("ThreadPool_MC", cfg_text=mc_cfg(2, 2, False, rule="one"), workers=1, timeout=200, expect_ok=False,
                                label="MC:ThreadPool_MC single shared sentinel (must violate)")
                    if bad.violated != "NoStuck":
                        raise tlc.MachineryError(f"single-sentinel variant was not rejected as expected: {bad.violated}")
                    bad = ck.mc("ThreadPool_MC", cfg_text=mc_cfg(2, 2, False, mayfail=False, quit_=True), workers=1, timeout=200,
                                expect_ok=False, label="MC:ThreadPool_MC worker stops consuming after an empty item (must violate)")
                    if bad.violated != "ExactlyOnceAtReturn":
                        raise tlc.MachineryError(f"quitting-worker variant was not rejected as expected: {bad.violated}")
                    bad = ck.mc("ThreadPool_MC", cfg_text=mc_cfg(2, 2, False, mayfail=False, idle=True), workers=1, timeout=200,
                                expect_ok=False, label="MC:ThreadPool_MC worker takes an empty queue for the end (must violate)")
                    if bad.violated != "ExactlyOnceAtReturn":
                        raise tlc.MachineryError(f"idle-quitting variant was not rejected as expected: {bad.violated}")
                # 2. spec -> code
                mi, mt = ck.pick((3, 3), (4, 3))
                shapes = ck.export("ThreadPool_Export", cfg_text=f"CONSTANTS\n MaxItems = {mi}\n MaxThreads = {mt}\n")
                ck.exhaustive = False
                ck.extra["call_shapes_enumerated"] = len(shapes)
                reps = ck.pick(1, 3)
                slow = []
                for c in shapes:
                    case = dict(n=c["n"], threads=c["threads"], haslen=c["haslen"], style=c["style"], out=list(c["out"]),
                                kinds=list(c["kinds"]), pauses=list(c["pauses"]))
                    if case["pauses"]:
                        if len(slow) % 4 == 0:
                            case["pause_s"] = LONG_PAUSE
                        slow.append((case, 7))
                        continue
                    for k in range(reps):
                        execute(case, 1000 * k + 7)
                ck.extra["slow_producer_shapes"] = len(slow)
                execute_slow(slow)
                ck.sample(dict(direction="spec->code", shape=shapes[len(shapes) // 2]))
                # 3. code -> spec
                r_ = rng(41)
                for k in range(ck.pick(250, 2000)):
                    n = r_.choice([0, 1, 2, 3, 5, 8, 13, 21, 34, 50])
                    case = dict(n=n, threads=r_.randint(1, 8), haslen=r_.random() < 0.5, style=r_.choice(["gen", "ret", "regen"]),
                                out=[r_.choice([0, 1, 1, 2]) for _ in range(n)])
                    if case["style"] == "regen":  # metadata regeneration with failing packages
                        case["kinds"] = [r_.choice(["ok", "ok", "meta", "err"]) for _ in range(n)]
                        case["out"] = [1 if k_ == "err" else 0 for k_ in case["kinds"]]
                    if r_.random() < 0.1:
                        case["fail_at"] = r_.randint(0, n)
                    execute(case, r_.randint(0, 10**6))
                slow = []
                for k in range(ck.pick(12, 150)):  # slow producers: one or two pauses anywhere in a longer input
                    n = r_.randint(1, 20)
                    case = dict(n=n, threads=r_.randint(1, 8), haslen=r_.random() < 0.5, style=r_.choice(["gen", "ret", "regen"]),
                                out=[r_.choice([0, 1, 1, 2]) for _ in range(n)], pauses=sorted(r_.sample(range(1, n + 2), r_.randint(1, min(2, n)))))
                    if case["style"] == "regen":
                        case["kinds"] = [r_.choice(["ok", "ok", "meta", "err"]) for _ in range(n)]
                        case["out"] = [1 if k_ == "err" else 0 for k_ in case["kinds"]]
                    if k % 3 == 0:
                        case["pause_s"] = LONG_PAUSE
                    slow.append((case, r_.randint(0, 10**6)))
                execute_slow(slow)
                ck.sample(dict(direction="code->spec", call={k: v for k, v in runs[-1][0].items() if k != "out"},
                               log=[{k: v for k, v in e.items() if k in ("ev", "item", "w", "a", "b")}
                                    for e in events if e["tid"] == len(runs) - 1][:12]))
        except StopIteration:
            pass  # three calls did not return: stop producing more (they are judged below)
    finally:
        sys.setswitchinterval(old_si)

    verdicts = []
    lo = 0
    while lo < len(events):  # chunks end on run boundaries
        hi = min(len(events), lo + 150000)
        while hi < len(events) and events[hi]["i"] != 0:
            hi += 1
        verdicts += ck.trace("ThreadPool_Trace", events[lo:hi], label=f"Trace:ThreadPool_Trace[{lo}:{hi}]", timeout=1500)
        lo = hi
    seen = set()
    for v in verdicts:
        case, seed, raised = runs[v["tid"]]
        if v["clause"] in ("OutsideDomain", "UnknownEvent"):
            raise tlc.MachineryError(f"driver produced a malformed run: {case} {v}")
        if (v["tid"], v["clause"]) in seen:
            continue
        seen.add((v["tid"], v["clause"]))
        ck.violation(v["clause"], dict(case=case, seed=seed, exc=raised, at_event=v["i"], n=case["n"], threads=case["threads"],
                                       haslen=case["haslen"], style=case["style"]))
