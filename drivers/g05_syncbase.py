"""G05 (growth) — the syncer framework: URI grammar -> syncer, autodetection, initial-vs-update,
the rsync retry machine and the timestamp gate (src/pkgcore/sync/base.py, rsync.py, git.py, git_svn.py,
hg.py, bzr.py, cvs.py, svn.py, darcs.py, sqfs.py; tar.py only as far as it is selected).

MC          : SyncBase_MC — one repository + syncer object under histories of sync() calls (Call, Resolve,
              Attempt per address, GateOk / FullOk / PhaseFail, Restart, RemoteAdvance, EnvTree, VcsCall);
              invariants BoundedAttempts, Rotation, OnlyRetryableRetried, SuccessIsReal, FailureIsReported,
              SkipIsFresh, StampHonest, CacheCoherent; action properties ForceNeverSkips, CacheMoves,
              GateKeepsDisk, InitialOnlyWhenAbsent, UpdateOnlyInDir.  Vacuity guards: RestoreAlways = FALSE
              (the shipped restore) must break StampHonest, FatalStopsRun = FALSE must break OnlyRetryableRetried.
              SyncBase_Export evaluates the table laws NoTies and LongerTagWins.
spec -> code: SyncBase_Export enumerates sync URIs x installed tools (GenericSyncer) and checkouts
              (AutodetectSyncer); SyncBase_Sim (TLC -simulate) chooses behaviours of SyncBase_MC whose inputs
              (calls, resolved addresses, exit codes, rewritten stamps, restarts, tree changes) are replayed on
              the real classes inside a scripted world.
code -> spec: seeded random URIs / checkouts / worlds / histories on the real classes.
Both kinds of execution are judged by SyncBase_Trace (clauses in its header); Python only renders
(chunks -> URI strings, stamps -> timestamp.chk lines, fake tools in a private PATH), calls pkgcore and
projects (exception class names, uids, argv of every spawn, stamp on disk in minutes).

The world: PATH holds only fake tools (so availability is what the case says; `bzr info` / `svn info` are
real child processes of the fake scripts), snakeoil's spawn is wrapped by a recorder that returns the scripted
exit code and plays the tool's effect on disk (clone creates the directory, rsync rewrites
metadata/timestamp.chk / the gate's scratch file), socket.getaddrinfo is scripted.  Nothing touches the network.

Domain / carve-outs: every case starts from a fresh process as far as the per-class tool probe cache
(`_disabled`) is concerned (the driver clears it); CVS roots with local users and URIs of the form a:b::rest are
"Unspecified"; the timestamp syncer is driven without proxy / rsh / local user (its gate fetch ignores them)
and under TZ=UTC with +0000 stamps (current_timestamp's zone arithmetic is not modelled); http/sqfs/tar
transfers are not run (C47 covers tar).
"""
import os
import pwd
import shutil
import socket
import time
from concurrent.futures import ThreadPoolExecutor

from pylib import tlc
from pylib.common import mktmp, rng, seed, use_repo

JAVA_PATH = os.environ.get("PATH", "")
TOOLS = ["bzr", "cvs", "darcs", "git", "hg", "svn", "tar"]
INFO_URL = {"bzr": "http://bzrhost/branch", "svn": "http://svnhost/trunk"}
BASE_EPOCH = 1_700_000_040  # multiple of 60: stamp m = BASE_EPOCH + 60 m seconds
STAMP_FMT = "%a, %d %b %Y %H:%M:%S +0000"
ADDRS = [dict(ip="10.0.0.1", v6=False), dict(ip="fe80::2", v6=True), dict(ip="10.0.0.3", v6=False),
         dict(ip="10.0.0.4", v6=False), dict(ip="2001:db8::5", v6=True), dict(ip="10.0.0.6", v6=False),
         dict(ip="10.0.0.7", v6=False)]
VCS_URIS = {
    "git": ["git+ssh://host/repo.git", "git://host/repo", "https://host/repo.git", "git+ssh://nobody::git@host/r"],
    "git_svn": ["git+svn+http://host/repo", "git+svn://host/repo"],
    "hg": ["hg+http://host/repo", "mercurial+ssh://nobody::hg@host/r", "hg+//"],
    "bzr": ["bzr+lp:project", "bzr+http://host/branch"],
    "darcs": ["darcs+http://host/repo"],
    "cvs": ["cvs+ssh://host:module", "cvs://host:module", "cvs+pserver://host:module"],
    "svn": ["svn+http://host/repo", "svn://host/repo"],
}
SIM_CONSTS = """  Kinds = {%s}
  Retries = 2
  GateRetries = 5
  MaxAddrs = 3
  Stamps = {0, 25, 60, 90}
  Codes = {0, 1, 11, 12, 30}
  MaxCalls = 4
  Fwd = 25
  Neg = 60
  RestoreAlways = TRUE
  FatalStopsRun = TRUE
"""
MC_INVS = ("INVARIANT TypeOK\nINVARIANT BoundedAttempts\nINVARIANT Rotation\nINVARIANT OnlyRetryableRetried\n"
           "INVARIANT SuccessIsReal\nINVARIANT FailureIsReported\nINVARIANT SkipIsFresh\nINVARIANT StampHonest\n"
           "INVARIANT CacheCoherent\nPROPERTY ForceNeverSkips\nPROPERTY CacheMoves\nPROPERTY GateKeepsDisk\n"
           "PROPERTY InitialOnlyWhenAbsent\nPROPERTY UpdateOnlyInDir\n")
GUARDS = [({"RestoreAlways": "FALSE"}, "StampHonest"), ({"FatalStopsRun": "FALSE"}, "OnlyRetryableRetried")]


def mc_cfg(consts, calls, retries, gate, addrs):
    c = dict(RestoreAlways="TRUE", FatalStopsRun="TRUE")
    c.update(consts)
    return (f'SPECIFICATION Spec\nCONSTANTS\n  Kinds = {{"vcs", "rsync", "ts"}}\n  Retries = {retries}\n  GateRetries = {gate}\n'
            f"  MaxAddrs = {addrs}\n  Stamps = {{0, 25, 60, 90}}\n  Codes = {{0, 1, 11, 30}}\n  MaxCalls = {calls}\n"
            f"  Fwd = 25\n  Neg = 60\n  RestoreAlways = {c['RestoreAlways']}\n  FatalStopsRun = {c['FatalStopsRun']}\n" + MC_INVS)


# ------------------------------------------------------------------------------------------------
class Env:
    """The scripted surroundings of the syncer classes (one per driver run)."""

    def __init__(self):
        from snakeoil.process import spawn as spawn_mod

        from pkgcore import os_data
        from pkgcore.sync import base, bzr, cvs, darcs, git, git_svn, hg, rsync, sqfs, svn, tar

        self.base, self.rsync, self.os_data = base, rsync, os_data
        self.classes = dict(bzr=bzr.bzr_syncer, cvs=cvs.cvs_syncer, darcs=darcs.darcs_syncer, git=git.git_syncer,
                            git_svn=git_svn.git_svn_syncer, hg=hg.hg_syncer, sqfs=sqfs.sqfs_syncer, svn=svn.svn_syncer,
                            tar=tar.tar_syncer)
        self.clsname = {v: k for k, v in self.classes.items()}
        self.clsname[base.DisabledSyncer] = "disabled"
        self.root = mktmp("g05")
        self.bindirs = {}
        self.nworld = 0
        self.spawn_mod = spawn_mod
        self.real_spawn = spawn_mod.spawn
        self.real_gai = socket.getaddrinfo
        self.saved_env = dict(os.environ)
        os.environ["TZ"] = "UTC"
        time.tzset()
        os.environ["G05_SECRET"] = "must-not-leak"
        self.hook = None  # callable(cmd, kwargs) -> exit code, installed by the running world
        self.gai_hook = None
        spawn_mod.spawn = self._spawn
        socket.getaddrinfo = self._gai
        self.nobody = pwd.getpwnam("nobody")
        self.daemon = pwd.getpwnam("daemon")
        self.ids = dict(proc_uid=os_data.uid, proc_gid=os_data.gid, portage_uid=os_data.portage_uid,
                        portage_gid=os_data.portage_gid)

    def close(self):
        self.spawn_mod.spawn = self.real_spawn
        socket.getaddrinfo = self.real_gai
        os.environ.clear()
        os.environ.update(self.saved_env)
        time.tzset()

    def _spawn(self, cmd, **kw):
        if kw.get("returnpid"):
            # `bzr info` / `svn info` (spawn_get_output): a real child process running the fake tool.  Same
            # contract as snakeoil's spawn(returnpid=True), but through posix_spawn: forking this (large)
            # interpreter a few hundred times costs minutes on a loaded machine.
            from snakeoil.process import find_binary

            binary = find_binary(cmd[0])
            acts = [(os.POSIX_SPAWN_DUP2, src, trg) for trg, src in (kw.get("fd_pipes") or {}).items() if trg != src]
            pid = os.posix_spawn(binary, [os.path.basename(binary), *cmd[1:]], kw.get("env") or {}, file_actions=acts)
            return [pid]
        if self.hook is None:
            raise tlc.MachineryError(f"unscripted spawn {cmd!r}")
        return self.hook(list(cmd), kw)

    def _gai(self, host, *a, **kw):
        if self.gai_hook is None:
            raise OSError(2, "unscripted name resolution")
        return self.gai_hook(host, *a, **kw)

    # ---- fake tools ----
    def bindir(self, bins, ssh=True, info=("bzr", "svn"), rsync=True):
        key = (tuple(sorted(bins)), bool(ssh), tuple(sorted(info)), bool(rsync))
        d = self.bindirs.get(key)
        if d is None:
            d = os.path.join(self.root, f"bin{len(self.bindirs)}")
            os.makedirs(d)
            names = list(key[0]) + (["ssh"] if ssh else []) + (["rsync"] if rsync else [])
            for n in names:
                body = "#!/bin/sh\n"
                if n in INFO_URL:
                    label = "parent branch" if n == "bzr" else "URL"
                    if n in key[2]:
                        body += f'if [ "$1" = info ]; then echo "  checkout of x"; echo "  {label}: {INFO_URL[n]}"; exit 0; fi\n'
                    else:
                        body += 'if [ "$1" = info ]; then echo "not a checkout"; exit 3; fi\n'
                body += "exit 0\n"
                p = os.path.join(d, n)
                with open(p, "w") as f:
                    f.write(body)
                os.chmod(p, 0o755)
            self.bindirs[key] = d
        return d

    def fresh_process(self, bindir, sock=False):
        """what a new pmaint process would see: PATH, SSH_AUTH_SOCK, no per-class probe cache"""
        os.environ["PATH"] = bindir
        if sock:
            os.environ["SSH_AUTH_SOCK"] = "/tmp/agent.sock"
        else:
            os.environ.pop("SSH_AUTH_SOCK", None)
        for c in self.classes.values():
            if "_disabled" in c.__dict__:
                delattr(c, "_disabled")

    def newdir(self):
        self.nworld += 1
        d = os.path.join(self.root, f"w{self.nworld}")
        os.makedirs(d)
        return d


def chars(s):
    return list(s)


def excname(e):
    return type(e).__name__


# ------------------------------------------------------------------------------------------------ select
def run_select(env, case, tid):
    """GenericSyncer(basedir, uri) for one spec-chosen / random case."""
    uri = "".join(case["uri"])
    usersync = bool(case.get("usersync", False))
    base_exists = bool(case.get("base_exists", False))
    w = env.newdir()
    basedir = os.path.join(w, "repo")
    bst = dict(base_uid=0, base_gid=0)
    if base_exists:
        os.makedirs(basedir)
        os.chown(basedir, env.daemon.pw_uid, env.daemon.pw_gid)
        bst = dict(base_uid=env.daemon.pw_uid, base_gid=env.daemon.pw_gid)
    env.fresh_process(env.bindir(case["bins"], ssh=case["ssh"]))
    ev = dict(tid=tid, i=0, ev="select", uri=case["uri"], bins=list(case["bins"]), ssh=bool(case["ssh"]),
              users=[chars("nobody"), chars("root"), chars("daemon")],
              uids=[dict(name=chars(n), uid=pwd.getpwnam(n).pw_uid) for n in ("nobody", "root", "daemon")],
              usersync=usersync, base_exists=base_exists, got_cls="-", got_err="-", got_uri=[], got_uid=-1, got_gid=-1,
              **bst, **env.ids)
    try:
        s = env.base.GenericSyncer(basedir, uri, usersync=usersync)
        ev.update(got_cls=env.clsname.get(type(s), type(s).__name__), got_uri=chars(s.uri), got_uid=int(s.uid), got_gid=int(s.gid))
    except Exception as e:  # judged by the trace spec
        ev["got_err"] = excname(e)
    shutil.rmtree(w, ignore_errors=True)
    return ev


# ------------------------------------------------------------------------------------------------ detect
def run_detect(env, case, tid):
    w = env.newdir()
    basedir = os.path.join(w, "repo")
    os.makedirs(basedir)
    os.chown(basedir, env.daemon.pw_uid, env.daemon.pw_gid)
    owner = case["owner"]
    ouid = dict(root=0, nobody=env.nobody.pw_uid, unknown=4242)[owner]
    for m in case["markers"]:
        p = os.path.join(basedir, m)
        os.makedirs(p, exist_ok=True)
    for m in case["markers"]:
        os.chown(os.path.join(basedir, m), ouid, ouid if owner != "unknown" else 4243)
    bd = env.bindir(case["bins"], info=case["info"])
    env.fresh_process(bd)
    usersync = bool(case["usersync"])
    ev = dict(tid=tid, i=0, ev="detect", markers=list(case["markers"]), bins=list(case["bins"]), info=list(case["info"]),
              owner=owner, owner_named=owner != "unknown", owner_uid=ouid, info_url="-", usersync=usersync, base_exists=True,
              base_uid=env.daemon.pw_uid, base_gid=env.daemon.pw_gid, basedir=basedir + "/", bin="-",
              got_cls="-", got_err="-", got_uri="-", got_uid=-1, got_gid=-1, spawns=[], res="-", **env.ids)
    spawns = []

    def hook(cmd, kw):
        spawns.append(dict(argv=cmd, cwd=kw.get("cwd") or "-", uid=int(kw.get("uid", -1)), gid=int(kw.get("gid", -1)),
                           env=sorted(kw.get("env") or {})))
        return 0

    try:
        s = env.base.AutodetectSyncer(basedir, usersync=usersync)
        cls = env.clsname.get(type(s), type(s).__name__)
        ev.update(got_cls=cls, got_uri=s.uri or "-", got_uid=int(s.uid), got_gid=int(s.gid))
        if cls in INFO_URL:
            ev["info_url"] = INFO_URL[cls]
        if cls in TOOLS or cls == "git_svn":
            ev["bin"] = os.path.join(bd, "git" if cls == "git_svn" else cls)
        env.hook = hook
        try:
            ev["res"] = "true" if s.sync() else "false"
        finally:
            env.hook = None
        ev["spawns"] = spawns
    except Exception as e:
        ev["got_err"] = excname(e)
    shutil.rmtree(w, ignore_errors=True)
    return ev


# ------------------------------------------------------------------------------------------------ stateful worlds
def stamp_text(m):
    return time.strftime(STAMP_FMT, time.gmtime(BASE_EPOCH + 60 * m))


def stamp_of_value(v):
    if v is None:
        return -1
    x = (v - BASE_EPOCH) / 60
    return int(x) if x == int(x) and abs(x) < 10**6 else -3


class World:
    """One repository directory + one syncer object, driven by a list of actions (the vocabulary of
    SyncBase_Sim's hist).  params: kind vcs|rsync|ts and the constructor arguments."""

    def __init__(self, env, params, tid):
        self.env, self.p, self.tid = env, params, tid
        self.dir = env.newdir()
        self.basedir = os.path.join(self.dir, "repo")
        self.events = []
        self.i = 0
        self.hist = []
        self.hlen = {}
        p = params
        self.kind = p["kind"]
        self.sock = bool(p.get("sock", False))
        tools = TOOLS if self.kind != "vcs" or not p.get("nossh") else TOOLS
        self.bd = env.bindir(tools, ssh=True)
        env.fresh_process(self.bd, sock=self.sock)
        if self.kind == "vcs":
            self.set_tree(p["tree"])
        else:
            os.makedirs(self.basedir)
            self.remote = p["remote"]
            self.write_disk(p["disk"])
        self.syncer = None
        self.build()

    # ---- disk ----
    def stamp_path(self):
        return os.path.join(self.basedir, "metadata", "timestamp.chk")

    def write_disk(self, m):
        if m < 0:
            if os.path.exists(self.stamp_path()):
                os.unlink(self.stamp_path())
            return
        os.makedirs(os.path.dirname(self.stamp_path()), exist_ok=True)
        with open(self.stamp_path(), "w") as f:
            f.write(stamp_text(m) + "\n")

    def read_disk(self):
        try:
            with open(self.stamp_path()) as f:
                txt = f.read().strip()
        except (FileNotFoundError, NotADirectoryError):
            return -1
        try:
            import calendar

            return stamp_of_value(calendar.timegm(time.strptime(txt, STAMP_FMT)))
        except ValueError:
            return -2

    def tree(self):
        if not os.path.lexists(self.basedir):
            return "absent"
        return "dir" if os.path.isdir(self.basedir) else "file"

    def set_tree(self, t):
        if os.path.isdir(self.basedir):
            shutil.rmtree(self.basedir)
        elif os.path.lexists(self.basedir):
            os.unlink(self.basedir)
        if t == "dir":
            os.makedirs(self.basedir)
        elif t == "file":
            with open(self.basedir, "w") as f:
                f.write("x")

    # ---- the syncer object (a new one = a new process) ----
    def build(self):
        p, env = self.p, self.env
        if self.kind == "vcs":
            self.syncer = env.base.GenericSyncer(self.basedir, p["uri"], opts=" ".join(p.get("opts", [])))
            return
        cls = env.rsync.rsync_timestamp_syncer if self.kind == "ts" else env.rsync.rsync_syncer
        scheme = "rsync+ssh://" if p.get("rsh") else "rsync://"
        uri = scheme + p.get("localuser", "") + p["user"] + p["host"] + "/gentoo-portage"
        kw = dict(retries=p["retries"])
        if "retries_text" in p:
            kw["retries"] = p["retries_text"]
        for k in ("conn_timeout", "compress", "excludes", "includes", "opts", "extra_opts", "proxy"):
            if k in p:
                kw[k] = p[k]
        self.syncer = cls(self.basedir, uri, **kw)
        if self.kind == "ts":
            self.emit(dict(ev="construct", ts=True, disk=self.read_disk(), got_cached=stamp_of_value(self.syncer.last_timestamp)))

    def emit(self, ev):
        self.i += 1
        ev.update(tid=self.tid, i=self.i)
        self.events.append(ev)
        self.hlen[self.i] = len(self.hist)

    # ---- one sync() call with its scripted surroundings ----
    def call(self, force, v, dns, script):
        env, s = self.env, self.syncer
        spawns, fams = [], []
        dns = list(dns)
        script = list(script)
        pos = dict(dns=0, spawn=0)
        base_slash = self.basedir + "/"

        def hook(cmd, kw):
            k = pos["spawn"]
            pos["spawn"] += 1
            step = script[k] if k < len(script) else dict(code=0, wrote=False)
            rec = dict(argv=list(cmd), cwd=kw.get("cwd") or "-", uid=int(kw.get("uid", -1)), gid=int(kw.get("gid", -1)),
                       env=sorted(kw.get("env") or {}))
            if self.kind == "vcs":
                # the tool's effect: a (possibly failing) clone leaves the directory behind
                if not os.path.lexists(self.basedir) and (step["code"] == 0 or step["wrote"]):
                    os.makedirs(self.basedir)
            else:
                dest = cmd[2]
                if dest == base_slash:
                    if step["code"] == 0 or step["wrote"]:
                        self.write_disk(self.remote)
                else:
                    inside = os.path.realpath(dest).startswith(os.path.realpath(self.basedir) + os.sep)
                    if not inside:
                        rec["argv"][2] = "TMP"
                    if step["code"] == 0:  # the scratch copy of the mirror's stamp
                        with open(dest, "w") as f:
                            f.write(stamp_text(self.remote) + "\n")
            spawns.append(rec)
            return step["code"]

        def gai(host, port, family=0, type=0, *a, **kw):
            k = pos["dns"]
            pos["dns"] += 1
            d = dns[k] if k < len(dns) else dict(ok=True, addrs=ADDRS[:1])
            fams.append("inet6" if family == socket.AF_INET6 else "inet")
            if not d["ok"]:
                raise socket.gaierror(socket.EAI_NONAME, "Name or service not known")
            return [((socket.AF_INET6 if x["v6"] else socket.AF_INET), socket.SOCK_STREAM, 6, "",
                     (x["ip"], 0, 0, 0) if x["v6"] else (x["ip"], 0)) for x in d["addrs"]]

        pre_tree = self.tree() if self.kind == "vcs" else "dir"
        disk_before = self.read_disk() if self.kind != "vcs" else -1
        cached_before = stamp_of_value(getattr(s, "last_timestamp", None)) if self.kind == "ts" else -1
        kwargs = {}
        if force:
            kwargs["force"] = True
        if v != 9:
            kwargs["verbosity"] = v
        env.hook, env.gai_hook = hook, gai
        try:
            ret = s.sync(**kwargs)
            res = "true" if ret is True else "false" if ret is False else repr(ret)
        except Exception as e:
            res = excname(e)
        finally:
            env.hook = env.gai_hook = None
        p = self.p
        common = dict(force=bool(force), v=v, basedir=base_slash, sock=self.sock, uid=int(s.uid), gid=int(s.gid),
                      spawns=spawns, res=res)
        if self.kind == "vcs":
            cls = env.clsname[type(s)]
            tool = "git" if cls == "git_svn" else cls
            self.emit(dict(ev="vcs", cls=cls, tree=pre_tree, opts=list(p.get("opts", [])), code=script[0]["code"],
                           bin=os.path.join(self.bd, tool), uri=s.uri, rsh=bool(getattr(s, "rsh", None)), **common))
        else:
            self.emit(dict(ev="rsync", ts=self.kind == "ts", retries=int(p["retries"]),
                           gate_retries=int(env.rsync.rsync_syncer.default_retries), proxy=p.get("proxy", "-"),
                           rsh=os.path.join(self.bd, "ssh") if p.get("rsh") else "-",
                           pre="rsync://" + p["user"], host=p["host"], post="/gentoo-portage/",
                           opts=list(p.get("opts", [])), extra=list(p.get("extra_opts", [])), compress=bool(p.get("compress", False)),
                           ct=str(int(p.get("conn_timeout", env.rsync.rsync_syncer.default_conn_timeout))),
                           excludes=list(p.get("excludes", [])), includes=list(p.get("includes", [])),
                           bin=os.path.join(self.bd, "rsync"), proc_uid=env.ids["proc_uid"], proc_gid=env.ids["proc_gid"],
                           fwd=int(env.rsync.rsync_timestamp_syncer.forward_sync_delay) // 60,
                           neg=int(env.rsync.rsync_timestamp_syncer.negative_sync_delay) // 60,
                           has_ipv6=bool(socket.has_ipv6), remote=self.remote, disk_before=disk_before,
                           cached_before=cached_before, dns=dns, script=script, fams=fams, disk_after=self.read_disk(),
                           cached_after=stamp_of_value(getattr(s, "last_timestamp", None)) if self.kind == "ts" else -1,
                           **common))

    # ---- a whole history ----
    def run(self, actions):
        k = 0
        n = len(actions)
        while k < n:
            a = actions[k]
            k += 1
            self.hist.append(a)
            t = a["a"]
            if t == "remote":
                self.remote = a["s"]
            elif t == "restart":
                self.env.fresh_process(self.bd, sock=self.sock)
                self.build()
            elif t == "tree":
                self.set_tree(a["t"])
            elif t == "vcscall":
                self.call(a["f"], a["n"], [], [dict(code=a["c"], wrote=bool(a["w"]))])
            elif t == "call":
                dns, script = [], []
                while k < n and actions[k]["a"] in ("resolve", "dnsfail", "attempt"):
                    b = actions[k]
                    k += 1
                    self.hist.append(b)
                    if b["a"] == "resolve":
                        dns.append(dict(ok=True, addrs=(b.get("addrs") or ADDRS[: b["n"]])))
                    elif b["a"] == "dnsfail":
                        dns.append(dict(ok=False, addrs=[]))
                    else:
                        script.append(dict(code=b["c"], wrote=bool(b["w"])))
                # the environment beyond what the behaviour fixed (cut off by the depth bound, or
                # never asked for): further resolutions succeed with one address, further runs exit 0
                while len(dns) < 3:
                    dns.append(dict(ok=True, addrs=ADDRS[:1]))
                while len(script) < 14:
                    script.append(dict(code=0, wrote=True))
                self.call(a["f"], a["n"], dns, script)
            # "init", and anything else, carries no step

    def cleanup(self):
        shutil.rmtree(self.dir, ignore_errors=True)


def world_params_from_init(e, r_):
    """world of a SyncBase_Sim behaviour (its first hist entry)"""
    if e["k"] == "vcs":
        return dict(kind="vcs", tree=e["t"], uri=r_.choice(VCS_URIS[e["x"]]), opts=r_.choice([[], ["--depth", "1"], ["-x"]]),
                    sock=r_.random() < 0.5)
    return dict(kind=e["k"], host=e["x"], user=e["y"], retries=2, disk=e["s"], remote=e["n"], sock=r_.random() < 0.5)


def random_world(r_):
    k = r_.choice(["vcs", "rsync", "rsync", "ts", "ts"])
    if k == "vcs":
        cls = r_.choice(sorted(VCS_URIS))
        return dict(kind="vcs", tree=r_.choice(["absent", "dir", "file"]), uri=r_.choice(VCS_URIS[cls]),
                    opts=r_.choice([[], ["--depth", "1"], ["-x", "--foo=bar"]]), sock=r_.random() < 0.5)
    p = dict(kind=k, host=r_.choice(["mirror", "rsync", "a.b", "sync", "r"]), user=r_.choice(["", "", "mirror@", "bob@", "rsync@"]),
             retries=r_.choice([0, 1, 2, 3, 5, 7]), disk=r_.choice([-1, 0, 25, 60, 90, 121]), remote=r_.choice([0, 25, 26, 60, 85, 90, 150]),
             sock=r_.random() < 0.5)
    if r_.random() < 0.3:
        p["conn_timeout"] = r_.choice(["30", 5])
    if r_.random() < 0.3:
        p["extra_opts"] = r_.choice([["--ipv6"], ["-6", "--bwlimit=10"], ["--ipv4"]])
    if r_.random() < 0.2:
        p["opts"] = ["--recursive", "--timeout=60"]
    if r_.random() < 0.2:
        p["compress"] = True
    if r_.random() < 0.3:
        p["excludes"] = ["/metadata/cache"]
    if r_.random() < 0.2:
        p["includes"] = ["/local/keep"]
    if k == "rsync":
        if r_.random() < 0.25:
            p["proxy"] = "proxy.example:3128"
        if r_.random() < 0.25:
            p["rsh"] = True
        if r_.random() < 0.2 and not p["user"]:
            p["localuser"] = "nobody::"
    return p


def random_history(r_, p, steps):
    acts = []
    for _ in range(steps):
        if p["kind"] == "vcs":
            x = r_.random()
            if x < 0.3:
                acts.append(dict(a="tree", t=r_.choice(["absent", "dir", "file"])))
            else:
                acts.append(dict(a="vcscall", f=r_.random() < 0.3, n=r_.choice([-1, 0, 1, 2, 3, 9]), c=r_.choice([0, 0, 1, 2, 128]),
                                 w=r_.random() < 0.5))
            continue
        x = r_.random()
        if x < 0.15:
            acts.append(dict(a="remote", s=r_.choice([0, 25, 26, 60, 61, 85, 90, 120, 150, 300])))
        elif x < 0.3 and p["kind"] == "ts":
            acts.append(dict(a="restart"))
        else:
            acts.append(dict(a="call", f=r_.random() < 0.3, n=r_.choice([-1, 0, 1, 2, 9])))
            for _ph in range(2):
                if r_.random() < 0.15:
                    acts.append(dict(a="dnsfail"))
                else:
                    n = r_.randint(1, 7)
                    addrs = r_.sample(ADDRS, n)
                    acts.append(dict(a="resolve", n=n, addrs=addrs))
                for _k in range(7):
                    acts.append(dict(a="attempt", c=r_.choice([0, 0, 1, 5, 10, 11, 12, 23, 30, 35, 255]), w=r_.random() < 0.5))
    return acts


def full_action(a):
    out = dict(a=a["a"], f=False, n=0, c=0, w=False, s=0, t="-")
    out.update(a)
    return out


# ------------------------------------------------------------------------------------------------ judging
class Judge:
    """SyncBase_Trace runs in the background (one JVM per batch) while the next batch is executed."""

    def __init__(self, ck):
        self.ck = ck
        self.pool = ThreadPoolExecutor(4)
        self.pending = []

    def submit(self, events, meta, label):
        if not events:
            return
        fut = self.pool.submit(tlc.trace_check, "SyncBase_Trace", events, env={"PATH": JAVA_PATH}, timeout=1500)
        time.sleep(0.1)
        self.pending.append((fut, events, meta, label))

    def finish(self):
        ck = self.ck
        for fut, events, meta, label in self.pending:
            verdicts, res = fut.result()
            ck.add_mc(label, res)
            ck.traces += len({e["tid"] for e in events})
            by = {(e["tid"], e["i"]): e for e in events}
            for v in verdicts:
                e = by[(v["tid"], v["i"])]
                if v["clause"] == "OutsideDomain":
                    raise tlc.MachineryError(f"generator left the domain: {meta.get((v['tid'], v['i']))}")
                d = dict(meta[(v["tid"], v["i"])])
                d["ev"] = e["ev"]
                obs = {k: e[k] for k in e if k.startswith("got_") or k in ("res", "disk_after", "cached_after", "disk_before", "cached_before")}
                if "spawns" in e:
                    obs["spawns"] = [" ".join(s["argv"][:4]) for s in e["spawns"]]
                d["observed"] = obs
                ck.violation(v["clause"], d)
        self.pending = []
        self.pool.shutdown()


def random_select_case(r_):
    pre = r_.choice(["", "git+", "git://", "git@", "git+svn+", "git+svn://", "hg+", "mercurial+", "bzr+", "darcs+", "svn://",
                     "svn+", "cvs+", "cvs://", "tar+", "sqfs+", "rsync://", "http+svn://", "https+svn://", "file://", "GIT+",
                     "git+svn", "tar+ftp://", "svn+ssh+"])
    sub = r_.choice(["", "http://", "https://", "ssh://", "://", ":", "pserver://", "anon://", "ssh:", "ext://", "ftp://"])
    usr = r_.choice(["", "", "", "nobody::", "nobody::@", "ghost::", "daemon::u@", "root::", "::"])
    tail = r_.choice(["h/r", "h:m", "example.org/repo/sub", "h", "user@h:path", "h/a.git/b"])
    ext = r_.choice(["", "", ".git", ".tar.gz", ".tar.bz2", ".tar.xz", ".tar", ".sqfs", ".git/", ".tar.gz.git"])
    uri = pre + sub + usr + tail + ext
    bins = [t for t in TOOLS if r_.random() < 0.85]
    return dict(ev="select", uri=chars(uri), bins=bins, ssh=r_.random() < 0.7, usersync=r_.random() < 0.4,
                base_exists=r_.random() < 0.5)


def random_detect_case(r_):
    markers = [m for m in [".bzr", "CVS", ".git", ".hg", ".svn"] if r_.random() < 0.35]
    if ".git" in markers and r_.random() < 0.4:
        markers.append(".git/svn")
    return dict(ev="detect", markers=markers, bins=[t for t in TOOLS if r_.random() < 0.8],
                info=[t for t in ("bzr", "svn") if r_.random() < 0.6], owner=r_.choice(["root", "nobody", "unknown"]),
                usersync=r_.random() < 0.5)


# ------------------------------------------------------------------------------------------------
def run(ck):
    use_repo()
    ck.rule = ("(a) sync URIs (TLC-enumerated chunk products and seeded random ones) x installed tools through the real "
               "GenericSyncer; (b) checkouts (marker directories, owner, tools, `info` outcome) through AutodetectSyncer; "
               "(c) histories of sync() calls on real VCS / rsync / rsync_timestamp syncers in a scripted world, chosen by TLC "
               "simulation of SyncBase_Sim and by a seeded generator; non-trivial = distinct URI whose outcome is a syncer or a "
               "UriError raised by the selected class / distinct checkout with at least one marker / distinct history with at "
               "least one call that spawned something")
    ck.assumptions = [
        "every case is a fresh process with respect to the per-class tool probe (`_disabled` is cleared by the driver)",
        "snakeoil.process.spawn.spawn and socket.getaddrinfo are wrapped: exit codes, addresses and the tools' effect on disk "
        "(clone creates the directory, rsync rewrites metadata/timestamp.chk, the gate fetch fills its scratch file) are scripted",
        "TZ=UTC and +0000 stamps; stamps are whole minutes",
        "timestamp syncer without proxy / rsh / local user; successful transfers always carry the mirror's stamp",
    ]
    env = Env()
    try:
        _run(ck, env)
    finally:
        env.close()


def _run(ck, env):
    r_ = rng(5)
    if ck.replay_case:
        d = ck.replay_case["detail"]
        events, meta = [], {}
        if d["ev"] in ("select", "detect"):
            ev = (run_select if d["ev"] == "select" else run_detect)(env, d["case"], 0)
            events.append(ev)
            meta[(0, 0)] = dict(case=d["case"])
        else:
            w = World(env, d["world"], 0)
            w.run(d["history"])
            events += w.events
            for e in w.events:
                meta[(0, e["i"])] = dict(world=d["world"], history=d["history"])
            w.cleanup()
        jd = Judge(ck)
        jd.submit(events, meta, "Trace:replay")
        jd.finish()
        ck.count()
        ck.nontriv("replay")
        ck.nontriv("replay2")
        ck.sample(d)
        return

    jd = Judge(ck)
    java = {"PATH": JAVA_PATH}  # the worlds run with a PATH of fake tools only
    t0 = time.time()
    phases = ck.extra.setdefault("phase_wall_s", {})

    def mark(name):
        phases[name] = round(time.time() - t0, 1)

    # ---- 1. the design: TLC jobs that do not depend on pkgcore run side by side ----
    jobs = {}
    pool = ThreadPoolExecutor(7)

    class ex:  # staggered submission: tlc.run numbers its scratch directories with a plain counter
        @staticmethod
        def submit(fn, *a, **kw):
            f = pool.submit(fn, *a, **kw)
            time.sleep(0.1)
            return f

    jobs["export"] = ex.submit(tlc.export_cases, "SyncBase_Export", cfg_text=f'CONSTANT Tier = "{ck.tier}"\n', timeout=900, env=java)
    jobs["mc"] = ex.submit(tlc.run, "SyncBase_MC", cfg_text=mc_cfg({}, *ck.pick((3, 2, 2, 3), (8, 3, 3, 4))), workers=ck.pick(2, 8),
                           timeout=ck.pick(600, 3000), env=java)
    for consts, inv in GUARDS:
        jobs[("guard", inv)] = ex.submit(tlc.run, "SyncBase_MC", cfg_text=mc_cfg(consts, 3, 2, 2, 3), workers=1, timeout=600, env=java)
    nsim = ck.pick(120, 1000)
    D = ck.pick(22, 30)
    for kind in ("vcs", "rsync", "ts"):
        n = nsim if kind != "vcs" else nsim // 2
        jobs[("sim", kind)] = ex.submit(
            tlc.run, "SyncBase_Sim",
            cfg_text=("SPECIFICATION SimSpec\nCONSTANTS\n" + SIM_CONSTS % f'"{kind}"' + f"  D = {D}\n"
                      '  VcsClasses = {"git", "git_svn", "hg", "bzr", "darcs", "cvs", "svn"}\n'
                      '  Hosts = {"mirror", "rsync"}\n  UserParts = {"", "mirror@", "bob@"}\nINVARIANT Emit\n'),
            simulate=f"num={n}", depth=4 * D, seed=seed() + 5, workers=1, timeout=900, env=java)
    cases, eres = jobs["export"].result()
    ck.add_mc("Export+Laws:SyncBase_Export", eres)
    mark("export_done")

    # ---- 2. spec -> code, pure part ----
    events, meta = [], {}
    tid = 0
    for case in cases:
        if case["ev"] == "select":
            ev = run_select(env, case, tid)
            if ev["got_err"] in ("-", "UriError") and (ev["got_cls"] != "-" or any(ev["uri"][: len(p)] == list(p) for p in
                                                                                   ("git", "hg", "svn", "cvs", "tar", "sqfs", "bzr", "darcs", "merc"))):
                ck.nontriv(("sel", "".join(case["uri"]), tuple(case["bins"])))
        else:
            ev = run_detect(env, case, tid)
            if case["markers"]:
                ck.nontriv(("det", repr(case)))
        events.append(ev)
        meta[(tid, 0)] = dict(case=case)
        ck.count()
        tid += 1
    sel = [e for e in events if e["ev"] == "select" and e["got_cls"] != "-"]
    if sel:
        s0 = sel[len(sel) // 3]
        ck.sample(dict(direction="spec->code", uri="".join(s0["uri"]), cls=s0["got_cls"], effective="".join(s0["got_uri"]), uid=s0["got_uid"]))
    # ---- 3. code -> spec, pure part ----
    for _ in range(ck.pick(800, 8000)):
        case = random_select_case(r_)
        events.append(run_select(env, case, tid))
        meta[(tid, 0)] = dict(case=case)
        ck.count()
        ck.nontriv(("rsel", "".join(case["uri"]), tuple(case["bins"])))
        tid += 1
    for _ in range(ck.pick(200, 1500)):
        case = random_detect_case(r_)
        events.append(run_detect(env, case, tid))
        meta[(tid, 0)] = dict(case=case)
        ck.count()
        if case["markers"]:
            ck.nontriv(("rdet", repr(case)))
        tid += 1
    det = [e for e in events if e["ev"] == "detect" and e["got_cls"] not in ("-", "disabled")]
    if det:
        d0 = det[len(det) // 2]
        ck.sample(dict(direction="code->spec", markers=d0["markers"], owner=d0["owner"], cls=d0["got_cls"], uid=d0["got_uid"],
                       spawn=d0["spawns"][0]["argv"] if d0["spawns"] else None))
    mark("select_detect_executed")
    jd.submit(events, meta, "Trace:select+detect")

    # ---- the design runs have been going on in the background: collect them ----
    res = jobs["mc"].result()
    ck.add_mc("MC:SyncBase_MC", res)
    if res.violated:
        raise tlc.MachineryError(f"SyncBase_MC: model violates {res.violated}\n{res.out[-3000:]}")
    for consts, inv in GUARDS:
        g = jobs[("guard", inv)].result()
        ck.add_mc(f"MC:guard {consts}", g)
        if g.violated != inv:
            raise tlc.MachineryError(f"vacuity guard {consts}: expected TLC to violate {inv}, got {g.violated}")

    mark("mc_guards_done")

    # ---- 4. spec -> code, histories chosen by TLC ----
    events, meta = [], {}
    for kind in ("vcs", "rsync", "ts"):
        sim = jobs[("sim", kind)].result()
        ck.add_mc(f"Simulate:SyncBase_Sim kind={kind}", sim)
        behs = [p[1] for p in sim.tagged("BEH")]
        if len(behs) < 10:
            raise tlc.MachineryError(f"simulation ({kind}) produced only {len(behs)} behaviours\n{sim.out[-2000:]}")
        for beh in behs:
            params = world_params_from_init(beh[0], r_)
            acts = [full_action({k: v for k, v in a.items() if k in ("a", "f", "n", "c", "w", "s", "t")}) for a in beh[1:]]
            w = World(env, params, tid)
            w.run(acts)
            for e in w.events:
                meta[(tid, e["i"])] = dict(world=params, history=w.hist[: w.hlen[e["i"]]])
            events += w.events
            if any(e.get("spawns") for e in w.events):
                ck.nontriv(("sim", kind, repr(params), repr(acts)))
            ck.count()
            w.cleanup()
            tid += 1
        if kind == "ts" and behs:
            ck.sample(dict(direction="spec->code", world=params, history=[(a["a"], a["f"], a["n"], a["c"], a["w"], a["s"]) for a in acts][:12]))
    mark("sim_histories_executed")
    jd.submit(events, meta, "Trace:sim-histories")

    # ---- 5. code -> spec, random worlds and histories ----
    events, meta = [], {}
    for _ in range(ck.pick(250, 2500)):
        params = random_world(r_)
        acts = [full_action(a) for a in random_history(r_, params, r_.randint(2, 6))]
        try:
            w = World(env, params, tid)
        except Exception as e:
            raise tlc.MachineryError(f"cannot build world {params}: {e!r}")
        w.run(acts)
        for e in w.events:
            meta[(tid, e["i"])] = dict(world=params, history=w.hist[: w.hlen[e["i"]]])
        events += w.events
        if any(e.get("spawns") for e in w.events):
            ck.nontriv(("rnd", repr(params), repr(acts)))
        ck.count()
        w.cleanup()
        tid += 1
    rs = [e for e in events if e["ev"] == "rsync" and len(e["spawns"]) > 1]
    if rs:
        e0 = rs[0]
        ck.sample(dict(direction="code->spec", uri=e0["pre"] + e0["host"] + e0["post"], retries=e0["retries"],
                       attempts=[s["argv"][1] for s in e0["spawns"]], res=e0["res"]))
    mark("random_histories_executed")
    jd.submit(events, meta, "Trace:random-histories")
    jd.finish()
    pool.shutdown()
    mark("traces_judged")
