"""C43 — config section inheritance resolves to the nearest definition
(src/pkgcore/config/central.py ConfigManager._get_inherited_sections, collapse_section,
_ConfigStack.render_value).

MC          : ConfigInherit_MC — TLC builds every configuration over 3 names x 2 sources (bounded
              number of definitions / inherit entries); on each one the breadth-first queue order
              is compared with the declarative "shortest path, leftmost" reading (QueueIsNearest),
              the transcribed worklist of central.py with the specified outcome (WorklistAgrees),
              plus OwnValueWins and ShadowedOnlyBySelfInherit.
spec -> code: every configuration TLC reaches is printed and built as a real ConfigManager over
              dict sources (HardCodedConfigSection); the root section is collapsed.  A definition
              that sets the abstract key "class" gets its own callable and its own "k1" string, so
              the defining section of every resolved value is observable.
code -> spec: seeded random configurations (up to 5 names, 3 sources, 3 ordinary keys, longer
              inherit lists, self-inherit chains, cycles, missing targets).
live        : ConfigInherit_Live — ONE manager over time: histories of collapse(name) /
              add_config_source(source).  The specification of a read is the fresh collapse of the
              sources present at that moment, nothing else; the modelled design (cache of collapsed
              sections, dropped when a source is added) is checked against it (CacheCoherent,
              ReadIsFresh) and the design that keeps the cache is rejected.  TLC enumerates ALL
              histories (2 names, every source with inherit lists <= 1, <= 2 sources, 3 operations
              quick / 4 thorough); a seeded sample of those of the form read..add..read is replayed on a real manager,
              plus seeded random histories (up to 4 names / 4 sources / 10 operations).
              ConfigInherit_LiveTrace walks each history, accumulating the sources, and judges every
              read with the same JudgeRead; clauses of reads after an add carry the prefix AfterAdd_.
              If add_config_source itself raises, the rest of that history is not judged.
ConfigInherit_Trace: Error_not_reported, Unexpected_error, Unexpected_exception, Own_value_lost,
Not_nearest ("_Unspecified" marks inputs the specification leaves open; they are only counted).

Carve-outs: graphs that are neither trees nor cyclic (a name reachable twice / listed twice — the
code reports them as recursive), configurations where no reachable definition has a class (nothing
to collapse), collapsing a name without any definition.
"""
from pylib import tlc
from pylib.common import rng, use_repo

ORD_KEYS = ["k1", "k2", "k3"]


TRIP = dict(armed=False, skip=0, exc=KeyboardInterrupt, fired=False)
_trip_cls = []


def trip_section(basics):
    """A HardCodedConfigSection whose render_value can be made to fail once with a pass-through
    exception (what a flaky / remote section, Ctrl-C or a RecursionError does to a collapse)."""
    if not _trip_cls:
        class TripSection(basics.DictConfigSection):
            def render_value(self, central, name, arg_type):
                if TRIP["armed"]:
                    if TRIP["skip"] <= 0:
                        TRIP["armed"], TRIP["fired"] = False, True
                        raise TRIP["exc"]("injected while collapsing")
                    TRIP["skip"] -= 1
                return super().render_value(central, name, arg_type)

        _trip_cls.append(TripSection)
    return lambda d: _trip_cls[0](basics.convert_asis, d)


def make_source(mods, defs, trippable=False):
    """defs of ONE source: [{name, src, inh, keys}] -> {name: ConfigSection}."""
    central, basics, errors, configurable = mods
    section = trip_section(basics) if trippable else basics.HardCodedConfigSection
    out = {}
    for d in defs:
        sec = {}
        tag = f"{d['name']}@{d['src']}"
        if d["inh"] or d.get("explicit_empty_inherit"):
            sec["inherit"] = list(d["inh"])
        for k in d["keys"]:
            if k == "class":
                @configurable(types={x: "str" for x in ORD_KEYS}, typename="thing")
                def thing(k1=None, k2=None, k3=None):
                    return (k1, k2, k3)

                thing.origin = (d["name"], d["src"])
                sec["class"] = thing
            else:
                sec[k] = tag
        out[d["name"]] = section(sec)
    return out


def collapse(mods, manager, root, keys):
    """collapse_named_section(root) on a manager -> (outcome, vals, exc)."""
    central, basics, errors, configurable = mods
    try:
        col = manager.collapse_named_section(root)
    except errors.ConfigurationError as e:
        return "error", [], str(e).replace("\n", " | ")
    except Exception as e:  # judged (Unexpected_exception)
        return "other", [], f"{type(e).__name__}: {e}"
    vals = []
    for k in keys:
        if k == "class":
            o = getattr(col.type.callable, "origin", ("?", 0))
            vals.append(dict(k=k, name=o[0], src=o[1]))
        elif k in col.config:
            n, _, s = str(col.config[k]).partition("@")
            vals.append(dict(k=k, name=n, src=int(s)))
        else:
            vals.append(dict(k=k, name="-", src=0))
    return "values", vals, ""


def build_and_collapse(mods, defs, root, keys):
    """defs: [{name, src, inh, keys}] -> (outcome, vals, exc)."""
    central, basics, errors, configurable = mods
    nsrc = max(d["src"] for d in defs)
    sources = [make_source(mods, [d for d in defs if d["src"] == s]) for s in range(1, nsrc + 1)]
    try:
        manager = central.ConfigManager(sources)
    except errors.ConfigurationError as e:
        return "error", [], str(e).replace("\n", " | ")
    except Exception as e:  # judged (Unexpected_exception)
        return "other", [], f"{type(e).__name__}: {e}"
    return collapse(mods, manager, root, keys)


LIVE_BLANK = dict(ev="", root="-", defs=[], raised=False, outcome="-", vals=[])


def run_live(mods, ops, keys):
    """One live manager.  ops: [("init"|"add", defs) | ("read", name) | ("abort", [name, skip, exception name])]
    -> (events without tid/i, exceptions)."""
    central, basics, errors, configurable = mods
    evs, excs = [], []
    manager = None
    for op, arg in ops:
        e = dict(LIVE_BLANK)
        exc = ""
        if op in ("init", "add"):
            e.update(ev=op, defs=[dict(name=d["name"], src=d["src"], inh=list(d["inh"]), keys=list(d["keys"])) for d in arg])
            try:
                if op == "init":
                    manager = central.ConfigManager([make_source(mods, arg, True)])
                else:
                    manager.add_config_source(make_source(mods, arg, True))
            except Exception as ex:  # the rest of the history is not judged
                e["raised"], exc = True, f"{type(ex).__name__}: {ex}".replace("\n", " | ")
                if op == "init":
                    raise tlc.MachineryError(f"cannot create a manager over {arg}: {exc}")
        elif op == "abort":
            name, skip, excname = arg
            TRIP.update(armed=True, skip=skip, fired=False,
                        exc=dict(KeyboardInterrupt=KeyboardInterrupt, RecursionError=RecursionError, MemoryError=MemoryError)[excname])
            try:
                manager.collapse_named_section(name)
            except BaseException as ex:  # the injected exception (or an ordinary error before the injection point)
                exc = f"{type(ex).__name__}: {ex}".replace("\n", " | ")
            TRIP["armed"] = False
            e.update(ev="abort", root=name, raised=TRIP["fired"])
        else:
            outcome, vals, exc = collapse(mods, manager, arg, keys)
            e.update(ev="read", root=arg, outcome=outcome, vals=vals)
        evs.append(e)
        excs.append(exc)
    return evs, excs


def ops_of_hist(hist):
    """HIST printed by ConfigInherit_Live -> ops.  The model observes the ordinary key k1; every section gets
    its own class so that every name can be collapsed (and the class is always the section's own)."""
    ops, src = [], 0
    for h in hist:
        if h["op"] == "read":
            ops.append(("read", h["name"]))
            continue
        if h["op"] == "abort":
            ops.append(("abort", [h["name"], 0, "KeyboardInterrupt"]))
            continue
        src += 1
        defs = []
        for name, inh, keys in h["defs"]:
            defs.append(dict(name=name, src=src, inh=list(inh), keys=["class"] + list(keys)))
        defs.sort(key=lambda d: d["name"])
        ops.append((h["op"], defs))
    return ops


def random_history(r_):
    names = ["a", "b", "c", "d"][: r_.randint(2, 4)]
    allkeys = ["class"] + ORD_KEYS

    def source(idx, first):
        defs = []
        for n in names:
            if r_.random() < (0.8 if first else 0.45):
                inh = []
                for _ in range(r_.choice([0, 1, 1, 2])):
                    inh.append(r_.choice(names if r_.random() < 0.93 else ["zz"]))
                defs.append(dict(name=n, src=idx, inh=inh, keys=sorted(k for k in allkeys if r_.random() < (0.5 if first else 0.35))))
        if not defs:
            defs.append(dict(name=r_.choice(names), src=idx, inh=[], keys=["k1"]))
        return defs

    ops, nsrc = [("init", source(1, True))], 1
    for _ in range(r_.randint(3, 9)):
        c = r_.random()
        if c < 0.2:  # a collapse interrupted at its first .. fourth value lookup
            ops.append(("abort", [r_.choice(names), r_.randint(0, 3), r_.choice(["KeyboardInterrupt", "RecursionError", "MemoryError"])]))
        elif nsrc < 4 and c < 0.45:
            nsrc += 1
            ops.append(("add", source(nsrc, False)))
        else:
            ops.append(("read", r_.choice(names)))
    ops.append(("read", r_.choice(names)))
    return ops


def random_cfg(r_):
    names = ["a", "b", "c", "d", "e"][: r_.randint(2, 5)]
    nsrc = r_.randint(1, 3)
    shape = r_.random()
    defs = []
    for n in names:
        for s in range(1, nsrc + 1):
            if r_.random() < (0.75 if s == nsrc else 0.45):
                defs.append(dict(name=n, src=s, inh=[], keys=sorted(k for k in ["class"] + ORD_KEYS if r_.random() < 0.4)))
    if not any(d["name"] == "a" for d in defs):
        defs.append(dict(name="a", src=nsrc, inh=[], keys=["k1"]))
    # mostly tree-shaped: every name gets at most one parent, edges point "forward"; then a few wild edges
    order = names[:]
    r_.shuffle(order)
    order.remove("a")
    order.insert(0, "a")
    for idx, n in enumerate(order[1:], 1):
        if r_.random() < 0.85:
            parent = order[r_.randrange(0, idx)]
            cands = [d for d in defs if d["name"] == parent]
            if cands:
                r_.choice(cands)["inh"].append(n)
    for d in defs:
        if d["src"] > 1 and r_.random() < 0.5:
            d["inh"].insert(r_.randint(0, len(d["inh"])), d["name"])  # self-inherit
        r_.shuffle(d["inh"])
        if not d["inh"] and r_.random() < 0.2:
            d["explicit_empty_inherit"] = True
    if shape < 0.25:  # cycles / missing targets / non-tree edges
        for _ in range(r_.randint(1, 2)):
            r_.choice(defs)["inh"].append(r_.choice(names + ["zz"]))
    return defs


def run(ck):
    use_repo()
    from pkgcore.config import basics, central, errors
    from pkgcore.config.hint import configurable

    mods = (central, basics, errors, configurable)
    ck.rule = ("one collapse of the root section on a real ConfigManager per configuration; configurations enumerated by "
               "TLC (every reachable state of ConfigInherit_MC) plus seeded random ones; non-trivial = distinct "
               "configuration that the specification judges (not '_Unspecified') and whose root inherits something; "
               "plus histories on one live manager (collapse / add_config_source), non-trivial = history with a judged "
               "read after a source was added")
    ck.assumptions = [
        "values are identified by the definition that supplies them (one callable / one string per definition)",
        "sources are plain dicts of HardCodedConfigSection; later sources override earlier ones",
        "non-tree, non-cyclic graphs and class-less configurations are left open by the property",
    ]
    events, exs = [], []
    live_events, live_runs = [], []  # live_runs[tid] = (ops, keys, excs)

    def execute_live(ops, keys):
        evs, excs = run_live(mods, ops, keys)
        tid = len(live_runs)
        live_runs.append((ops, keys, excs))
        for i, e in enumerate(evs):
            e.update(tid=tid, i=i)
            live_events.append(e)
        ck.count()

    def execute(defs, root, keys):
        outcome, vals, exc = build_and_collapse(mods, defs, root, keys)
        events.append(dict(tid=len(events), i=0, root=root, keys=keys,
                           defs=[dict(name=d["name"], src=d["src"], inh=list(d["inh"]), keys=list(d["keys"])) for d in defs],
                           outcome=outcome, vals=vals))
        exs.append(exc)
        ck.count()

    if ck.replay_case:
        d = ck.replay_case["detail"]
        if "history" in d:
            execute_live([(op, arg) for op, arg in d["history"]], d["keys"])
        else:
            execute(d["defs"], d["root"], d["keys"])
    else:
        # 1. the design (larger bound, no replay)
        def cfg(md, me, mi, ks, emit):
            return (f'SPECIFICATION Spec\nCONSTANTS\n Names = {{"a", "b", "c"}}\n Root = "a"\n NSrc = 2\n KeySets <- {ks}\n'
                    f" MaxDefs = {md}\n MaxEdges = {me}\n MaxInh = {mi}\n EmitCfgs = {'TRUE' if emit else 'FALSE'}\n"
                    "INVARIANT WorklistAgrees\nINVARIANT QueueIsNearest\nINVARIANT OwnValueWins\n"
                    "INVARIANT ShadowedOnlyBySelfInherit\nINVARIANT Emit\n")

        if not ck.quick:
            md, me = 5, 4
            ck.mc("ConfigInherit_MC", cfg_text=cfg(md, me, 2, "KS1", False), workers=8, timeout=1800,
                  label=f"MC:ConfigInherit_MC MaxDefs={md} MaxEdges={me}")
        # 2. spec -> code: every reachable configuration
        ed, ee = ck.pick((3, 3), (4, 3))
        res = ck.mc("ConfigInherit_MC", cfg_text=cfg(ed, ee, 2, "KS1", True), workers=1, timeout=ck.pick(200, 1800),
                    label=f"Configurations:ConfigInherit_MC MaxDefs={ed} MaxEdges={ee}")
        cfgs = [p[1] for p in res.tagged("CFG")]
        if len(cfgs) < 1000 or len(cfgs) != res.distinct:
            raise tlc.MachineryError(f"{len(cfgs)} configurations printed for {res.distinct} states\n{res.out[-1500:]}")
        ck.exhaustive = True
        ck.extra["configurations_enumerated"] = len(cfgs)
        for c in cfgs:
            defs = []
            for name, src, inh, keys in c:
                ks = list(keys)
                defs.append(dict(name=name, src=src, inh=list(inh), keys=ks + (["k1"] if "class" in ks else [])))
            defs.sort(key=lambda d: (d["name"], d["src"]))
            execute(defs, "a", ["class", "k1"])
        ck.sample(dict(direction="spec->code", defs=events[len(events) // 2]["defs"], outcome=events[len(events) // 2]["outcome"]))
        # 3. code -> spec
        r_ = rng(43)
        for _ in range(ck.pick(1500, 30000)):
            execute(random_cfg(r_), "a", ["class"] + ORD_KEYS)
        ck.sample(dict(direction="code->spec", defs=events[-1]["defs"], outcome=events[-1]["outcome"], vals=events[-1]["vals"]))
        # 4. one LIVE manager: collapse / add_config_source / collapse ...
        def live_cfg(ops_, clear, emit, release=True):
            return (f'SPECIFICATION Spec\nCONSTANTS\n Names = {{"a", "b"}}\n KeySets <- KSk1\n MaxSources = 2\n MaxOps = {ops_}\n'
                    f" ClearOnAdd = {'TRUE' if clear else 'FALSE'}\n ReleaseOnAbort = {'TRUE' if release else 'FALSE'}\n"
                    f" EmitHist = {'TRUE' if emit else 'FALSE'}\n"
                    "INVARIANT CacheCoherent\nINVARIANT ReadIsFresh\nINVARIANT GuardReleased\nINVARIANT Emit\n")

        if not ck.quick:
            bad = ck.mc("ConfigInherit_Live", cfg_text=live_cfg(3, False, False), workers=1, timeout=300, expect_ok=False,
                        label="MC:ConfigInherit_Live cache kept across add (must violate)")
            if bad.violated != "CacheCoherent":
                raise tlc.MachineryError(f"the cache-keeping design was not rejected as expected: {bad.violated}")
            bad = ck.mc("ConfigInherit_Live", cfg_text=live_cfg(3, True, False, release=False), workers=1, timeout=300, expect_ok=False,
                        label="MC:ConfigInherit_Live guard kept after an aborted collapse (must violate)")
            if bad.violated not in ("GuardReleased", "ReadIsFresh"):
                raise tlc.MachineryError(f"the design that keeps the recursion guard was not rejected as expected: {bad.violated}")
        lo_ = ck.pick(3, 4)
        res = ck.mc("ConfigInherit_Live", cfg_text=live_cfg(lo_, True, True), workers=1, timeout=ck.pick(300, 1800),
                    label=f"MC+Histories:ConfigInherit_Live MaxOps={lo_}")
        hists = [p[1] for p in res.tagged("HIST")]
        if len(hists) < 5000:
            raise tlc.MachineryError(f"only {len(hists)} histories enumerated\n{res.out[-1500:]}")
        ck.extra["live_histories_enumerated"] = len(hists)
        # a seeded sample of each family is replayed (read..add..read; histories with an aborted collapse)
        with_abort = [h for h in hists if any(x["op"] == "abort" for x in h)]
        without = [h for h in hists if not any(x["op"] == "abort" for x in h)]
        hists = (r_.sample(without, min(len(without), ck.pick(2500, 15000)))
                 + r_.sample(with_abort, min(len(with_abort), ck.pick(1000, 10000))))
        ck.extra["live_histories_replayed"] = len(hists)
        for h in hists:
            execute_live(ops_of_hist(h), ["class", "k1"])
        ck.sample(dict(direction="spec->code (live manager)", history=ops_of_hist(hists[len(hists) // 2])))
        for _ in range(ck.pick(1000, 10000)):
            execute_live(random_history(r_), ["class"] + ORD_KEYS)
        ck.sample(dict(direction="code->spec (live manager)", history=live_runs[-1][0]))

    # ---- live histories: every read against the fresh collapse of the sources present at that moment ----
    lverdicts, lo = [], 0
    while lo < len(live_events):  # chunks end on history boundaries
        hi = min(len(live_events), lo + 60000)
        while hi < len(live_events) and live_events[hi]["i"] != 0:
            hi += 1
        lverdicts += ck.trace("ConfigInherit_LiveTrace", live_events[lo:hi], label=f"Trace:ConfigInherit_LiveTrace[{lo}:{hi}]", timeout=1500)
        lo = hi
    open_reads = {(v["tid"], v["i"]) for v in lverdicts if v["clause"] == "_Unspecified"}
    ck.extra["unspecified_live_reads"] = len(open_reads)
    seen_add = {}
    for e in live_events:
        if e["ev"] == "add" and not e["raised"]:
            seen_add[e["tid"]] = True
        elif e["ev"] == "read" and seen_add.get(e["tid"]) and (e["tid"], e["i"]) not in open_reads:
            ck.nontriv(("live", e["tid"]))
    for v in lverdicts:
        if v["clause"] == "_Unspecified":
            continue
        ops, keys, excs = live_runs[v["tid"]]
        if v["clause"] in ("OutsideDomain", "UnknownEvent"):
            raise tlc.MachineryError(f"malformed live history generated: {ops}")
        upto = ops[: v["i"] + 1]
        ck.violation(v["clause"], dict(history=[[op, arg] for op, arg in upto], keys=keys, read=upto[-1][1],
                                       reads_before=sum(1 for op, _ in upto[:-1] if op == "read"),
                                       sources=sum(1 for op, _ in upto if op != "read"), exc=excs[v["i"]]))

    verdicts = []
    for lo in range(0, len(events), 50000):
        verdicts += ck.trace("ConfigInherit_Trace", events[lo : lo + 50000], label=f"Trace:ConfigInherit_Trace[{lo}:]", timeout=1500)
    open_ = {v["tid"] for v in verdicts if v["clause"] == "_Unspecified"}
    ck.extra["unspecified_inputs"] = len(open_)
    for e in events:
        if e["tid"] not in open_ and any(d["inh"] for d in e["defs"] if d["name"] == e["root"]):
            ck.nontriv(repr(e["defs"]))
    for v in verdicts:
        if v["clause"] == "_Unspecified":
            continue
        e = events[v["tid"]]
        if v["clause"] == "OutsideDomain":
            raise tlc.MachineryError(f"malformed configuration generated: {e['defs']}")
        ck.violation(v["clause"], dict(defs=e["defs"], root=e["root"], keys=e["keys"], outcome=e["outcome"], vals=e["vals"],
                                       exc=exs[v["tid"]]))
