"""C43 — config section inheritance resolves to the nearest definition
(src/pkgcore/config/central.py ConfigManager._get_inherited_sections, collapse_section,
_ConfigStack.render_value).

MC          : ConfigInherit_MC — TLC builds every configuration over 3 names x 2 sources (bounded
              number of definitions / inherit entries); on each one the breadth-first queue order
              is compared with the declarative "shortest path, leftmost" reading (QueueIsNearest),
              the transcribed worklist of central.py with the specified outcome (WorklistAgrees),
              plus OwnValueWins and ShadowedOnlyBySelfInherit.
spec -> code: every configuration TLC reaches is printed and built as a real ConfigManager over
              dict sources (HardCodedConfigSection); the root section is collapsed.  A definition
              that sets the abstract key "class" gets its own callable and its own "k1" string, so
              the defining section of every resolved value is observable.
code -> spec: seeded random configurations (up to 5 names, 3 sources, 3 ordinary keys, longer
              inherit lists, self-inherit chains, cycles, missing targets).
ConfigInherit_Trace: Error_not_reported, Unexpected_error, Unexpected_exception, Own_value_lost,
Not_nearest ("_Unspecified" marks inputs the specification leaves open; they are only counted).

Carve-outs: graphs that are neither trees nor cyclic (a name reachable twice / listed twice — the
code reports them as recursive), configurations where no reachable definition has a class (nothing
to collapse), collapsing a name without any definition.
"""
from pylib import tlc
from pylib.common import rng, use_repo

ORD_KEYS = ["k1", "k2", "k3"]


def build_and_collapse(mods, defs, root, keys):
    """defs: [{name, src, inh, keys}] -> (outcome, vals, exc)."""
    central, basics, errors, configurable = mods
    nsrc = max(d["src"] for d in defs)
    sources = [dict() for _ in range(nsrc)]
    for d in defs:
        sec = {}
        tag = f"{d['name']}@{d['src']}"
        if d["inh"] or d.get("explicit_empty_inherit"):
            sec["inherit"] = list(d["inh"])
        for k in d["keys"]:
            if k == "class":
                @configurable(types={x: "str" for x in ORD_KEYS}, typename="thing")
                def thing(k1=None, k2=None, k3=None):
                    return (k1, k2, k3)

                thing.origin = (d["name"], d["src"])
                sec["class"] = thing
            else:
                sec[k] = tag
        sources[d["src"] - 1][d["name"]] = basics.HardCodedConfigSection(sec)
    try:
        manager = central.ConfigManager(sources)
        col = manager.collapse_named_section(root)
    except errors.ConfigurationError as e:
        return "error", [], str(e).replace("\n", " | ")
    except Exception as e:  # judged (Unexpected_exception)
        return "other", [], f"{type(e).__name__}: {e}"
    vals = []
    for k in keys:
        if k == "class":
            o = getattr(col.type.callable, "origin", ("?", 0))
            vals.append(dict(k=k, name=o[0], src=o[1]))
        elif k in col.config:
            n, _, s = str(col.config[k]).partition("@")
            vals.append(dict(k=k, name=n, src=int(s)))
        else:
            vals.append(dict(k=k, name="-", src=0))
    return "values", vals, ""


def random_cfg(r_):
    names = ["a", "b", "c", "d", "e"][: r_.randint(2, 5)]
    nsrc = r_.randint(1, 3)
    shape = r_.random()
    defs = []
    for n in names:
        for s in range(1, nsrc + 1):
            if r_.random() < (0.75 if s == nsrc else 0.45):
                defs.append(dict(name=n, src=s, inh=[], keys=sorted(k for k in ["class"] + ORD_KEYS if r_.random() < 0.4)))
    if not any(d["name"] == "a" for d in defs):
        defs.append(dict(name="a", src=nsrc, inh=[], keys=["k1"]))
    # mostly tree-shaped: every name gets at most one parent, edges point "forward"; then a few wild edges
    order = names[:]
    r_.shuffle(order)
    order.remove("a")
    order.insert(0, "a")
    for idx, n in enumerate(order[1:], 1):
        if r_.random() < 0.85:
            parent = order[r_.randrange(0, idx)]
            cands = [d for d in defs if d["name"] == parent]
            if cands:
                r_.choice(cands)["inh"].append(n)
    for d in defs:
        if d["src"] > 1 and r_.random() < 0.5:
            d["inh"].insert(r_.randint(0, len(d["inh"])), d["name"])  # self-inherit
        r_.shuffle(d["inh"])
        if not d["inh"] and r_.random() < 0.2:
            d["explicit_empty_inherit"] = True
    if shape < 0.25:  # cycles / missing targets / non-tree edges
        for _ in range(r_.randint(1, 2)):
            r_.choice(defs)["inh"].append(r_.choice(names + ["zz"]))
    return defs


def run(ck):
    use_repo()
    from pkgcore.config import basics, central, errors
    from pkgcore.config.hint import configurable

    mods = (central, basics, errors, configurable)
    ck.rule = ("one collapse of the root section on a real ConfigManager per configuration; configurations enumerated by "
               "TLC (every reachable state of ConfigInherit_MC) plus seeded random ones; non-trivial = distinct "
               "configuration that the specification judges (not '_Unspecified') and whose root inherits something")
    ck.assumptions = [
        "values are identified by the definition that supplies them (one callable / one string per definition)",
        "sources are plain dicts of HardCodedConfigSection; later sources override earlier ones",
        "non-tree, non-cyclic graphs and class-less configurations are left open by the property",
    ]
    events, exs = [], []

    def execute(defs, root, keys):
        outcome, vals, exc = build_and_collapse(mods, defs, root, keys)
        events.append(dict(tid=len(events), i=0, root=root, keys=keys,
                           defs=[dict(name=d["name"], src=d["src"], inh=list(d["inh"]), keys=list(d["keys"])) for d in defs],
                           outcome=outcome, vals=vals))
        exs.append(exc)
        ck.count()

    if ck.replay_case:
        d = ck.replay_case["detail"]
        execute(d["defs"], d["root"], d["keys"])
    else:
        # 1. the design (larger bound, no replay)
        def cfg(md, me, mi, ks, emit):
            return (f'SPECIFICATION Spec\nCONSTANTS\n Names = {{"a", "b", "c"}}\n Root = "a"\n NSrc = 2\n KeySets <- {ks}\n'
                    f" MaxDefs = {md}\n MaxEdges = {me}\n MaxInh = {mi}\n EmitCfgs = {'TRUE' if emit else 'FALSE'}\n"
                    "INVARIANT WorklistAgrees\nINVARIANT QueueIsNearest\nINVARIANT OwnValueWins\n"
                    "INVARIANT ShadowedOnlyBySelfInherit\nINVARIANT Emit\n")

        if not ck.quick:
            md, me = 5, 4
            ck.mc("ConfigInherit_MC", cfg_text=cfg(md, me, 2, "KS1", False), workers=8, timeout=1800,
                  label=f"MC:ConfigInherit_MC MaxDefs={md} MaxEdges={me}")
        # 2. spec -> code: every reachable configuration
        ed, ee = ck.pick((3, 3), (4, 3))
        res = ck.mc("ConfigInherit_MC", cfg_text=cfg(ed, ee, 2, "KS1", True), workers=1, timeout=ck.pick(200, 1800),
                    label=f"Configurations:ConfigInherit_MC MaxDefs={ed} MaxEdges={ee}")
        cfgs = [p[1] for p in res.tagged("CFG")]
        if len(cfgs) < 1000 or len(cfgs) != res.distinct:
            raise tlc.MachineryError(f"{len(cfgs)} configurations printed for {res.distinct} states\n{res.out[-1500:]}")
        ck.exhaustive = True
        ck.extra["configurations_enumerated"] = len(cfgs)
        for c in cfgs:
            defs = []
            for name, src, inh, keys in c:
                ks = list(keys)
                defs.append(dict(name=name, src=src, inh=list(inh), keys=ks + (["k1"] if "class" in ks else [])))
            defs.sort(key=lambda d: (d["name"], d["src"]))
            execute(defs, "a", ["class", "k1"])
        ck.sample(dict(direction="spec->code", defs=events[len(events) // 2]["defs"], outcome=events[len(events) // 2]["outcome"]))
        # 3. code -> spec
        r_ = rng(43)
        for _ in range(ck.pick(2000, 50000)):
            execute(random_cfg(r_), "a", ["class"] + ORD_KEYS)
        ck.sample(dict(direction="code->spec", defs=events[-1]["defs"], outcome=events[-1]["outcome"], vals=events[-1]["vals"]))

    verdicts = []
    for lo in range(0, len(events), 50000):
        verdicts += ck.trace("ConfigInherit_Trace", events[lo : lo + 50000], label=f"Trace:ConfigInherit_Trace[{lo}:]", timeout=1500)
    open_ = {v["tid"] for v in verdicts if v["clause"] == "_Unspecified"}
    ck.extra["unspecified_inputs"] = len(open_)
    for e in events:
        if e["tid"] not in open_ and any(d["inh"] for d in e["defs"] if d["name"] == e["root"]):
            ck.nontriv(repr(e["defs"]))
    for v in verdicts:
        if v["clause"] == "_Unspecified":
            continue
        e = events[v["tid"]]
        if v["clause"] == "OutsideDomain":
            raise tlc.MachineryError(f"malformed configuration generated: {e['defs']}")
        ck.violation(v["clause"], dict(defs=e["defs"], root=e["root"], keys=e["keys"], outcome=e["outcome"], vals=e["vals"],
                                       exc=exs[v["tid"]]))
