"""C16 — resolver choice policy: highest version for upgrades, reuse for minimal installs, determinism.

spec         : specs/Resolver.tla, section "C16": UpgradeOk (the target is satisfied by its highest
               matching version, by the installed instance when that has this version), ReuseOk (a target
               an installed package satisfies keeps it and merges nothing else for it), judged inside
               Robust (the sense in which "the highest candidate is resolvable" is decidable without
               prescribing the resolver's search: every requirement reachable from the targets has a
               candidate, no reachable blocker matches anything, requirements on one name admit the
               same packages, no cycle through a build-time dependency, no slot-moved versions).
               Outside Robust the policy clauses are Unspecified (counted, not judged).
               Deterministic: two resolutions of identical inputs (fresh objects; the resolutions of all
               the other worlds of the batch lie between them, so nothing may leak from one resolver
               instance to the next) give the same answer and the same operations; a further set of worlds is resolved once in this
               process (after many other resolutions) and in two fresh interpreters with other
               PYTHONHASHSEEDs, in reversed order (hash-order dependence shows only across processes).
               Sessions: every request is resolved as pmerge --ignore-failures does (add_atoms, on failure
               drop the failed target, reset(), add_atoms again) and, with several targets, one add_atoms
               per target on one instance; the answer must equal a fresh instance's answer to the final
               request, and a READY first candidate (everything it needs is already in the plan) must be
               taken: clauses Upgrade_ready / Reuse_ready, judged outside Robust as well.
MC           : Resolver_MC (shared with C15): RobustNeverFails / RobustPolicy - in the
               Robust domain no order of work of the reference resolver fails or misses the policy.
spec -> code : exported bounded family;  code -> spec: seeded random worlds (robust style weighted).
Judge        : Resolver_Trace (clauses Upgrade_failed, Upgrade_highest, Upgrade_ready, Reuse_failed,
               Reuse_installed, Reuse_ready, Deterministic).
"""
import json
import os
import subprocess
import sys

from pylib import tlc
from pylib.common import REPO, VERIF, rng, use_repo

from drivers import c15_resolver as c15


def other_process_ops(worlds_kinds, hashseed):
    """resolve the same inputs in a fresh interpreter with another hash seed"""
    env = dict(os.environ, PYTHONHASHSEED=str(hashseed), VERIF_REPO=REPO)
    code = ("import sys, json; sys.path.insert(0, %r); from pylib.common import use_repo; use_repo();"
            "from drivers import c15_resolver as d;"
            "inp = json.load(sys.stdin);"
            "out = [d.run_once(d.norm_world(w), k, record=False) for w, k in inp];"
            "json.dump([dict(ok=o['ok'], raised=o['raised'], exc=o['exc'], ops=o['ops']) for o in out], sys.stdout)") % VERIF
    p = subprocess.run([sys.executable, "-c", code], input=json.dumps(worlds_kinds), capture_output=True, text=True,
                       env=env, timeout=1200)
    if p.returncode != 0:
        raise tlc.MachineryError(f"subprocess resolver run failed: {p.stderr[-2000:]}")
    return json.loads(p.stdout)


def cross_process_determinism(ck, n_worlds, batch, worlds=()):
    """identical inputs, different surroundings: resolved here (in a process that has already done
    many other resolutions) and in fresh interpreters with other hash seeds, in reversed order.
    worlds: further worlds to include (the special parts of the exported family)"""
    r_ = rng(1616)
    todo = list(worlds)
    for n in range(n_worlds):
        todo.append(c15.gen_world(r_, c15.STYLES[n % len(c15.STYLES)]))
    pairs = [(w, kind) for w in todo for kind in c15.KINDS]
    a = [c15.run_once(w, kind, record=False) for w, kind in pairs]
    for hashseed in (7, 3):
        b = list(reversed(other_process_ops(list(reversed(pairs)), hashseed)))
        for (w, kind), o1, o2 in zip(pairs, a, b):
            tid = len(batch.cases)
            batch.events.append(dict(tid=tid, i=0, ev="resolve", kind=kind, mode="plain", pkgs=c15.world_event(w),
                                     targets=w["targets"], raised=o1["raised"], exc=o1["exc"], ok=o1["ok"], ops=o1["ops"],
                                     done=o1["done"], marks=o1["marks"],
                                     raised2=o2["raised"], exc2=o2["exc"], ok2=o2["ok"], ops2=o2["ops"]))
            batch.cases.append(dict(world=w, kind=kind, mode="plain", o1=o1))
            ck.count()


def run(ck):
    use_repo()
    want = set(c15.POLICY_CLAUSES)
    ck.rule = ("one evaluation = one (world, strategy) resolved twice with other worlds' resolutions in between; non-trivial = distinct (world, strategy) that "
               "succeeded merging a source package; the evidence field policy_clauses_judged counts the targets whose "
               "policy clause was inside the Robust domain (the others are Unspecified)")
    ck.assumptions = c15.ASSUMPTIONS + [
        "'visible' = present in the repositories handed to the resolver (no masking layer in between)",
        "policy clauses are judged only inside Resolver!Robust; empty-tree resolutions only for determinism",
    ]
    if ck.replay_case:
        return c15.replay(ck, want)
    c15.model_check(ck)
    stats = c15.campaign(ck, want, plan_trace=False, sizes=ck.pick((30, 90, 100000), (3000, 4000, 4000)),
                         styles=("robust", "friendly", "robust", "hostile", "blocky"), seed=16,
                         tail=lambda batch: cross_process_determinism(
                             ck, ck.pick(24, 500), batch, [w for w in c15.SPECIAL_WORLDS if w.get("fam") == "session"]))
    ck.extra["runs"] = stats
    ck.extra["policy_clauses_judged"] = stats["judged"]
    if stats["judged"] == 0 and not ck.violations and stats["crashed"] == 0:
        raise tlc.MachineryError("no policy clause was inside the judged domain")
