"""C47 - tarball sync replaces a repository atomically and recovers from interruption
(sync/tar.py tar_syncer, sync/http.py http_syncer).

MC          : TarSync_MC models one sync attempt per process lifetime over FsModel (restore, etag read, request,
              makedirs, download, staging dirs, unpack file by file, rename old away, rename new in, etag
              write, atexit cleanup) with the faults HTTP error / truncated body / corrupt archive and a
              crash at EVERY state, followed by further attempts from the on-disk state; the last attempt
              is undisturbed.  Variant "head" (the protocol as shipped) MUST violate RecoverInv (leftover
              staging dirs make the next sync fail) and FaultInv (crash between the renames + a failing
              next sync: the exit cleanup deletes the only copy of the repository); variant "fixed"
              (restore + wipe leftovers) satisfies FaultInv, RecoverInv, EtagInv, NoRollback and
              TreeInvOutsideWindow, and violates TreeInv only between the two renames.
spec -> code: the fault alphabet and the crash-anywhere / next-attempt structure of the model are
              instantiated on the real tar_syncer against a loopback http.server: good, HTTP 500,
              truncated body, garbage archive, archive corrupted in the middle.
code -> spec: (a) the recorded syscalls of a real sync (tar's work observed through snapshots) are replayed
              through FsModel by FsTrace: Units (repository path holds complete old or complete new tree
              after EVERY syscall), Frame, FinalState; (b) the sync is re-executed with a power cut before
              every mutation and inside the unpack; after each cut the tree is inspected (TreeOldOrNew,
              EtagSound) and the NEXT sync is run in a "fresh process" (new syncer, exit handlers of
              the crashed one never ran) against the good server (Recover) or against a failing server
              (FaultKeepsTree); (c) fault runs: tree untouched (FaultKeepsTree), next sync completes; (d) one
              filesystem call of the sync fails (EIO / ENOSPC at every mutation): after the syncer's own
              handling and its exit cleanup the path still holds the old or the new tree (TreeOldOrNew), and
              the next sync completes (model: fault "mvfail" - the rename that moves the new tree in fails).
              All judged by TarSync_Trace with the operators of TarSync.tla.
Carve-outs  : https, .modified handled like .etag; a process exit is simulated by running (or, for a
              crash, dropping) the atexit handlers the syncer registered; the download temp file lives
              outside the repository directory and is not a crash point.
"""
import atexit
import contextlib
import gzip
import http.server
import io
import os
import shutil
import tarfile
import threading

from drivers.c29_pkgdb import Stack, Unseen, fresh, traces_parallel
from pylib import fsjudge, fsrec, tlc
from pylib.common import mktmp, rng, use_repo

LEVEL = "fault_enumeration"
ETAG_OLD, ETAG_NEW = '"v0-etag"', '"v1-etag"'
MOD_OLD, MOD_NEW = "Mon, 01 Jan 2024 00:00:00 GMT", "Tue, 02 Jan 2024 00:00:00 GMT"
# realizations of the spec's fault alphabet on the loopback server
REALIZE = {"http_error": ["http_error"], "trunc": ["trunc"], "corrupt": ["corrupt", "corrupt_mid"]}


# ---------------------------------------------------------------------------------------------
class Server:
    """Loopback HTTP server; `mode` selects what the next GET gets."""

    def __init__(self):
        srv = self

        class H(http.server.BaseHTTPRequestHandler):
            def log_message(self, *a):
                pass

            def do_GET(self):
                srv.requests += 1
                body = srv.body
                if srv.mode == "http_error":
                    self.send_error(500, "boom")
                    return
                inm = self.headers.get("If-None-Match")
                if srv.mode == "good" and inm and inm.strip() == ETAG_NEW:
                    self.send_response(304)
                    self.end_headers()
                    return
                if srv.mode == "corrupt":
                    body = bytes((i * 37 + 11) % 251 for i in range(len(body)))
                elif srv.mode == "corrupt_mid":
                    b = bytearray(body)
                    for i in range(len(b) // 2, min(len(b) // 2 + 64, len(b) - 8)):
                        b[i] ^= 0x5A
                    body = bytes(b)
                self.send_response(200)
                self.send_header("Content-Length", str(len(body)))
                self.send_header("ETag", ETAG_NEW)
                self.send_header("Last-Modified", MOD_NEW)
                self.end_headers()
                if srv.mode == "trunc":
                    self.wfile.write(body[: len(body) // 2])
                    self.wfile.flush()
                    self.close_connection = True
                    return
                self.wfile.write(body)

        self.mode, self.body, self.requests = "good", b"", 0
        self.httpd = http.server.ThreadingHTTPServer(("127.0.0.1", 0), H)
        self.port = self.httpd.server_address[1]
        self.thread = threading.Thread(target=self.httpd.serve_forever, daemon=True)
        self.thread.start()

    def stop(self):
        self.httpd.shutdown()
        self.httpd.server_close()


def listing(d):
    """Projection of a directory tree: {relpath: (type, content id / link target)} without the sync bookkeeping."""
    out = {}
    for p, o in fsrec.snapshot(d).items():
        if p in (".etag", ".modified"):
            continue
        out[p] = (o["type"], o["cid"] if o["type"] == "file" else o["target"])
    return out


def make_trees(work, r_, n, ext="gz"):
    """Old tree, new tree (source of the tarball) with common, changed and unique files."""
    words = ["metadata/layout.conf", "profiles/repo_name", "dev-util/foo/foo-1.ebuild", "dev-util/foo/Manifest", "eclass/x.eclass",
             "profiles/categories", "dev-libs/y/y-2.ebuild", "licenses/GPL-2", "README"]
    r_.shuffle(words)
    common, only_old, only_new = words[:3], words[3:3 + r_.randint(1, 2)], words[5:5 + r_.randint(1, 2)]
    old, new = os.path.join(work, f"old{n}"), os.path.join(work, f"new{n}", "repo-master")
    for base, names, tag in ((old, common + only_old, "old"), (new, common + only_new, "new")):
        for w in names:
            p = os.path.join(base, w)
            os.makedirs(os.path.dirname(p), exist_ok=True)
            with open(p, "w") as f:
                f.write(f"{tag} {w} " + "q" * r_.randint(0, 2000) + "\n")
    os.symlink("README", os.path.join(new, "README.link"))
    with open(os.path.join(old, ".etag"), "w") as f:
        f.write(ETAG_OLD)
    with open(os.path.join(old, ".modified"), "w") as f:
        f.write(MOD_OLD)
    buf = io.BytesIO()
    with tarfile.open(fileobj=buf, mode="w") as tf:
        tf.add(new, arcname="repo-master")
    raw = buf.getvalue()
    if ext == "gz":
        out = io.BytesIO()
        with gzip.GzipFile(fileobj=out, mode="wb", mtime=0) as gz:
            gz.write(raw)
        body = out.getvalue()
    elif ext == "bz2":
        import bz2

        body = bz2.compress(raw)
    else:
        import lzma

        body = lzma.compress(raw)
    return old, new, body


class Proc:
    """One process lifetime of a sync: atexit handlers registered meanwhile are captured; exit()
    runs them (graceful exit), a crash drops them."""

    def __init__(self):
        self.handlers = []

    def __enter__(self):
        self._orig = atexit.register
        atexit.register = lambda f, *a, **kw: self.handlers.append((f, a, kw)) or f
        return self

    def __exit__(self, *a):
        atexit.register = self._orig
        return False

    def exit(self):
        for f, a, kw in reversed(self.handlers):
            f(*a, **kw)
        self.handlers = []


class Interrupt(BaseException):
    """An in-process interruption (signal / KeyboardInterrupt): the sync is abandoned, the process lives on."""


class IntRecorder(fsrec.Recorder):
    """Recorder that raises Interrupt instead of performing mutation number int_at (once)."""

    def __init__(self, root, int_at):
        super().__init__(root)
        self.int_at, self.int_event = int_at, None

    def _before(self, op, rp):
        if self.active and self._inside(rp) and self.int_event is None and self.n_mut + 1 == self.int_at:
            self.n_mut += 1
            self.int_event = dict(k=self.n_mut, op=op, rp=rp)
            raise Interrupt()
        return super()._before(op, rp)


def run(ck):
    use_repo()
    from concurrent.futures import ThreadPoolExecutor

    from pkgcore.sync import base as sync_base
    from pkgcore.sync import tar as tar_mod

    os.environ["no_proxy"] = "*"
    os.environ.pop("http_proxy", None)
    ck.rule = ("real tar_syncer against a loopback http.server; every mutation of a sync (incl. its exit cleanup) is a crash point, "
               "+ a cut inside the unpack; after each crash the tree is inspected and the next sync is run (good server / failing server); "
               "faults: HTTP 500, truncated body, garbage archive, archive corrupted in the middle; non-trivial = distinct "
               "(scenario, crash point or fault, follow-up)")
    ck.exhaustive = not ck.quick and not ck.replay_case  # every mutation of every exercised sync x every exported plan
    ck.assumptions = ["a power cut is a stop before a Python-level mutation; tar's own work is observed through snapshots (a cut inside "
                      "the unpack = a prefix of the extracted files, the last one truncated)",
                      "process exit = the atexit handlers registered by the syncer run (graceful) or are dropped (crash)",
                      "the download temp file lives outside the repository directory"]

    # ---- design-level model checking in the background ----
    def mc(variant, old, rounds, invs):
        return tlc.run("TarSync_MC", cfg_text=f'SPECIFICATION Spec\nCONSTANTS\n Variant = "{variant}"\n OldExists = {old}\n MaxRounds = {rounds}\n'
                       + "".join(f"INVARIANT {i}\n" for i in invs), timeout=800, workers=2)

    R = ck.pick(2, 3)
    good = ["FaultInv", "RecoverInv", "EtagInv", "NoRollback", "TreeInvOutsideWindow", "FirstSyncInv"]
    jobs = [
        (f"MC:TarSync fixed old rounds={R}", ("fixed", "TRUE", R, good), None),
        ("MC:TarSync fixed: TreeInv fails only in the rename window (must violate)", ("fixed", "TRUE", 1, ["TreeInv"]), "TreeInv"),
        (f"MC:TarSync head: next sync fails (must violate RecoverInv)", ("head", "TRUE", 2, ["RecoverInv"]), "RecoverInv"),
        (f"MC:TarSync head: failing next sync destroys the repo (must violate FaultInv)", ("head", "TRUE", 3, ["FaultInv"]), "FaultInv"),
        ("MC:TarSync head undisturbed first sync", ("head", "FALSE", 1, ["FirstSyncInv", "TreeInv", "EtagInv"]), None),
    ]
    if not ck.quick:
        jobs.append((f"MC:TarSync fixed no-old rounds={R}", ("fixed", "FALSE", R, good + ["TreeInv"]), None))
        jobs.append(("MC:TarSync head: EtagInv, NoRollback", ("head", "TRUE", 3, ["EtagInv", "NoRollback"]), None))
    import time

    t_ph = [time.time()]

    def _phase(name):
        ck.extra.setdefault("phase_s", {})[name] = round(time.time() - t_ph[0], 1)
        t_ph[0] = time.time()

    pool = ThreadPoolExecutor(6)
    futs = [(label, want, pool.submit(mc, *args)) for label, args, want in jobs]

    plans = sorted(ck.export("TarSync_Export"), key=lambda p: (p["obj"], p["first"], p["next"]))
    if {p["first"] for p in plans} - set(REALIZE) - {"crash"} or {p["next"] for p in plans} - set(REALIZE) - {"none"}:
        raise tlc.MachineryError(f"TarSync_Export: fault alphabet not realizable: {plans}")
    _phase("export")
    srv = Server()
    work = mktmp("c47")
    r_ = rng(47)
    fs_events, tr_events, meta = [], [], {}
    counter = [0]

    def unseen(cut=None):
        counter[0] = 0
        return [Unseen(tar_mod.subprocess, "run", counter, cut)]

    try:
        nsc = 1 if ck.replay_case else ck.pick(2, 6)
        for sc in range(nsc):
            had_old = (sc % 3 != 1)
            if ck.replay_case:
                had_old = ck.replay_case["detail"]["hadOld"]
            ext = ["gz", "gz", "bz2", "xz"][sc % 4]
            old_src, new_src, body = make_trees(work, r_, sc, ext)
            srv.body = body
            old_ref, new_ref = listing(old_src), listing(new_src)
            if old_ref == new_ref:
                raise tlc.MachineryError("generator: old and new tree coincide")
            root = os.path.join(work, f"root{sc}")
            base = os.path.join(root, "repos", "r")
            uri = f"tar+http://127.0.0.1:{srv.port}/repo-master.tar.{ext}"

            def setup(rt, had_old=had_old, old_src=old_src):
                os.makedirs(os.path.join(rt, "repos"))
                if had_old:
                    shutil.copytree(old_src, os.path.join(rt, "repos", "r"), symlinks=True)

            def classify(d):
                if not os.path.lexists(d):
                    return "absent"
                if not os.path.isdir(d):
                    return "other"
                ls = listing(d)
                return "empty" if not ls else "old" if ls == old_ref else "new" if ls == new_ref else "other"

            def validator(name, old, new):
                p = os.path.join(base, name)
                if not os.path.exists(p):
                    return "none"
                with open(p) as f:
                    c = f.read()
                return "old" if c == old else "new" if c == new else "other"

            def observe():
                return dict(tree=classify(base), etag=validator(".etag", ETAG_OLD, ETAG_NEW), modified=validator(".modified", MOD_OLD, MOD_NEW))

            def logical_tree():
                o = os.path.join(root, "repos", ".r.old")
                return classify(o) if (not os.path.lexists(base) and os.path.isdir(o)) else classify(base)

            def attempt(mode, graceful=True):
                """One process lifetime: fresh syncer, sync(), exit.  Returns ok (sync() returned true)."""
                srv.mode = mode
                ok = False
                with Proc() as proc, contextlib.redirect_stdout(io.StringIO()):
                    try:
                        ok = bool(tar_mod.tar_syncer(base, uri).sync())
                    except sync_base.SyncError:
                        ok = False
                    except Exception:  # noqa: an unwrapped error is still a failed attempt, not a verdict of this property
                        ok = False
                    if graceful:
                        proc.exit()
                return ok

            def op(rt, mode="good"):
                return attempt(mode)

            tid = len(meta)
            m = meta[tid] = dict(hadOld=had_old, sc=sc, rows=[])

            def emit(ev, **kw):
                i = len(m["rows"])
                e = dict(tid=tid, i=i, ev=ev, hadOld=had_old, ok=False, t0="-", tree="-", etag="none", modified="none")
                e.update({k: v for k, v in kw.items() if k in e})
                tr_events.append(e)
                m["rows"].append(dict(kw, ev=ev))
                ck.count()
                ck.nontriv((sc, ev, kw.get("k"), kw.get("kind"), kw.get("fault"), kw.get("follow")))

            # ---- (a) recorded undisturbed sync ----
            fresh(root, setup)
            before = fsrec.snapshot(root)
            with Stack(unseen()):
                rec, ok, exc = fsrec.count_mutations(root, lambda: op(root))
            if exc is not None:
                raise exc
            after = fsrec.snapshot(root)
            emit("done", ok=bool(ok), **observe())
            units, views = [], []
            if had_old:
                pre = "repos/r"
                units = [dict(root=pre, files=[dict(path=p, cid=o["cid"]) for p, o in sorted(before.items())
                                               if p.startswith(pre + "/") and o["type"] == "file" and os.path.basename(p) not in (".etag", ".modified")]),
                         dict(root=pre, files=[dict(path=p, cid=o["cid"]) for p, o in sorted(after.items())
                                               if p.startswith(pre + "/") and o["type"] == "file" and os.path.basename(p) not in (".etag", ".modified")])]
                views = [["complete", "partial"], ["partial", "complete"]]
            evs = [fsjudge.init_event(tid, before, units=units, views=views, frame=["repos"])]
            sysev = fsjudge.sys_events(tid, rec.events)
            evs += sysev + [fsjudge.final_event(tid, len(sysev) + 1, after, check_mtime=False)]
            fs_events += evs
            m["sys"] = {e["i"]: e for e in sysev}
            n_mut, n_unseen = rec.n_mut, counter[0]
            if tid == 0:
                ck.sample(dict(hadOld=had_old, syscalls=[e["op"] for e in rec.events][:60], mutations=n_mut))
            # second sync, validator unchanged
            ok2 = attempt("good")
            emit("again", ok=ok2, **observe())

            # ---- (b)/(c) the attempt plans of the spec: first attempt crashes (at every crash point) or meets a
            #      fault, the next one is undisturbed or faulty, a final undisturbed one must complete ----
            crash_pts = [("cut", k) for k in range(1, n_mut + 1)] + [("unseen", j) for j in range(1, n_unseen + 1)]
            rename_ks = {e["k"] for e in rec.events if e["op"] == "rename"}

            def crash_at(kind, k):
                fresh(root, setup)
                srv.mode = "good"
                if kind == "cut":
                    with Stack(unseen()):
                        r, done = fsrec.run_with_cut(root, lambda: attempt("good", graceful=True), k)
                else:
                    with Stack(unseen((k, 0.5))):
                        r, done = fsrec.run_with_cut(root, lambda: attempt("good", graceful=True), 10 ** 9)
                if done:
                    raise tlc.MachineryError(f"replay {kind}@{k} was not interrupted")
                ce = r.cut_event or {}
                return dict(kind=kind, k=k, at_op=ce.get("op", "?"), at_path=ce.get("rp", "?"))

            def faulty_then_good(real, at, label):
                t0 = logical_tree()
                attempt(real)
                emit("fault", follow=label, fault=real, t0=t0, **at, **observe())

            def one_object(modes, int_at=None):
                """ONE syncer object in one process makes the syncs `modes` (the first one interrupted before mutation
                int_at, if given); the exit handlers run after the last one.  Returns per-sync observations
                (taken right after the sync; for the last sync after the exit handlers) and the interruption point."""
                rec = IntRecorder(root, int_at) if int_at else None
                out = []
                with Proc() as proc, contextlib.redirect_stdout(io.StringIO()):
                    syncer = tar_mod.tar_syncer(base, uri)
                    for n, mode in enumerate(modes):
                        srv.mode = mode
                        t0, ok, interrupted = logical_tree(), False, False
                        try:
                            if n == 0 and rec is not None:
                                with rec, Stack(unseen()):
                                    ok = bool(syncer.sync())
                            else:
                                ok = bool(syncer.sync())
                        except Interrupt:
                            interrupted = True
                        except Exception:  # noqa: a failed attempt
                            ok = False
                        if n == len(modes) - 1:
                            proc.exit()
                        out.append(dict(mode=mode, ok=ok, t0=t0, interrupted=interrupted, **observe()))
                return out, (rec.int_event if rec is not None else None)

            def emit_history(hist, at, label):
                for h in hist:
                    if h["interrupted"]:
                        continue  # the state after the interruption is the crash state judged by the "fresh" plans
                    obs = {k_: h[k_] for k_ in ("tree", "etag", "modified")}
                    if h["mode"] == "good":
                        emit("recover", follow=label, ok=h["ok"], **at, **obs)
                    else:
                        emit("fault", follow=label, fault=h["mode"], t0=h["t0"], **at, **obs)

            for plan in plans:
                first, nxt = plan["first"], plan["next"]
                if plan["obj"] == "same":
                    nxts = REALIZE[nxt] if nxt != "none" else [None]
                    if first == "crash":
                        k = 0
                        while True:
                            k += 1
                            if ck.quick and nxt != "none" and k not in rename_ks:
                                if k > n_mut:
                                    break
                                continue
                            stop = False
                            for real2 in nxts:
                                fresh(root, setup)
                                modes = ["good"] + ([real2] if real2 else []) + ["good"]
                                hist, ie = one_object(modes, int_at=k)
                                if ie is None:  # k lies beyond the mutations of the sync itself (exit cleanup)
                                    stop = True
                                    break
                                at = dict(kind="interrupt", k=k, at_op=ie["op"], at_path=ie["rp"])
                                emit_history(hist, at, "same:" + "+".join(modes[1:]))
                            if stop or k > n_mut:
                                break
                    else:
                        for real1 in REALIZE[first]:
                            for real2 in nxts:
                                fresh(root, setup)
                                modes = [real1] + ([real2] if real2 else []) + ["good"]
                                hist, _ = one_object(modes)
                                emit_history(hist, dict(kind="fault"), "same:" + "+".join(modes))
                    continue
                if first == "crash":
                    for kind, k in crash_pts:
                        if nxt == "none":
                            at = crash_at(kind, k)
                            emit("crash", **at, **observe())
                            okr = attempt("good")
                            emit("recover", follow="good", ok=okr, **at, **observe())
                            continue
                        if ck.quick and nxt != "http_error" and not (kind == "cut" and k in rename_ks):
                            continue
                        for real in REALIZE[nxt]:
                            at = crash_at(kind, k)
                            faulty_then_good(real, at, real)
                            okr = attempt("good")
                            emit("recover", follow=real + "+good", ok=okr, **at, **observe())
                else:
                    for real1 in REALIZE[first]:
                        for real2 in (REALIZE[nxt] if nxt != "none" else [None]):
                            fresh(root, setup)
                            at = dict(kind="fault")
                            faulty_then_good(real1, at, real1)
                            if real2:
                                faulty_then_good(real2, at, real1 + "+" + real2)
                            okr = attempt("good")
                            emit("recover", fault=real1, follow=real1 + ("+" + real2 if real2 else "") + "+good", ok=okr, **at, **observe())
            # ---- (d) one filesystem call of the sync fails (EIO / ENOSPC): the syncer's own handling + exit cleanup run ----
            import errno

            for k in range(1, n_mut + 1):
                fresh(root, setup)
                with Stack(unseen()):
                    r, _exc = fsrec.run_with_fault(root, lambda: attempt("good"), k, err=errno.ENOSPC if k % 2 else errno.EIO)
                fe = next((e for e in r.events if e["op"] == "fault"), None)
                if fe is None:
                    raise tlc.MachineryError(f"fault replay @{k}: nothing was injected")
                at = dict(kind="eio", k=k, at_op=fe.get("failed_op", "?"), at_path=fe.get("rp", "?"))
                emit("iofault", fault="eio", **at, **observe())
                okr = attempt("good")
                emit("recover", follow="eio+good", ok=okr, **at, **observe())
            plan = crash_pts
            ck.extra["crash_points"] = ck.extra.get("crash_points", 0) + len(plan)
            ck.extra["scenarios"] = ck.extra.get("scenarios", 0) + 1
    finally:
        srv.stop()

    _phase("scenarios")
    def role(at_op, at_path):
        b = os.path.basename(at_path or "")
        if at_op == "rename":
            return "move_new_in" if b == "r" else "move_old_away" if b == ".r.old" else "rename"
        if b in (".etag", ".modified"):
            return "validator"
        if ".r.update" in (at_path or ""):
            return "staging"
        if ".r.old" in (at_path or ""):
            return "old_copy"
        return "other"

    own_verdicts, fs_verdicts = traces_parallel(ck, pool, "TarSync_Trace", tr_events, fs_events)
    for v in own_verdicts:
        m = meta[v["tid"]]
        row = m["rows"][v["i"]]
        d = dict(hadOld=m["hadOld"], scenario=m["sc"], **{k: row.get(k) for k in ("ev", "kind", "k", "at_op", "at_path", "fault", "follow", "t0", "tree", "etag", "modified", "ok")})
        d["at_role"] = role(row.get("at_op"), row.get("at_path"))
        ck.violation(v["clause"], d)
    for v, e in fs_verdicts:
        p = "/".join(e.get("dst") or e.get("p") or [])
        ck.violation(v["clause"], dict(hadOld=meta[e["tid"]]["hadOld"], scenario=meta[e["tid"]]["sc"], ev=e.get("ev"), at_op=e.get("op", e.get("ev")),
                                       at_path=p, k=e.get("k"), at_role=role(e.get("op"), p)))

    _phase("traces")
    for label, want, fut in futs:
        res = fut.result()
        ck.add_mc(label, res)
        if res.violated != want:
            raise tlc.MachineryError(f"{label}: expected {want or 'no violation'}, TLC reports {res.violated}\n{res.out[-2500:]}")
    pool.shutdown()
    _phase("mc_wait")
