"""C31 -- the environment handed to the build daemon arrives exactly.

design      : EnvTransfer_MC (two processes, byte-accurate command pipe, counted reader in the
              daemon's unit): every environment over two names x three modes arrives and the
              final alive/yep! is answered when the sender counts what the reader counts; with the
              count in characters against a byte reader TLC must find the desynchronisation
              (vacuity guard).  EnvTransfer_Laws: the repaired quoting round-trips through the bash
              word model for every text up to a bound, the old one does not; framing laws.
spec -> code: EnvTransfer_Export enumerates every text up to MaxLen characters over an alphabet of
              quotes, backslash, $, backtick, blank, newline, tab, letters, 2- and 3-byte characters;
              each one is sent to a REAL ebuild daemon (pkgcore.ebuild.processor.EbuildProcessor)
              as a string and as an element of a sequence, exported and not, in all three modes
              (inline = start_receiving_env bytes, file = start_receiving_env file, meta = the
              counted payload of gen_metadata/_run_depend_like_phase).
              Sessions: EnvTransfer_Export also enumerates every way the mappings of a session of 2 (3)
              transfers can carry the non-exported marker (naming variables / no marker / empty marker)
              and, for each, EVERY per-variable history (absent, string, sequence; exported or marked; per
              step); the session goes through ONE processor object, modes rotating, values changing per
              step, and every transfer is judged against ITS OWN mapping (the expected export flag is
              derived in the trace spec from the marker of that transfer only).
code -> spec: seeded random sessions of 1-4 environments over a shared pool of names (long values, control
              characters, 4-byte characters, empty values/sequences, markers naming variables the mapping
              does not hold) through the same path.
Observation : a probe sourced by the daemon itself (the ebuild of the request) writes, for every
              probed name, `declare -p` attributes and the value(s) NUL-separated: bash is the
              decoder.  The processor's PKGCORE_VERIF_TRACE hook gives the protocol lines: declared
              count vs payload, acknowledgement, and that `alive` is answered with `yep!` inside
              the phase shell and again at the main loop.  Everything is judged by
              EnvTransfer_Trace (clauses Framing, TransferAcknowledged, NextRequestAnswered,
              ShellObserved, Kind, Value, Elements, Indices, Exported, NoStray).
Carve-outs  : names are valid shell names that neither bash nor the daemon reserve (generated with
              fixed prefixes); values hold no NUL and no lone surrogates; the reader's unit is what the
              daemon's own shell reports (${#x} of a two-byte character): the processor always starts
              the daemon with an empty locale environment, so C.UTF-8 cannot be reached through it.
              The value alphabet leaves out ; & | < > so that a mis-quoted value cannot run commands
              that touch the file system.
"""
import json
import multiprocessing
import os
import shutil
import signal
import subprocess
import threading
import time
from concurrent.futures import ThreadPoolExecutor

from pylib import tlc
from pylib.common import mktmp, rng, use_repo

PROBE = r'''
__verif_probe() {
	# builtins only and no subshells: forks are slow and external commands are forbidden here
	local __n __a __v
	{
	__v=$'\xc3\xa9'; printf 'WIDTH\0%s\0' "${#__v}"
	while IFS= read -r __n; do
		if declare -p "${__n}" &>/dev/null; then
			local -n __r=${__n}
			__a=-${__r@a}
			if [[ ${__a} == *a* ]]; then
				printf 'VAR\0%s\0%s\0%s\0' "${__n}" "${__a}" "${#__r[@]}"
				if [[ ${#__r[@]} -gt 0 ]]; then
					printf '%s\0' "${!__r[@]}" "${__r[@]}"
				fi
			else
				printf 'VAR\0%s\0%s\0%s\0%s\0' "${__n}" "${__a}" "-1" "${__r}"
			fi
			unset -n __r
		else
			printf 'VAR\0%s\0UNSET\0-1\0\0' "${__n}"
		fi
	done < "%D%/names"
	printf 'END\0'
	} > "%D%/out"
}
__verif_probe
'''

SCENARIO_TIMEOUT = 120  # s; a transfer normally takes ~1 s (generous: the box may be heavily loaded)


class Watchdog(Exception):
    pass


def _alarm(signum, frame):
    raise Watchdog()


class Session:
    """One real ebuild daemon (respawned after any anomaly) plus its hook file and probe."""

    def __init__(self, work):
        from pkgcore.ebuild import processor as P
        from pkgcore.ebuild.eapi import get_eapi

        self.P = P
        self.work = work
        os.makedirs(work, exist_ok=True)
        self.hook = os.path.join(work, "hook.ndjson")
        open(self.hook, "w").close()
        os.environ["PKGCORE_VERIF_TRACE"] = self.hook
        self.off = 0
        eb = os.path.join(work, "probe-1.ebuild")
        with open(eb, "w") as f:
            f.write(PROBE.replace("%D%", work))

        class Eb:
            path = eb

        class Pkg:
            category = "cat"
            PF = P_ = "probe-1"
            P = "probe-1"
            PN = "probe"
            PV = "1"
            PR = "r0"
            PVR = "1"
            ebuild = Eb()
            eapi = get_eapi("8")

        self.pkg = Pkg
        self.ebp = None
        self.unit = None
        self.spawns = 0
        self.log = open(os.path.join(work, "daemon.log"), "ab")
        signal.signal(signal.SIGALRM, _alarm)

    def ensure(self):
        if self.ebp is None:
            self.ebp = self.P.EbuildProcessor(False, False, fd_pipes={1: self.log.fileno(), 2: self.log.fileno()})
            self.spawns += 1
        return self.ebp

    def kill(self):
        if self.ebp is not None:
            try:
                self.ebp.shutdown_processor(force=True)
            except BaseException:
                pass
            for f in (getattr(self.ebp, "ebd_write", None), getattr(self.ebp, "ebd_read", None)):
                try:
                    f.close()
                except BaseException:
                    pass
            self.ebp = None

    def hook_records(self):
        with open(self.hook, "rb") as f:
            f.seek(self.off)
            data = f.read()
            self.off = f.tell()
        out = []
        for line in data.split(b"\n"):
            if line.strip():
                out.append(json.loads(line))
        return out

    def transfer(self, mode, env, marker, probe_names):
        """Send one environment, ask the next requests, read the probe; raw observations only."""
        P = self.P
        with open(os.path.join(self.work, "names"), "w") as f:
            f.write("".join(n + "\n" for n in probe_names))
        outp = os.path.join(self.work, "out")
        try:
            os.unlink(outp)
        except OSError:
            pass
        full = dict(env)
        if marker is not None:  # None: the mapping carries no marker at all
            full["PKGCORE_NONEXPORTED_VARS"] = marker
        res = dict(exc="", hung=False, clean=False)
        enc = "utf-8"
        try:
            ebp = self.ensure()
            enc = ebp.ebd_write.encoding
            self.hook_records()  # drop the start-up lines
            signal.setitimer(signal.ITIMER_REAL, SCENARIO_TIMEOUT)
            try:
                if mode == "meta":
                    ebp._run_depend_like_phase("gen_metadata", self.pkg, None, env=full)
                    ok = True
                else:
                    ebp.write("process_ebuild depend")
                    ok = ebp.send_env(P.expected_ebuild_env(self.pkg, full, depends=True),
                                      tmpdir=self.work if mode == "file" else None)
                    if ok:
                        ebp.write("alive")
                        ok = ebp.expect("yep!")
                    if ok:
                        ebp.write("set_sandbox_state 0")
                        ebp.write("start_processing")
                        ok = ebp.generic_handler()
                if ok:
                    ebp.write("alive")
                    ok = ebp.expect("yep!")
                res["clean"] = bool(ok)
            finally:
                signal.setitimer(signal.ITIMER_REAL, 0)
        except Watchdog:
            res["hung"] = True
            res["exc"] = "Watchdog"
        except BaseException as e:  # noqa: the processor raises KeyboardInterrupt/SystemExit on daemon notices
            res["exc"] = type(e).__name__ + ": " + str(e)[:300]
        # protocol lines as the processor's hook recorded them
        toks, declared, payload = [], None, b""
        for r in self.hook_records():
            d, data = r["dir"], r["data"]
            if d == "w":
                head, _, rest = data.partition("\n")
                words = head.split(" ")
                if words[0] == "start_receiving_env" and len(words) >= 3 and words[1] == "bytes":
                    t = "start_receiving_env bytes"
                    declared, payload = int(words[2]), rest.encode(enc, "surrogateescape")
                elif words[0] == "start_receiving_env" and len(words) >= 3 and words[1] == "file":
                    t = "start_receiving_env file"
                    try:
                        with open(head.split(" ", 2)[2], "rb") as f:
                            payload = f.read()
                    except OSError:
                        payload = b""
                elif words[0] == "gen_metadata":
                    t = "gen_metadata"
                    declared, payload = int(words[1]), rest.encode(enc, "surrogateescape")
                elif words[0] in ("process_ebuild", "set_metadata_path", "alive", "set_sandbox_state", "start_processing"):
                    t = words[0]
                else:
                    t = "other"
                toks.append(dict(d="w", t=t))
            elif d == "r":
                line = data.strip()
                if line in ("env_received", "yep!", "phases succeeded", "metadata_path_received", "env_receiving_failed"):
                    t = line
                elif line.startswith("phases failed"):
                    t = "phases failed"
                elif line.startswith("dying"):
                    t = "dying"
                else:
                    t = "other"
                toks.append(dict(d="r", t=t))
        res.update(dlg=toks, declared=declared, payload=list(payload))
        # what bash reported from inside the daemon's shell
        obs, width = {}, None
        try:
            with open(outp, "rb") as f:
                fields = f.read().split(b"\0")
            k = 0
            complete = False
            while k < len(fields):
                tag = fields[k]
                if tag == b"WIDTH":
                    width = int(fields[k + 1])
                    k += 2
                elif tag == b"VAR":
                    name, attrs, cnt = fields[k + 1].decode(), fields[k + 2].decode(), int(fields[k + 3])
                    k += 4
                    if attrs == "UNSET":
                        obs[name] = dict(state="unset", val=[], elems=[], idx=[], exported=False)
                        k += 1
                    elif cnt < 0:
                        obs[name] = dict(state="str", val=list(fields[k]), elems=[], idx=[], exported="x" in attrs)
                        k += 1
                    else:
                        idx = [int(x) if x.isdigit() else -1 for x in fields[k:k + cnt]]
                        elems = [list(x) for x in fields[k + cnt:k + 2 * cnt]]
                        obs[name] = dict(state="seq", val=[], elems=elems, idx=idx, exported="x" in attrs)
                        k += 2 * cnt
                elif tag == b"END":
                    complete = True
                    break
                else:
                    break
            if not complete:
                obs = {}
        except (OSError, ValueError, IndexError):
            obs = {}
        if width is not None:
            self.unit = "byte" if width == 2 else "char"
        res.update(obs=obs, probed=bool(obs) or (not probe_names and width is not None))
        if not res["clean"]:
            self.kill()  # never reuse a daemon whose channel may be out of step
        return res


def marker_of(sc, vars_):
    """The marker entry of this mapping: None = no entry, "" = empty entry, else the marked names."""
    nonexp = [v["name"] for v in vars_ if not v["exported"]]
    kind = sc.get("marker", "named" if nonexp else "absent")
    if kind == "named":
        return " ".join(nonexp + list(sc.get("stale", [])))
    if nonexp:
        raise tlc.MachineryError(f"scenario marks {nonexp} but its marker is {kind}")
    return None if kind == "absent" else ""


def env_of(vars_):
    return {v["name"]: (list(v["elems"]) if v["kind"] == "seq" else v["val"]) for v in vars_}


def _worker(args):
    """Runs in a forked process: its own daemon, its own hook file.  A session (list of scenarios) goes
    through ONE processor object, in order; the daemon is respawned only after an anomaly."""
    idx, work, sessions, deadline, bisect_budget = args
    ses = Session(work)
    out = []
    try:
        warm = ses.transfer("inline", {"VERIF_WARM": "1"}, None, ["VERIF_WARM"])
        if ses.unit is None:
            ses.kill()
            warm = ses.transfer("inline", {"VERIF_WARM": "1"}, None, ["VERIF_WARM"])
        if ses.unit is None:
            return dict(idx=idx, error=f"daemon probe did not run: {warm['exc']} {warm['dlg']}", results=[], spawns=ses.spawns)
        budget = [bisect_budget]

        def run(sc, vars_, hist):
            marker = marker_of(sc, vars_)
            spawns = ses.spawns
            r = ses.transfer(sc["mode"], env_of(vars_), marker, [v["name"] for v in vars_] + sc["stray"])
            r.update(mode=sc["mode"], vars=vars_, stray=sc["stray"], unit=ses.unit, src=sc["src"], marker=marker,
                     history=list(hist) if ses.spawns == spawns else [])  # what the same processor sent before
            hist.append(dict(mode=sc["mode"], env=env_of(vars_), marker=marker))
            completed = r["probed"] and r["clean"]
            if not completed:
                del hist[:]  # the processor is replaced
            if not completed and len(vars_) > 1 and budget[0] > 0 and time.time() < deadline:
                budget[0] -= 2
                h = len(vars_) // 2
                a, b = run(sc, vars_[:h], hist), run(sc, vars_[h:], hist)
                if any(not (x["probed"] and x["clean"]) for x in a + b):
                    return a + b  # the failure is reproduced by a part: report the parts only
                return a + b + [r]
            return [r]

        skipped = 0
        for session in sessions:
            if time.time() > deadline and session[0]["src"] == "random":
                skipped += len(session)  # only the random supplement is subject to the time budget
                continue
            hist = []
            for sc in session:
                out.extend(run(sc, sc["vars"], hist))
        return dict(idx=idx, error="", results=out, spawns=ses.spawns, skipped=skipped)
    finally:
        ses.kill()


# --------------------------------------------------------------------------------------------
NAME_FORMS = ["V{}", "v_{}x", "_w{}", "Ab{}_", "zQ9_{}"]


def mk_name(k):
    return NAME_FORMS[k % len(NAME_FORMS)].format(k)


def pack(values, modes, per_env, src, r_):
    """values -> scenarios: every value once as a string and once as a sequence element."""
    slots = []
    k = 0
    pend = []
    for v in values:
        slots.append(dict(kind="str", val=v, elems=[]))
        pend.append(v)
        if len(pend) == 3:
            slots.append(dict(kind="seq", val="", elems=pend))
            pend = []
    if pend:
        slots.append(dict(kind="seq", val="", elems=pend))
    scs = []
    for s0 in range(0, len(slots), per_env):
        vars_ = []
        for s in slots[s0:s0 + per_env]:
            k += 1
            vars_.append(dict(name=mk_name(k), exported=(k % 3 != 0), **s))
        scs.append([dict(mode=mode, vars=vars_, stray=[f"STRAY_{k}", f"_stray{k}"], src=src) for mode in modes])
    return scs


STATE = {"str_x": ("str", True), "str_p": ("str", False), "seq_x": ("seq", True), "seq_p": ("seq", False)}


def history_sessions(sess_cases, modes):
    """Render the spec's sessions: one variable per history, the same names in every step, a different
    value in every step; the mapping of step j carries the marker as mk[j] says."""
    out = []
    for n, c in enumerate(sorted(sess_cases, key=lambda c: c["mk"])):
        session = []
        for j, mk in enumerate(c["mk"]):
            vars_ = []
            for hi, h in enumerate(c["hists"]):
                if h[j] == "absent":
                    continue
                kind, exported = STATE[h[j]]
                name = NAME_FORMS[hi % len(NAME_FORMS)].format(f"h{hi}")
                vars_.append(dict(name=name, kind=kind, exported=exported, val=f"{j}:{hi} 'q\" $n" if kind == "str" else "",
                                  elems=[f"{j}", f"e{hi} \"'\\"] if kind == "seq" else []))
            absent = [NAME_FORMS[hi % len(NAME_FORMS)].format(f"h{hi}") for hi, h in enumerate(c["hists"]) if h[j] == "absent"]
            session.append(dict(mode=modes[(n + j) % len(modes)], vars=vars_, stray=absent, marker=mk, src="export"))
        out.append(session)
    return out


RANDOM_ALPHABET = (["q", "z", "n", "0", "1", "Q", " ", " ", "\t", "\n", "'", "'", '"', '"', "\\", "\\", "$", "`", "{", "}",
                    "(", ")", "=", "#", "*", "?", "~", "!", "[", "]", "%", "^", ",", ".", "/", ":", "@", "+", "-", "_",
                    "é", "ü", "漢", "\U0001f600", "́", "\r", "\x01", "\x7f", "\x1b"])


def random_scenarios(r_, n_env, modes):
    """Random sessions: 1-4 mappings over a shared pool of names sent through one processor; kinds,
    values, export marks and the way the marker is carried change from step to step."""
    sessions, e = [], 0
    while e < n_env:
        pool = [r_.choice(["R", "r_", "_r", "Rx9_", "rnd_"]) + str(e) + "_" + str(j) + r_.choice(["", "_", "a", "Z0"])
                for j in range(r_.randint(2, 10))]
        session = []
        for _step in range(r_.choice([1, 2, 2, 3, 4])):
            all_exported = r_.random() < 0.35
            vars_ = []

            def text():
                ln = r_.choice([0, 1, 2, 3, 5, 8, 13, 40])
                return "".join(r_.choice(RANDOM_ALPHABET) for _ in range(ln))
            for name in r_.sample(pool, r_.randint(1, len(pool))):
                exported = all_exported or r_.random() < 0.6
                if r_.random() < 0.35:
                    vars_.append(dict(name=name, kind="seq", val="", elems=[text() for _ in range(r_.randint(0, 5))], exported=exported))
                else:
                    vars_.append(dict(name=name, kind="str", val=text(), elems=[], exported=exported))
            sc = dict(mode=r_.choice(modes), vars=vars_, stray=[n for n in pool if n not in {v["name"] for v in vars_}] + [f"STRAY_r{e}"],
                      src="random")
            if all(v["exported"] for v in vars_):
                sc["marker"] = r_.choice(["absent", "absent", "empty"])
            else:
                sc["marker"] = "named"
                if r_.random() < 0.3:  # the marker may also name variables the mapping does not hold
                    sc["stale"] = [n for n in pool if n not in {v["name"] for v in vars_}][:2]
            session.append(sc)
            e += 1
        sessions.append(session)
    return sessions


def b(s):
    return list(s.encode("utf-8"))


_T0 = time.time()


def dbg(*a):
    if os.environ.get("VERIF_DEBUG"):
        import sys

        print(f"[c31 {time.time() - _T0:6.1f}s]", *a, file=sys.stderr, flush=True)


def bash_words(words):
    """Have the real bash decode shell words (binding of the word model); returns [(ok, chars)]."""
    d = mktmp("c31words")
    script = os.path.join(d, "w.bash")
    with open(script, "w") as f:
        f.write('while IFS= read -r -d "" w; do\n  unset x\n'
                '  if eval "x=${w}" 2>/dev/null; then printf "OK\\0%s\\0" "${x}"; '
                'else printf "ERR\\0\\0"; fi\ndone\n')
    inp = b"".join("".join(w).encode() + b"\0" for w in words)
    p = subprocess.run([shutil.which("bash") or "/bin/bash", "--norc", "--noprofile", script], input=inp, capture_output=True, timeout=300,
                       env={"PATH": "/nonexistent", "LC_ALL": "C"}, cwd=d)
    f = p.stdout.split(b"\0")
    res = []
    for k in range(len(words)):
        res.append((f[2 * k] == b"OK", [c for c in f[2 * k + 1].decode("utf-8", "surrogateescape")]))
    if len(res) != len(words):
        raise tlc.MachineryError("bash word decoding produced a short answer")
    return res


def mc_cfg(counting, unit, maxseq, live=True):
    return (f'SPECIFICATION Spec\nCONSTANTS\n Counting = "{counting}"\n Unit = "{unit}"\n MaxSeq = {maxseq}\n'
            "INVARIANT TypeOK\nINVARIANT Arrives\nINVARIANT NoGarbage\n" + ("PROPERTY Answered\n" if live else ""))


def design_runs(ck, out):
    """TLC on the design; the runs go side by side, beside the daemon work."""
    ms = ck.pick(0, 2)
    jobs = [
        ("mc", f"MC:EnvTransfer_MC count=bytes reader=byte MaxSeq={ms}",
         lambda: tlc.run("EnvTransfer_MC", cfg_text=mc_cfg("bytes", "byte", ms), workers=ck.pick(2, 4), timeout=ck.pick(200, 800), deadlock=True)),
        ("guard", "MC:EnvTransfer_MC count=chars reader=byte (must fail)",
         lambda: tlc.run("EnvTransfer_MC", cfg_text=mc_cfg("chars", "byte", ck.pick(0, 1)), workers=2, timeout=ck.pick(200, 800))),
        ("laws", "Laws:EnvTransfer_Laws",
         lambda: tlc.run("EnvTransfer_Laws", cfg_text=f"CONSTANTS\n MaxLen = {ck.pick(3, 4)}\n MaxBytes = {ck.pick(3, 4)}\n",
                         assume_only=True, timeout=ck.pick(200, 800))),
    ]
    if not ck.quick:
        jobs.append(("mc", "MC:EnvTransfer_MC count=chars reader=char MaxSeq=1",
                     lambda: tlc.run("EnvTransfer_MC", cfg_text=mc_cfg("chars", "char", 1), workers=2, timeout=800, deadlock=True)))
        # the starved reader is a deadlock (pylib.tlc does not recognise this TLC's liveness message)
        jobs.append(("guard", "MC:EnvTransfer_MC count=bytes reader=char (must deadlock)",
                     lambda: tlc.run("EnvTransfer_MC", cfg_text=mc_cfg("bytes", "char", 1, live=False), workers=2, timeout=800, deadlock=True)))

    def one(job):
        try:
            return job[0], job[1], job[2]()
        except BaseException as e:  # re-raised in the main thread
            return "error", str(e), None

    with ThreadPoolExecutor(len(jobs)) as ex:
        out.extend(ex.map(one, jobs))


def run(ck):
    use_repo()
    ck.rule = ("one real daemon transfer per (environment, mode), grouped in sessions that go through one processor object; "
               "non-trivial = distinct (kind, value, exported, mode) of a variable whose value is not purely alphanumeric and that "
               "was observed inside the daemon's shell, plus every observed transfer that followed another one on the same processor")
    ck.assumptions = [
        "bash is the decoder: values are read back by a probe the daemon itself sources (declare -p attributes, NUL separated values)",
        "the counted reader's unit is the one the daemon's shell reports for a two-byte character",
        "names are valid shell names outside the sets bash / the daemon reserve; values hold no NUL",
        "protocol lines are those recorded by the PKGCORE_VERIF_TRACE hook of processor.py",
    ]
    modes = ["inline", "file", "meta"]
    r_ = rng(31)
    work = mktmp("c31")

    design = []
    th = None
    if not ck.replay_case:
        th = threading.Thread(target=design_runs, args=(ck, design), daemon=True)
        th.start()
        cases = ck.export("EnvTransfer_Export", timeout=ck.pick(120, 600),
                          cfg_text=f"CONSTANTS\n MaxLen = {ck.pick(2, 3)}\n MaxWord = {ck.pick(2, 3)}\n SessLen = {ck.pick(2, 3)}\n")
        dbg("export done", len(cases))
        values = sorted("".join(chr(c) for c in x["cp"]) for x in cases if x["k"] == "val")
        words = sorted((x["w"] for x in cases if x["k"] == "word"), key=lambda w: (len(w), w))
        ck.exhaustive = True
        # a session = the scenarios sent, in order, through ONE processor object
        scs = history_sessions([x for x in cases if x["k"] == "sess"], modes)
        scs += pack(values, modes, ck.pick(64, 60), "export", r_)
        scs += random_scenarios(r_, ck.pick(12, 900), modes)
        if not ck.quick:  # payloads larger than the pipe buffer
            big = "".join(r_.choice(["q", " ", "'", "\\", "é", "\n", '"', "$"]) for _ in range(70000))
            scs.append([dict(mode=mode, vars=[dict(name="BIG_1", kind="str", val=big, elems=[], exported=True),
                                              dict(name="big_2", kind="seq", val="", elems=[big[:30000], "", big[30000:]], exported=False)],
                             stray=["STRAY_big"], src="export") for mode in modes])
    else:
        d = ck.replay_case["detail"]
        words = []

        def step(mode, env, marker, stray):
            marked = set((marker or "").split())
            vars_ = [dict(name=n, kind="seq" if isinstance(v, list) else "str", val="" if isinstance(v, list) else v,
                          elems=v if isinstance(v, list) else [], exported=n not in marked) for n, v in env.items()]
            return dict(mode=mode, vars=vars_, stray=stray, src="replay", stale=sorted(marked - set(env)),
                        marker="named" if marker else ("absent" if marker is None else "empty"))
        # what the same processor object had sent before belongs to the case
        scs = [[step(h["mode"], h["env"], h["marker"], []) for h in d.get("history", [])]
               + [step(d["mode"], d["env"], d.get("marker"), d.get("probe_absent", []))]]

    nproc = min(ck.pick(4, 6), max(1, len(scs)))
    deadline = time.time() + ck.pick(38, 700)
    chunks = [scs[k::nproc] for k in range(nproc)]
    args = [(k, os.path.join(work, f"w{k}"), chunks[k], deadline, ck.pick(8, 60)) for k in range(nproc)]
    ctx = multiprocessing.get_context("fork")
    dbg("sessions", len(scs), "transfers", sum(len(x) for x in scs), "workers", nproc)
    with ctx.Pool(nproc) as pool:
        outs = pool.map(_worker, args)
    dbg("daemon work done", [(len(o["results"]), o["spawns"], o.get("skipped")) for o in outs])
    from pkgcore.ebuild import processor as P

    P.shutdown_all_processors()
    for o in outs:
        if o["error"]:
            raise tlc.MachineryError(o["error"])
    ck.extra["daemon_spawns"] = sum(o["spawns"] for o in outs)
    ck.extra["scenarios_skipped_at_deadline"] = sum(o.get("skipped", 0) for o in outs)
    results = [r for o in outs for r in o["results"]]
    if not results:
        raise tlc.MachineryError("no transfer was executed")

    events, meta = [], {}
    for tid, r in enumerate(results):
        ck.count()
        hasdecl = r["declared"] is not None
        events.append(dict(tid=tid, i=0, ev="transfer", mode=r["mode"], unit=r["unit"], hasdecl=hasdecl,
                           declared=r["declared"] if hasdecl else 0, payload=r["payload"], dlg=r["dlg"], probed=r["probed"],
                           marker=dict(present=r["marker"] is not None, names=(r["marker"] or "").split())))
        if len(r["history"]) > 0 and r["probed"]:
            ck.nontriv(("session-step", tid))
        meta[(tid, 0)] = r
        if not r["probed"]:
            continue
        i = 0
        for v in r["vars"]:
            i += 1
            o = r["obs"].get(v["name"])
            if o is None:
                raise tlc.MachineryError(f"probe lost {v['name']}")
            events.append(dict(tid=tid, i=i, ev="var", name=v["name"],
                               sent=dict(present=True, kind=v["kind"], val=b(v["val"]), elems=[b(x) for x in v["elems"]]), obs=o))
            meta[(tid, i)] = v
            txt = v["val"] + "".join(v["elems"])
            if txt and not txt.isalnum():
                ck.nontriv((v["kind"], v["val"], tuple(v["elems"]), v["exported"], r["mode"]))
        for n in r["stray"]:
            i += 1
            o = r["obs"].get(n)
            if o is None:
                raise tlc.MachineryError(f"probe lost {n}")
            events.append(dict(tid=tid, i=i, ev="var", name=n,
                               sent=dict(present=False, kind="str", val=[], elems=[]), obs=o))
            meta[(tid, i)] = dict(name=n, kind="absent", val="", elems=[], exported=False)
    wbase = len(results)
    if words:
        got = bash_words(words)
        for k, (w, (ok, val)) in enumerate(zip(words, got)):
            events.append(dict(tid=wbase + k, i=0, ev="word", w=w, ok=ok, val=val))
    if results:
        r0 = results[0]
        ck.sample(dict(mode=r0["mode"], unit=r0["unit"], declared=r0["declared"], payload_bytes=len(r0["payload"]),
                       dialogue=[x["d"] + ":" + x["t"] for x in r0["dlg"]],
                       vars=[dict(name=v["name"], kind=v["kind"], val=v["val"], elems=v["elems"]) for v in r0["vars"][:4]]))

    dbg("events", len(events))
    verdicts = ck.trace("EnvTransfer_Trace", events, timeout=ck.pick(300, 1500))
    dbg("trace judged", len(verdicts))
    if th is not None:
        th.join()
        dbg("design done", [(l, round(r.wall, 1)) for _k, l, r in design if r])
        guard_seen = False
        for kind, label, res in design:
            if kind == "error":
                raise tlc.MachineryError(label)
            ck.add_mc(label, res)
            if kind == "guard":
                if not res.violated:
                    raise tlc.MachineryError(f"{label}: TLC found no desynchronisation: the model is vacuous")
                guard_seen = True
            elif res.violated:
                raise tlc.MachineryError(f"{label}: {res.violated}\n{res.out[-2000:]}")
        if not guard_seen:
            raise tlc.MachineryError("design runs incomplete")

    def show(o):
        if o["state"] == "str":
            return bytes(o["val"]).decode("utf-8", "backslashreplace")
        if o["state"] == "seq":
            return [bytes(x).decode("utf-8", "backslashreplace") for x in o["elems"]]
        return None

    for v in verdicts:
        if v["clause"] == "BashModel":
            bad = [e for e in events if e["tid"] == v["tid"]]
            raise tlc.MachineryError(f"bash word model disagrees with bash on {bad}")
        r = results[v["tid"]]
        if v["i"] == 0:
            env = {x["name"]: (x["elems"] if x["kind"] == "seq" else x["val"]) for x in r["vars"]}
            p = bytes(r["payload"])
            ck.violation(v["clause"], dict(mode=r["mode"], env=env, marker=r["marker"], history=r["history"],
                                           unit=r["unit"], declared=r["declared"], payload_bytes=len(p),
                                           payload_chars=len(p.decode("utf-8", "replace")),
                                           non_ascii=any(c > 127 for c in p),
                                           dialogue=[x["d"] + ":" + x["t"] for x in r["dlg"]], exc=r["exc"], hung=r["hung"]))
        else:
            x = meta[(v["tid"], v["i"])]
            o = r["obs"][x["name"]]
            val = x["elems"] if x["kind"] == "seq" else x["val"]
            # replayable: the mapping of this transfer and what the same processor object had sent before
            ck.violation(v["clause"], dict(mode=r["mode"], name=x["name"], kind=x["kind"], marked_nonexported=not x["exported"],
                                           value=val, env=env_of(r["vars"]), marker=r["marker"], history=r["history"],
                                           after_transfers_on_same_processor=len(r["history"]),
                                           probe_absent=[x["name"]] if x["kind"] == "absent" else [],
                                           observed_state=o["state"], observed=show(o), observed_exported=o["exported"]))
