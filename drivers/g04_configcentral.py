"""G04 — the configuration manager as a state machine (config/central.py, config/basics.py).

Spec        : ConfigCentral.tla — one operator per public call of ConfigManager / CollapsedConfig /
              objects.<type> / lazy references over a library of config sources (autoload sections
              included); properties AtMostOnce, OnlyAfter, CacheCoherent, OrderIndependent, NoResidue
              (failed queries, refused add_config_source), Include (autoload precedence).
MC          : ConfigCentral_MC — every history up to MaxOps calls over the universes below (written to a
              JSON file the model reads, so model and replay share the data); 8 invariants, 7 action
              properties; three vacuity guards (GUARDS): the design without the redefinition check, with
              the lazy reference caching before its type check, with a non-atomic add must be refuted.
spec -> code: ConfigCentral_Sim (TLC -simulate) chooses call histories; each runs on a real ConfigManager
              built from the same universe (sections = AutoConfigSection, classes = recording callables).
code -> spec: seeded random histories over random libraries on real managers.
Every call of both kinds is logged with what it returned/raised, which configurables it invoked with
which objects, and the projected manager afterwards (sections(), sections_lookup, rendered_sections,
instances, lazy reference caches, _refs); ConfigCentral_Trace judges every clause of every call.

Carve-outs: after a failed reload() the contents of the manager are unspecified until a load succeeds
(only the exception, the invoked configurables and the recursion guard are judged); which sections a
FAILED get_default left cached depends on the listing order and is only bounded (LooseRen); values /
inheritance are C43's business (inheriting sections state all their keys: inherit can only fail here); references are
typed and by name; no section inherits from its own name.
"""
import json
import os
import threading
import time

from pylib import tlc
from pylib.common import mktmp, rng, seed, use_repo

TYPES = ["t1", "t2", "configsection"]


def B(name, kind="obj", ty="t1", beh="ok", refs=(), want="t2", lazy=(), lwant="t2", dflt=False, load=(0, 0), inh=()):
    return dict(name=name, kind=kind, ty="configsection" if kind == "loader" else ty, beh=beh, refs=list(refs), want=want,
                lazy=list(lazy), lwant=lwant, dflt=dflt, load=list(load), inh=list(inh))


# The model-checked universes.  Source numbers are 1-based positions in lib.
UNIVERSES = {
    # diamond a -> (b, c -> b); lazy references (one ill-typed); a failing class; an autoload whose content
    # follows the switch; overlays that break b, are self-recursive, add a class-less default, redefine
    # what an autoload collapsed
    "main": dict(
        lib=[
            [  # 1 base
                B("a", ty="t1", refs=["b", "c"], want="t2", lazy=["d", "b"], lwant="t2"),
                B("b", ty="t2", dflt=True),
                B("c", ty="t2", refs=["b"], want="t2"),
                B("d", ty="t1", beh="raise", dflt=True),
                B("autoload-x", kind="loader", load=(3, 0)),
                B("e", ty="t1", refs=["f"], want="t2"),
            ],
            [  # 2 overlay: b returns None, g refers to itself
                B("b", ty="t2", beh="none"),
                B("g", ty="t1", refs=["g"], want="t1"),
            ],
            [  # 3 what autoload-x loads while the switch is off: c (defined before the autoload) is overridden
                B("c", ty="t2"),
                B("f", ty="t2"),
            ],
            [  # 4 overlay with an autoload that uses b
                B("autoload-y", kind="loader", refs=["b"], want="t2", load=(5, 5)),
                B("h", kind="inhonly", ty="t1", dflt=True),
            ],
            [  # 5 loaded by autoload-y: a second default of type t2
                B("f", ty="t2", dflt=True),
            ],
            [  # 6 overlay redefining b (refused once autoload-y collapsed b), plus a class-less section
                B("b", ty="t2"),
                B("n", kind="noclass", dflt=True),
            ],
            [  # 7 overlay whose autoload collapses b before the overlay itself redefines b
                B("autoload-y", kind="loader", refs=["b"], want="t2", load=(5, 5)),
                B("b", ty="t2"),
            ],
        ],
        auto=["autoload-x", "autoload-y"],
        init=[1],
        addable=[2, 4, 6, 7],
        names=["a", "b", "c", "d", "e", "g", "autoload-x", "zz"],
        types=TYPES,
    ),
    # nested autoloads and precedence: p is defined before, inside and after the includes
    "nested": dict(
        lib=[
            [B("p", ty="t1"), B("autoload-x", kind="loader", load=(2, 3)), B("q", ty="t2", refs=["p"], want="t1"),
             B("k", ty="t1", inh=["p"]), B("m", ty="t2", inh=["k", "zz"]), B("w", ty="t2", refs=["m"], want="t2")],
            [B("p", ty="t2"), B("autoload-y", kind="loader", load=(3, 0)), B("q", ty="t1")],
            [B("r", ty="t1", lazy=["q"], lwant="t2", dflt=True), B("p", ty="t1", beh="raise")],
            [B("autoload-x", kind="loader", load=(3, 3))],
            [B("r", ty="t1", refs=["q"], want="t2", dflt=True), B("autoload-z", ty="t1")],
        ],
        auto=["autoload-x", "autoload-y", "autoload-z"],
        init=[1],
        addable=[3, 4, 5],
        names=["p", "q", "r", "k", "m", "w", "zz"],
        types=TYPES,
    ),
}

INVARIANTS = ["InvNested", "InvCacheCoherent", "InvRenderedClosed", "InvSharedInstances", "InvOrderIndependent",
              "InvLazyCacheSound", "InvStacksAreLoad", "InvInitOnlyAfter"]
PROPERTIES = ["PropAtMostOnce", "PropOnlyAfter", "PropNoResidue", "PropRepeatable", "PropAddAtomic", "PropCachesGrow",
              "PropLoadForgets"]
SWITCHES = ["RefuseRedefinition", "LazyCheckBeforeCache", "AddIsAtomic"]
GUARDS = [  # (universe, switch set to FALSE, one of the things TLC must then report)
    ("main", "RefuseRedefinition", ("InvCacheCoherent", "InvStacksAreLoad", "PropRepeatable", "PropNoResidue")),
    ("main", "LazyCheckBeforeCache", ("InvLazyCacheSound", "PropNoResidue")),
    ("main", "AddIsAtomic", ("PropAddAtomic", "InvStacksAreLoad")),
]


def mc_cfg(spec, maxops, off=(), extra="", check=True):
    consts = "".join(f"  {s} = {'FALSE' if s in off else 'TRUE'}\n" for s in SWITCHES)
    body = f"SPECIFICATION {spec}\nCONSTANTS\n  MaxOps = {maxops}\n  Lib <- ULib\n  AutoNames <- UAuto\n{consts}{extra}"
    if check:
        body += "".join(f"INVARIANT {i}\n" for i in INVARIANTS) + "".join(f"PROPERTY {p}\n" for p in PROPERTIES)
    return body


def uni_file(name):
    path = os.path.join(mktmp("g04"), f"uni-{name}.json")
    with open(path, "w") as f:
        f.write(json.dumps(UNIVERSES[name], separators=(",", ":")) + "\n")
    return path


# ------------------------------------------------------------------------------------------------
class World:
    """One library rendered as real config sections + one ConfigManager over it."""

    BLANK = dict(orig=[], sections=[], stacks=[], rendered=[], lazy=[], guard=[])

    def __init__(self, uni):
        from pkgcore.config import basics, central
        from pkgcore.config.hint import configurable

        self.central = central
        self.uni = uni
        self.seq = 0
        self.sw = False
        self.calls = []
        self.m = None
        self.secid = {}   # id(section object) -> source number
        self.srcid = {}   # id(source dict)    -> source number
        self.keep = []
        self.sections = []
        world = self

        class Obj:
            pass

        class Src(dict):
            pass

        def callable_for(s, b):
            # a section that inherits states every key itself (own keys override inherited ones)
            single = len(b["refs"]) == 1 and (s + len(b["name"])) % 2 == 0 and not b["inh"]
            lsingle = len(b["lazy"]) == 1 and (s + len(b["name"])) % 2 == 1 and not b["inh"]
            types = {}
            if b["refs"] or b["inh"]:
                types["r"] = ("ref:" if single else "refs:") + b["want"]
            if b["lazy"] or b["inh"]:
                types["lz"] = ("lazy_ref:" if lsingle else "lazy_refs:") + b["lwant"]

            @configurable(types=types, typename=b["ty"])
            def make(**kw):
                world.seq += 1
                q = world.seq
                r = kw.get("r", [])
                if single:
                    r = [r]
                args = [getattr(x, "verif_tok", -1) for x in r]
                child = b["load"][1 if world.sw else 0] if b["kind"] == "loader" else 0
                world.calls.append(dict(src=s, name=b["name"], args=args, seq=q, child=child))
                if b["kind"] == "loader":
                    if child == 0:
                        raise ValueError("nothing to load")
                    obj = Src(world.source(child))
                    world.srcid[id(obj)] = child
                    world.keep.append(obj)
                else:
                    if b["beh"] == "raise":
                        raise ValueError("class failed")
                    if b["beh"] == "none":
                        return None
                    obj = Obj()
                obj.verif_tok, obj.verif_args, obj.verif_child = q, args, child
                return obj

            make.__name__ = f"make_{s}_{b['name'].replace('-', '_')}"
            make.verif_src, make.verif_single, make.verif_lsingle = s, single, lsingle
            return make

        for s, src in enumerate(uni["lib"], 1):
            d = {}
            for b in src:
                conf = {}
                if b["kind"] != "noclass":
                    conf["class"] = callable_for(s, b)
                if b["kind"] == "inhonly":
                    conf["inherit-only"] = True
                own = bool(b["inh"]) and b["kind"] in ("obj", "loader")
                if b["inh"]:
                    conf["inherit"] = list(b["inh"])
                if (b["refs"] or own) and b["kind"] in ("obj", "loader"):
                    conf["r"] = " ".join(b["refs"])
                if (b["lazy"] or own) and b["kind"] in ("obj", "loader"):
                    conf["lz"] = " ".join(b["lazy"])
                if b["dflt"] or own:
                    conf["default"] = bool(b["dflt"])
                sec = basics.AutoConfigSection(conf)
                self.secid[id(sec)] = s
                self.keep.append(sec)
                d[b["name"]] = sec
            self.sections.append(d)

    def source(self, s):
        d = dict(self.sections[s - 1])   # a new mapping of the same section objects, in definition order
        self.srcid[id(d)] = s
        self.keep.append(d)
        return d

    # ---- projection ----
    def project(self):
        m = self.m
        if m is None:
            return dict(self.BLANK)
        orig = [self.srcid.get(id(getattr(x, "section_data", x)), 0) for x in m.original_config_sources]
        stacks = [dict(name=n, srcs=[self.secid.get(id(x), 0) for x in dq]) for n, dq in m.sections_lookup.items()]
        rendered, lazy = [], []
        for n, cc in m.rendered_sections.items():
            fn = cc.type.callable
            r = cc.config.get("r", [])
            if getattr(fn, "verif_single", False):
                r = [r]
            lz = cc.config.get("lz", [])
            if getattr(fn, "verif_lsingle", False):
                lz = [lz]
            inst = cc._instance
            rendered.append(dict(
                name=n, src=getattr(fn, "verif_src", 0), refs=[x.name for x in r],
                shared=all(x is m.rendered_sections.get(x.name) for x in r) and cc.name == n,
                tok=getattr(inst, "verif_tok", 0) if inst is not None else 0,
                args=list(getattr(inst, "verif_args", [])) if inst is not None else [],
                child=getattr(inst, "verif_child", 0) if inst is not None else 0))
            for k, ref in enumerate(lz, 1):
                if ref.cached_config is not None:
                    lazy.append([n, k])
        return dict(orig=orig, sections=list(m.sections()), stacks=stacks, rendered=rendered, lazy=lazy, guard=sorted(m._refs))

    # ---- one public call ----
    def apply(self, a):
        self.calls = []
        out = dict(exc="", sec="-", tok=0, ty="-", flag=False, keys=[])
        op = a["op"]
        try:
            if op == "init":
                self.m = None
                self.m = self.central.ConfigManager([self.source(s) for s in a["o"]])
            elif op == "reload":
                self.m.reload()
            elif op == "add":
                self.m.add_config_source(self.source(a["s"]))
            elif op == "flip":
                self.sw = not self.sw
            elif op == "collapse":
                cc = self.m.collapse_named_section(a["n"])
                out.update(tok=getattr(cc.type.callable, "verif_src", 0), ty=cc.type.name, flag=bool(cc.default))
            elif op == "instantiate":
                out["tok"] = self.m.collapse_named_section(a["n"]).instantiate().verif_tok
            elif op == "objget":
                out["tok"] = getattr(self.m.objects, a["t"])[a["n"]].verif_tok
            elif op == "contains":
                out["flag"] = a["n"] in getattr(self.m.objects, a["t"])
            elif op == "objkeys":
                out["keys"] = sorted(getattr(self.m.objects, a["t"]).keys())
            elif op == "getdefault":
                obj = self.m.get_default(a["t"])
                out["tok"] = 0 if obj is None else obj.verif_tok
            elif op == "force":
                cc = self.m.collapse_named_section(a["n"])      # cached: the caller holds it already
                lz = cc.config["lz"]
                if cc.type.callable.verif_lsingle:
                    lz = [lz]
                out["tok"] = lz[a["k"] - 1].instantiate().verif_tok
            else:
                raise ValueError(op)
        except Exception as e:  # noqa: BLE001 - whatever a public call raises is an observation, judged by clause Exc
            out["exc"] = type(e).__name__
            sec = getattr(e, "section_name", None)
            out["sec"] = sec if isinstance(sec, str) else "-"
        return out

    # ---- which calls the random generator may ask for (domain of the specification) ----
    def enabled(self, broken, names, addable):
        acts = [dict(op="reload"), dict(op="reload"), dict(op="flip")]
        acts += [dict(op="add", s=s) for s in addable]
        if broken:
            return acts
        for n in names:
            acts += [dict(op="collapse", n=n), dict(op="instantiate", n=n), dict(op="instantiate", n=n)]
            for t in TYPES[:2]:
                acts.append(dict(op="objget", t=t, n=n))
            acts.append(dict(op="contains", t=TYPES[len(n) % 2], n=n))
        for t in TYPES:
            acts += [dict(op="objkeys", t=t), dict(op="getdefault", t=t)]
        for n, cc in self.m.rendered_sections.items():
            lz = cc.config.get("lz", [])
            nl = 1 if cc.type.callable.verif_lsingle else len(lz)
            for k in range(1, nl + 1):
                acts += [dict(op="force", n=n, k=k)] * 3
        return acts


def full(a):
    out = dict(op=a["op"], n="-", t="-", s=0, k=0, o=[])
    out.update({k: v for k, v in a.items() if k in out})
    return out


def run_history(uni, u, tid, actions, events, r_=None, steps=0):
    """Execute a given call list (spec -> code) or generate one (code -> spec) on a new world."""
    w = World(uni)
    broken = False
    hist = []
    i = 0
    names = sorted({b["name"] for src in uni["lib"] for b in src}) + ["zz"]
    while True:
        if actions is not None:
            if i >= len(actions):
                break
            a = full(actions[i])
        else:
            if i > steps:
                break
            a = full(dict(op="init", o=uni["init"]) if i == 0 else r_.choice(w.enabled(broken, names, uni["addable"])))
        out = w.apply(a)
        i += 1
        ev = dict(tid=tid, i=i, u=u, sw=w.sw, calls=w.calls, seq=w.seq, st=w.project(), **a, **out)
        events.append(ev)
        hist.append(a)
        if a["op"] == "init" and out["exc"]:
            break
        if a["op"] == "reload":
            broken = bool(out["exc"])
        elif a["op"] == "add" and not out["exc"]:
            broken = False
    return hist


def random_universe(r_):
    """A library whose first source mostly works: names have a home type, references mostly point to
    later names of the demanded type; overlays / loaded sources break that now and then."""
    names = ["a", "b", "c", "d", "e"][: r_.randint(3, 5)]
    autos = ["autoload-x", "autoload-y"]
    home = {n: r_.choice(["t1", "t2"]) for n in names}
    nsrc = r_.randint(4, 7)

    def targets(n, wild):
        want = r_.choice(["t1", "t2"])
        later = [x for x in names if home[x] == want and x > n]
        pool = later if r_.random() > wild else names + ["zz"] * (r_.random() < 0.3)
        k = r_.choice([0, 0, 1, 1, 2, 3])
        return [r_.choice(pool) for _ in range(k)] if pool else [], want

    def inherits(n):
        # a defined section mostly, now and then a name no source defines; never the section's own name
        if r_.random() > 0.25:
            return []
        pool = [x for x in names if x != n] * 3 + ["zz"]
        return [r_.choice(pool) for _ in range(r_.choice([1, 1, 2]))]

    def binding(n, s):
        wild = 0.08 if s == 1 else 0.25
        if n in autos:
            if r_.random() < wild / 2:
                return B(n, ty=r_.choice(["t1", "t2"]))     # an autoload that is no config section
            ch = [c for c in range(2, nsrc + 1) if c != s]
            load = (r_.choice(ch), r_.choice(ch + [0]))
            if r_.random() < 0.2:
                load = (load[1], load[0])
            refs, want = targets("", wild) if r_.random() < 0.3 else ([], "t2")
            return B(n, kind="loader", refs=refs[:1], want=want, load=load)
        x = r_.random()
        if x < wild / 2:
            return B(n, kind="noclass", dflt=r_.random() < 0.5)     # (a class-less heir would take its class from C43's rules)
        if x < wild:
            return B(n, kind="inhonly", ty=home[n], dflt=r_.random() < 0.5, inh=inherits(n))
        refs, want = targets(n, wild)
        lazy, lwant = targets(n, wild + 0.15)
        return B(n, ty=home[n] if r_.random() > wild else r_.choice(["t1", "t2"]),
                 beh=r_.choice(["ok"] * 8 + ["raise", "none"]), refs=refs, want=want, lazy=lazy[:2], lwant=lwant,
                 dflt=r_.random() < 0.15, inh=inherits(n))

    lib = []
    for s in range(1, nsrc + 1):
        if s == 1:
            ns = [n for n in names if r_.random() < 0.9]
            if r_.random() < 0.6:
                ns.insert(r_.randint(0, len(ns)), "autoload-x")
        else:
            ns = r_.sample(names, r_.randint(1, min(3, len(names))))
            if r_.random() < 0.3:
                ns.insert(r_.randint(0, len(ns)), r_.choice(autos))
        lib.append([binding(n, s) for n in ns])
    init = [1] + ([r_.randint(2, nsrc)] if r_.random() < 0.3 else [])
    return dict(lib=lib, auto=autos, init=init, addable=list(range(2, nsrc + 1)), names=names, types=TYPES)


def interesting(events):
    """a history counts as non-trivial when something was invoked and something failed or was reloaded"""
    ops = {e["op"] for e in events}
    return any(e["calls"] for e in events) and (any(e["exc"] for e in events) or ops & {"reload", "add"})


REPORTED = {}


def judge(ck, unis, events, label):
    if not events:
        return
    header = dict(tid=-1, i=0, op="universes", unis=[dict(lib=u["lib"], auto=u["auto"]) for u in unis])
    verdicts = ck.trace("ConfigCentral_Trace", [header] + events, label=label, timeout=1500)
    by = {(e["tid"], e["i"]): e for e in events}
    first_real = {}
    for v in verdicts:
        if v["clause"] != "OutsideDomain":
            first_real[v["tid"]] = min(first_real.get(v["tid"], 10**9), v["i"])
    for v in verdicts:
        e = by[(v["tid"], v["i"])]
        if v["clause"] == "OutsideDomain":
            if first_real.get(v["tid"], 10**9) < v["i"]:
                continue  # the manager already deviated earlier in this history
            raise tlc.MachineryError(f"generator left the specification's domain: {e}")
        # the harness keeps 15 replay files: report every (clause, call) combination once so that
        # one frequent deviation does not crowd out the others; the total is kept in the evidence
        ck.extra["verdicts_total"] = ck.extra.get("verdicts_total", 0) + 1
        key = (v["clause"], e["op"])
        REPORTED[key] = REPORTED.get(key, 0) + 1
        if REPORTED[key] > 1:
            continue
        hist = [dict(op=x["op"], n=x["n"], t=x["t"], s=x["s"], k=x["k"], o=x["o"])
                for x in events if x["tid"] == e["tid"] and x["i"] <= e["i"]]
        ck.violation(v["clause"], dict(op=e["op"], exc=e["exc"], universe=unis[e["u"] - 1], history=hist,
                                       observed=dict(exc=e["exc"], sec=e["sec"], tok=e["tok"], keys=e["keys"], calls=e["calls"],
                                                     st=e["st"])))


def run(ck):
    use_repo()
    ck.rule = ("histories of ConfigManager calls (collapse / instantiate / objects.<type>[name] / objects.<type>.keys() / "
               "get_default / lazy reference use / reload / add_config_source / environment switch) on real managers over "
               "libraries of sources with typed references, lazy references, failing classes and autoload sections; chosen "
               "by TLC simulation of ConfigCentral_Sim and by a seeded random generator over random libraries; non-trivial = "
               "distinct history in which a configurable was invoked and a call failed or the sources were (re)loaded")
    ck.assumptions = [
        "sections are AutoConfigSection dicts; a collapsible section that inherits states all its keys itself and never names "
        "itself, class-less sections do not inherit (inherited values: C43), so inheriting can only fail (missing target, cycle); references are by name and typed",
        "configurables are deterministic given the environment switch; a loader returns a new mapping of the same sections",
        "after a failed reload() the manager's contents are unspecified until a load succeeds",
        "projection reads sections_lookup, rendered_sections, CollapsedConfig._instance, LazySectionRef.cached_config, _refs",
    ]
    if ck.replay_case:
        d = ck.replay_case["detail"]
        events = []
        run_history(d["universe"], 1, 0, d["history"], events)
        judge(ck, [d["universe"]], events, "Trace:replay")
        ck.count()
        ck.sample(d["history"])
        ck.nontriv("replay")
        return

    # 1. model checking of the design (+ vacuity guards) and the simulations, in threads: the runs are independent
    jobs = []   # (label, thread, box, expectation)

    def start(label, module, uni, cfg, expect, workers, timeout, **kw):
        box = {}

        def go():
            try:
                box["res"] = tlc.run(module, cfg_text=cfg, env={"UNI_FILE": files[uni]}, workers=workers, timeout=timeout, **kw)
            except Exception as ex:  # noqa: BLE001 - reported below as machinery failure
                box["err"] = ex

        t = threading.Thread(target=go)
        t.start()
        time.sleep(0.1)   # tlc.run numbers its scratch directories with an unlocked counter: let each run take its number
        jobs.append((label, t, box, expect))
        return t, box

    files = {u: uni_file(u) for u in UNIVERSES}
    D = ck.pick(9, 14)
    nsim = ck.pick(100, 1000)
    sims = {name: start(f"Simulate:ConfigCentral_Sim {name} num={nsim} depth={D}", "ConfigCentral_Sim", name,
                        mc_cfg("SimSpec", 1, extra=f"  D = {D}\n", check=False), "sim", 1, 900,
                        simulate=f"num={nsim}", depth=D + 2, seed=seed() + 4)
            for name in UNIVERSES}
    mo_main, mo_nested = ck.pick((3, 3), (4, 5))
    start(f"MC:ConfigCentral_MC main MaxOps={mo_main}", "ConfigCentral_MC", "main", mc_cfg("Spec", mo_main), None,
          ck.pick(3, 8), ck.pick(600, 3000))
    start(f"MC:ConfigCentral_MC nested MaxOps={mo_nested}", "ConfigCentral_MC", "nested", mc_cfg("Spec", mo_nested), None,
          ck.pick(2, 4), ck.pick(600, 3000))
    for uni, switch, expect in GUARDS:
        start(f"MC:guard {switch}=FALSE", "ConfigCentral_MC", uni, mc_cfg("Spec", 3, off=(switch,)), expect, 1, 900)

    # 2. code -> spec while TLC runs: random libraries, random histories
    r_ = rng(4)
    all_events, unis = [], []
    for _ in range(ck.pick(25, 120)):
        uni = random_universe(r_)
        unis.append(uni)
        for _h in range(ck.pick(8, 20)):
            events = []
            hist = run_history(uni, len(unis), len(all_events), None, events, r_=r_, steps=r_.randint(4, ck.pick(14, 20)))
            all_events.append(events)
            ck.count()
            if interesting(events):
                ck.nontriv(("rnd", len(unis), json.dumps(hist, sort_keys=True)))
    ck.sample(dict(direction="code->spec", universe=unis[0], history=[dict(op=e["op"], n=e["n"], t=e["t"], s=e["s"], k=e["k"])
                                                                      for e in all_events[0]]))
    for c in range(0, len(all_events), 600):
        judge(ck, unis, [e for evs in all_events[c:c + 600] for e in evs], f"Trace:random-histories-{c // 600}")

    # 3. spec -> code: the simulated histories on real managers
    all_events, unis = [], []
    for name, uni in UNIVERSES.items():
        t, box = sims[name]
        t.join()
        if "err" in box:
            raise tlc.MachineryError(f"simulation {name}: {box['err']}")
        behs = [p[1] for p in box["res"].tagged("BEH")]
        if len(behs) < nsim // 2:
            raise tlc.MachineryError(f"simulation produced only {len(behs)} behaviours\n{box['res'].out[-2000:]}")
        unis.append(uni)
        seen = set()
        for beh in behs:
            key = json.dumps(beh, sort_keys=True)
            if key in seen:
                continue
            seen.add(key)
            events = []
            run_history(uni, len(unis), len(all_events), [dict(op="init", o=uni["init"])] + beh, events)
            all_events.append(events)
            ck.count()
            if interesting(events):
                ck.nontriv(("sim", name, key))
        ck.sample(dict(direction="spec->code", universe=name, history=behs[0]))
    for c in range(0, len(all_events), 600):
        judge(ck, unis, [e for evs in all_events[c:c + 600] for e in evs], f"Trace:sim-histories-{c // 600}")

    # collect the TLC runs
    for label, t, box, expect in jobs:
        t.join()
        if "err" in box:
            raise tlc.MachineryError(f"{label}: {box['err']}")
        res = box["res"]
        ck.add_mc(label, res)
        if expect == "sim":
            continue
        if expect is None:
            if res.violated:
                raise tlc.MachineryError(f"{label}: the model violates {res.violated}\n{res.out[-3000:]}")
        elif res.violated not in expect:
            raise tlc.MachineryError(f"vacuity guard {label}: expected TLC to report one of {expect}, got {res.violated}")
    ck.extra["vacuity_guards"] = [f"{sw}=FALSE refuted" for _u, sw, _e in GUARDS]
