"""C20 — unmerge removes exactly what it owns, never base directories, never through symlinks; replace keeps
what the new package installs (fs/ops.py unmerge_contents, merge/engine.py MergeEngine.uninstall/.replace,
merge/triggers.py BaseSystemUnmergeProtection).

MC          : Unmerge_MC — the unlink-then-rmdir-deepest-first protocol with the base-directory filter over
              every small live root (listed dir real / a symlink / gone, unlisted extras, listed symlink with an
              unlisted target, non-directories removed in any order): Safe in every state, DoneFits =
              Unmerge!UnmergeExpected on termination; the variants that follow symlinks, skip the filter or
              remove non-empty directories are rejected by TLC.
code -> spec: seeded random packages installed on scratch roots and then perturbed (entries gone, changed
              type, unlisted files inside listed directories, listed symlinks with unlisted targets, lib ->
              lib64 style symlinked parents, base directories that become empty), removed through
              ops.unmerge_contents (with / without offset), MergeEngine.uninstall and MergeEngine.replace
              (offset; triggers merge, unmerge, BaseSystemUnmergeProtection) under the syscall recorder.
              Unmerge_Trace replays the syscalls through FsModel (FinalState: model == real snapshot) and
              judges the real snapshot against Unmerge!UnmergeExpected / ReplaceExpected: clauses NotRemoved,
              EmptyDirLeft, Unlisted, ThroughSymlink, BaseDir, KeepsNew, ListedButKept, Frame, Outcome_Raised.
spec -> code: the live roots of Unmerge_MC are small enough that the random generator covers their shapes;
              the Merge_Cases pairs are replayed as replace scenarios (old package = the pre-existing objects).
Carve-outs (fate wild): a listed non-directory whose live object is a directory (only generated at engine
level, where the live type is used), a listed directory whose live object is no directory.  The engine's
default plugin triggers (ldconfig, info regen) are disabled: they spawn helpers and write etc/ld.so.*.
Base directories are protected at engine level only (the trigger); the list is the property's
(usr usr/lib* usr/bin usr/sbin bin sbin lib* etc var home root).
"""
import os

from drivers import c18_merge as m18
from pylib import fsrec, tlc
from pylib.common import mktmp, rng, use_repo

BASE = ["usr", "usr/lib", "usr/lib64", "usr/lib32", "usr/bin", "usr/sbin", "bin", "sbin", "lib", "lib32", "lib64",
        "etc", "var", "home", "root"]
TOPS = ["usr", "etc", "opt", "lib", "var", "srv"]
SUBS = ["lib", "share", "bin", "pkg", "b c"]
LEAVES = ["f", "g h", "é", "conf", "x.so"]


def gen_pkg(r_, size):
    ents, dirs, paths = [], [], set()

    def add(p, t, **kw):
        if p in paths:
            return
        par = os.path.dirname(p)
        if par and par not in paths:
            add(par, "dir")
        e = dict(path=p, type=t, content="", target="", grp=0, src="local")
        e.update(m18._attrs(r_, m18.MODES_D if t == "dir" else m18.MODES_F))
        e.update(kw)
        paths.add(p)
        ents.append(e)
        if t == "dir":
            dirs.append(p)

    for _ in range(size):
        top = r_.choice(TOPS)
        d = top if r_.random() < 0.4 else f"{top}/{r_.choice(SUBS)}"
        if r_.random() < 0.25:
            add(d, "dir")
            continue
        t = r_.choice(["file", "file", "file", "sym", "fifo", "dir"])
        p = f"{d}/{r_.choice(LEAVES)}"
        if t == "file":
            add(p, "file", content="pkg-" + str(r_.randint(0, 999)))
        elif t == "sym":
            add(p, "sym", target=r_.choice(["tgt", "../tgt", "f", "nowhere", "@ROOT@/keepme"]))
        else:
            add(p, t)
    return ents


def gen_scenario(r_, size):
    via = r_.choice(["ops", "engine", "engine", "replace", "replace"])
    oldp = gen_pkg(r_, r_.randint(1, size))
    live, taken = [], {}
    alias = None
    if any(e["path"] == "lib" for e in oldp) and r_.random() < 0.5:
        alias = "lib64"

    def put(p, t, **kw):
        if p in taken:
            return False
        par = os.path.dirname(p)
        if par and taken.get(par) != "dir":
            if par in taken or not put(par, "dir"):
                return False
        o = dict(path=p, type=t, content="", target="", link_to="")
        o.update(m18._attrs(r_, m18.MODES_D if t == "dir" else m18.MODES_F))
        o.update(kw)
        taken[p] = t
        live.append(o)
        return True

    def phys(p):
        if alias and (p == "lib" or p.startswith("lib/")):
            return alias + p[3:]
        return p

    if alias:
        put(alias, "dir")
        put("lib", "sym", target=alias)
    for e in sorted(oldp, key=lambda e: e["path"]):
        p = phys(e["path"])
        if alias and e["path"] == "lib":
            continue
        x = r_.random()
        kw = dict(mode=e["mode"], uid=e["uid"], gid=e["gid"], mtime=e["mtime"])
        if x < 0.08:
            continue  # gone
        if e["type"] == "dir":
            if x < 0.14 and via == "engine":
                put("elsewhere", "dir")
                put(p, "sym", target=os.path.relpath("elsewhere", os.path.dirname(p) or "."))
            else:
                put(p, "dir", **kw)
                if r_.random() < 0.3:
                    put(p + "/unlisted", r_.choice(["file", "dir"]), content="user data")
        elif e["type"] == "file":
            if x < 0.13:
                put(p, "sym", target="tgt")
            elif x < 0.17 and via != "ops":
                put(p, "dir")
            else:
                put(p, "file", content=e["content"], **kw)
        elif e["type"] == "sym":
            put(p, "sym", target=e["target"], **kw)
            # what the symlink points to is not owned
            t = e["target"]
            if t in ("tgt", "f", "../tgt"):
                tp = os.path.normpath(os.path.join(os.path.dirname(p), t))
                if not tp.startswith(".."):
                    put(tp, r_.choice(["file", "dir"]), content="behind the link")
                    if taken.get(tp) == "dir" and r_.random() < 0.5:
                        put(tp + "/inner", "file", content="inner")
        else:
            put(p, "fifo", **kw)
    put("keepme", "file", content="keep")
    for _ in range(r_.randint(0, 2)):
        put(r_.choice(["home/u", "other", "usr/local/x"]), r_.choice(["file", "dir"]), content="unrelated")
    newp = []
    if via == "replace":
        for e in oldp:
            x = r_.random()
            if x < 0.5 and taken.get(phys(e["path"])) == ("dir" if e["type"] == "dir" else taken.get(phys(e["path"]))):
                ne = dict(e)
                if e["type"] == "file":
                    ne["content"] = "new-" + e["content"]
                # the new package may name the same object through the other side of a symlinked directory
                if alias and e["path"].startswith("lib/") and r_.random() < 0.6:
                    ne["path"] = alias + e["path"][3:]
                if taken.get(phys(ne["path"])) in (None, "dir" if e["type"] == "dir" else taken.get(phys(ne["path"]))) and \
                        (e["type"] == "dir" or taken.get(phys(ne["path"])) != "dir"):
                    newp.append(ne)
        for e in gen_pkg(r_, r_.randint(0, 3)):
            if all(e["path"] != n["path"] for n in newp) and e["path"] not in taken and phys(e["path"]) not in taken:
                newp.append(e)
        # keep the new package tree-shaped: parents of its entries are listed or exist
        have = {n["path"] for n in newp}
        for n in list(newp):
            par = os.path.dirname(n["path"])
            while par and par not in have:
                src = next((e for e in oldp if e["path"] == par), None)
                d = dict(path=par, type="dir", content="", target="", grp=0, src="local")
                d.update(m18._attrs(r_, m18.MODES_D))
                if src and src["type"] == "dir":
                    d.update(mode=src["mode"], uid=src["uid"], gid=src["gid"], mtime=src["mtime"])
                if taken.get(phys(par)) not in (None, "dir") and not (alias and par == "lib"):
                    break
                newp.append(d)
                have.add(par)
                par = os.path.dirname(par)
    mode = "offset" if via != "ops" else r_.choice(["offset", "none"])
    return dict(old=live, rm=oldp, cset=newp, mode=mode, via=via)


def from_merge_case(sc):
    """A Merge_Cases pair as a replace: the old package owns every pre-existing object."""
    rm = [dict(path=o["path"], type=o["type"], content=o["content"], target=o["target"], grp=0, src="local",
               mode=o["mode"], uid=o["uid"], gid=o["gid"], mtime=o["mtime"]) for o in sc["old"]]
    return dict(old=sc["old"], rm=rm, cset=sc["cset"], mode="offset", via="replace", sel=sc.get("sel"))


def make_op(w):
    from pkgcore.fs import ops
    from pkgcore.merge import triggers
    from pkgcore.merge.engine import MergeEngine

    sc = w.sc

    class Pkg:
        def __init__(self, contents):
            self.contents = contents

    if sc["via"] == "ops":
        def op(_root=None):
            ops.unmerge_contents(w.build_cset(sc["rm"]), offset=w.offset())
    elif sc["via"] == "engine":
        def op(_root=None):
            eng = MergeEngine.uninstall(w.tmp, Pkg(w.build_cset(sc["rm"])), offset=w.M, observer=m18.observer(), disable_plugins=True)
            triggers.unmerge().register(eng)
            triggers.BaseSystemUnmergeProtection().register(eng)
            for ph in ("pre_unmerge", "unmerge", "post_unmerge"):
                getattr(eng, ph)()
    else:
        def op(_root=None):
            eng = MergeEngine.replace(w.tmp, Pkg(w.build_cset(sc["rm"])), Pkg(w.build_cset(sc["cset"])), offset=w.M,
                                      observer=m18.observer(), disable_plugins=True)
            for t in (triggers.merge, triggers.unmerge, triggers.BaseSystemUnmergeProtection):
                t().register(eng)
            for ph in ("pre_merge", "merge", "post_merge", "pre_unmerge", "unmerge", "post_unmerge"):
                getattr(eng, ph)()
    return op


def unmerge_init(w):
    sc = w.sc

    def extra(before):
        base = [["m"] + b.split("/") for b in BASE] if sc["via"] != "ops" else []
        rm = [dict(path=r["path"], type=r["type"]) for r in w.abs_entries(sc["rm"])]
        return dict(kind="replace" if sc["via"] == "replace" else "unmerge", rm=rm, newc=w.abs_entries(sc["cset"]),
                    offset=w.abs_offset(), base=base, links=w.links(before, [sc["rm"], sc["cset"]]), mounts=[])
    return extra


def run(ck):
    use_repo()
    ck.rule = ("seeded random (installed package, perturbed live root, replacing package) scenarios via unmerge_contents / "
               "MergeEngine.uninstall / MergeEngine.replace + Merge_Cases pairs as replaces; non-trivial = distinct scenario "
               "with Expected 'ok' where something listed exists and something unlisted sits in a listed directory, behind a "
               "listed symlink, or a base directory is listed")
    ck.assumptions = ["os-level interposition sees every mutation (cross-checked: FinalState model == lstat snapshot)",
                      "engine runs with the merge/unmerge/BaseSystemUnmergeProtection triggers only (default plugins spawn helpers)",
                      "checks run as root"]
    if os.geteuid() != 0:
        raise tlc.MachineryError("C20 needs root")
    ck.mc("Unmerge_MC", cfg_text='SPECIFICATION Spec\nCONSTANT Variant = "ok"\nINVARIANT Safe\nINVARIANT DoneFits\n', workers=2,
          label="MC:Unmerge protocol (all removal orders)", timeout=3000)
    for variant in ck.pick(("follow",), ("follow", "nobase", "greedy")):
        bad = ck.mc("Unmerge_MC", cfg_text=f'SPECIFICATION Spec\nCONSTANT Variant = "{variant}"\nINVARIANT Safe\nINVARIANT DoneFits\n',
                    workers=2, label=f"MC:Unmerge variant {variant} (must violate)", expect_ok=False, timeout=3000)
        if not bad.violated:
            raise tlc.MachineryError(f"Unmerge_MC: variant {variant} is no longer rejected (vacuous model?)")
    r_ = rng(20)
    base = mktmp("c20")
    if ck.replay_case:
        scenarios = [ck.replay_case["detail"]["scenario"]]
    else:
        exported = [from_merge_case(sc) for sc in m18.export_scenarios(ck)]
        exported = r_.sample(exported, ck.pick(40, 700))
        scenarios = exported + [gen_scenario(r_, ck.pick(7, 10)) for _ in range(ck.pick(70, 1500))]
    events, infos = [], {}
    for tid, sc in enumerate(scenarios):
        w = m18.World(os.path.join(base, f"w{tid}"), sc)
        evs, info = m18.run_recorded(tid, w, make_op(w), unmerge_init(w))
        events += evs
        infos[tid] = info
        ck.count()
        fsrec._real_rmtree(w.base)
    stats = {}
    tids = sorted(infos)
    B = ck.pick(400, 150)
    for b in range(0, len(tids), B):
        chunk = set(tids[b:b + B])
        evs = [e for e in events if e["tid"] in chunk]
        verdicts, exp = m18.judge(ck, "Unmerge_Trace", evs, f"Trace:Unmerge_Trace[{b // B}]")
        for tid in chunk:
            oc, why = exp[tid]
            sc = scenarios[tid]
            stats[f"{sc['via']}:{oc}:{why}"] = stats.get(f"{sc['via']}:{oc}:{why}", 0) + 1
            if oc == "ok" and any(o["path"].endswith("/unlisted") or o["content"] in ("behind the link", "inner") for o in sc["old"]) \
                    or any(r["path"] in BASE for r in sc["rm"]):
                ck.nontriv(repr(sc))
        for v in verdicts:
            sc, info = scenarios[v["tid"]], infos[v["tid"]]
            path = v["extra"][0] if v["extra"] else ""
            ck.violation(v["clause"], dict(scenario=sc, path=path, via=sc["via"], offset_mode=sc["mode"],
                                           old_type=m18.obj_type(info["before"], path), new_type=m18.obj_type(info["after"], path),
                                           raised=type(info["exc"]).__name__ if info["exc"] else "",
                                           removed_anything=info["before"] != info["after"]))
    ck.extra["expected_outcomes"] = stats
    ck.extra["syscalls_replayed"] = sum(i["n_sys"] for i in infos.values())
    if scenarios:
        sc = scenarios[-1]
        ck.sample(dict(rm=[(e["path"], e["type"]) for e in sc["rm"]], new=[(e["path"], e["type"]) for e in sc["cset"]],
                       live=[(o["path"], o["type"]) for o in sc["old"]], mode=sc["mode"], via=sc["via"],
                       syscalls=[(e["op"], e["rp"]) for e in infos[len(scenarios) - 1]["rec"].events][:40]))
