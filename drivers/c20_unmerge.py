"""C20 — unmerge removes exactly what it owns, never base directories, never through symlinks; replace keeps
what the new package installs (fs/ops.py unmerge_contents, merge/engine.py MergeEngine.uninstall/.replace,
merge/triggers.py BaseSystemUnmergeProtection).

MC          : Unmerge_MC — the unlink-then-rmdir-deepest-first protocol with the base-directory filter over
              every small live root (listed dir real / a symlink / gone, unlisted extras, listed symlink with an
              unlisted target, non-directories removed in any order): Safe in every state, DoneFits =
              Unmerge!UnmergeExpected on termination; the variants that follow symlinks, skip the filter or
              remove non-empty directories are rejected by TLC.
code -> spec: seeded random packages installed on scratch roots and then perturbed (entries gone, changed
              type, unlisted files inside listed directories, listed symlinks with unlisted targets, lib ->
              lib64 style symlinked parents, base directories that become empty), removed through
              ops.unmerge_contents (with / without offset), MergeEngine.uninstall and MergeEngine.replace
              (offset; triggers merge, unmerge, BaseSystemUnmergeProtection) under the syscall recorder.
              Unmerge_Trace replays the syscalls through FsModel (FinalState: model == real snapshot) and
              judges the real snapshot against Unmerge!UnmergeExpected / ReplaceExpected: clauses NotRemoved,
              EmptyDirLeft, Unlisted, ThroughSymlink, BaseDir, KeepsNew, ListedButKept, Frame, Outcome_Raised.
sessions    : scenarios are grouped in sessions of 2-3 that run one after the other in this one process on the
              SAME root path, the root rebuilt with a different layout in between (directed family: lib real
              directory <-> lib a symlink to lib64, with the packages naming files through either side): the
              expectation of every operation is a function of the root as it is before THAT operation, so
              anything an earlier operation left behind in the process (caches keyed by path) shows up as
              KeepsNew / NotRemoved.  A violation's replay detail carries the session history.
spec -> code: the live roots of Unmerge_MC are small enough that the random generator covers their shapes;
              the Merge_Cases pairs are replayed as replace scenarios (old package = the pre-existing objects).
Fate wild (either kept or removed is accepted, the REST of the unmerge must be carried out and nothing below
or behind the object may change): a listed non-directory (file, symlink, fifo) whose live object is a
directory - empty or not; generated at every level - and a listed directory whose live object is a file or a
symlink.  The engine's
default plugin triggers (ldconfig, info regen) are disabled: they spawn helpers and write etc/ld.so.*.
Base directories are protected at engine level only (the trigger); the list is the property's
(usr usr/lib* usr/bin usr/sbin bin sbin lib* etc var home root).
"""
import os

from drivers import c18_merge as m18
from pylib import fsrec, tlc
from pylib.common import mktmp, rng, use_repo

BASE = ["usr", "usr/lib", "usr/lib64", "usr/lib32", "usr/bin", "usr/sbin", "bin", "sbin", "lib", "lib32", "lib64",
        "etc", "var", "home", "root"]
TOPS = ["usr", "etc", "opt", "lib", "var", "srv"]
SUBS = ["lib", "share", "bin", "pkg", "b c"]
LEAVES = ["f", "g h", "é", "conf", "x.so"]


def gen_pkg(r_, size, tops=None):
    ents, dirs, paths = [], [], set()
    tops = tops or TOPS

    def add(p, t, **kw):
        if p in paths:
            return
        par = os.path.dirname(p)
        if par and par not in paths:
            add(par, "dir")
        e = dict(path=p, type=t, content="", target="", grp=0, src="local")
        e.update(m18._attrs(r_, m18.MODES_D if t == "dir" else m18.MODES_F))
        e.update(kw)
        paths.add(p)
        ents.append(e)
        if t == "dir":
            dirs.append(p)

    for _ in range(size):
        top = r_.choice(tops)
        d = top if r_.random() < 0.4 else f"{top}/{r_.choice(SUBS)}"
        if r_.random() < 0.25:
            add(d, "dir")
            continue
        t = r_.choice(["file", "file", "file", "sym", "fifo", "dir"])
        p = f"{d}/{r_.choice(LEAVES)}"
        if t == "file":
            add(p, "file", content="pkg-" + str(r_.randint(0, 999)))
        elif t == "sym":
            add(p, "sym", target=r_.choice(["tgt", "../tgt", "f", "nowhere", "@ROOT@/keepme"]))
        else:
            add(p, t)
    return ents


def gen_scenario(r_, size, via=None, alias=None, tops=None, cross=False):
    """alias: None = random; True / False force the live root to have (not to have) lib as a symlink to lib64."""
    via = via or r_.choice(["ops", "engine", "engine", "replace", "replace"])
    oldp = gen_pkg(r_, r_.randint(1, size), tops)
    if cross:  # a file below lib that is installed and that the new package names through lib64
        if not any(e["path"] == "lib" for e in oldp):
            oldp.append(dict(path="lib", type="dir", content="", target="", grp=0, src="local", **m18._attrs(r_, m18.MODES_D)))
        marked = next((e for e in oldp if e["type"] == "file" and e["path"].startswith("lib/")), None)
        if marked is None:
            marked = dict(path="lib/" + r_.choice(LEAVES), type="file", content="pkg-x", target="", grp=0, src="local",
                          **m18._attrs(r_, m18.MODES_F))
            if all(e["path"] != marked["path"] for e in oldp):
                oldp.append(marked)
            else:
                marked = None
    else:
        marked = None
    # a listed directory below lib whose only listed content goes away in a replace while the new package keeps
    # the directory itself, naming it through the other side of lib -> lib64: it ends up empty and must stay
    keepdir = None
    if cross and r_.random() < 0.6 and all(not e["path"].startswith("lib/keep.d") for e in oldp):
        keepdir = dict(path="lib/keep.d", type="dir", content="", target="", grp=0, src="local", **m18._attrs(r_, m18.MODES_D))
        oldp.append(keepdir)
        oldp.append(dict(path="lib/keep.d/old", type="file", content="pkg-k", target="", grp=0, src="local",
                         **m18._attrs(r_, m18.MODES_F)))
    live, taken = [], {}
    want = r_.random() < 0.5 if alias is None else alias
    alias = "lib64" if want and any(e["path"] == "lib" for e in oldp) else None

    def put(p, t, **kw):
        if p in taken:
            return False
        par = os.path.dirname(p)
        if par and taken.get(par) != "dir":
            if par in taken or not put(par, "dir"):
                return False
        o = dict(path=p, type=t, content="", target="", link_to="")
        o.update(m18._attrs(r_, m18.MODES_D if t == "dir" else m18.MODES_F))
        o.update(kw)
        taken[p] = t
        live.append(o)
        return True

    def now_dir(p):
        """a listed non-directory whose live object has become a directory, empty or with unlisted content"""
        if put(p, "dir") and r_.random() < 0.5:
            put(p + "/inner", r_.choice(["file", "dir"]), content="user data")

    def phys(p):
        if alias and (p == "lib" or p.startswith("lib/")):
            return alias + p[3:]
        return p

    if alias:
        put(alias, "dir")
        put("lib", "sym", target=alias)
    for e in sorted(oldp, key=lambda e: e["path"]):
        p = phys(e["path"])
        if alias and e["path"] == "lib":
            continue
        x = r_.random()
        if marked is not None and (e is marked or marked["path"].startswith(e["path"] + "/")):
            x = 0.9  # installed as recorded
        kw = dict(mode=e["mode"], uid=e["uid"], gid=e["gid"], mtime=e["mtime"])
        if x < 0.08:
            continue  # gone
        if e["type"] == "dir":
            if x < 0.14:   # a listed directory that is a symlink now (rmdir: ENOTDIR, tolerated)
                put("elsewhere", "dir")
                put(p, "sym", target=os.path.relpath("elsewhere", os.path.dirname(p) or "."))
            elif x < 0.18:  # ... or a plain file
                put(p, "file", content="was a directory")
            else:
                put(p, "dir", **kw)
                if r_.random() < 0.3:
                    put(p + "/unlisted", r_.choice(["file", "dir"]), content="user data")
        elif e["type"] == "file":
            if x < 0.13:
                put(p, "sym", target="tgt")
            elif x < 0.19:
                now_dir(p)
            else:
                put(p, "file", content=e["content"], **kw)
        elif e["type"] == "sym" and x < 0.16:
            now_dir(p)
        elif e["type"] == "fifo" and x < 0.2:
            now_dir(p)
        elif e["type"] == "sym":
            put(p, "sym", target=e["target"], **kw)
            # what the symlink points to is not owned
            t = e["target"]
            if t in ("tgt", "f", "../tgt"):
                tp = os.path.normpath(os.path.join(os.path.dirname(p), t))
                if not tp.startswith(".."):
                    put(tp, r_.choice(["file", "dir"]), content="behind the link")
                    if taken.get(tp) == "dir" and r_.random() < 0.5:
                        put(tp + "/inner", "file", content="inner")
        else:
            put(p, "fifo", **kw)
    put("keepme", "file", content="keep")
    for _ in range(r_.randint(0, 2)):
        put(r_.choice(["home/u", "other", "usr/local/x"]), r_.choice(["file", "dir"]), content="unrelated")
    newp = []
    if via == "replace":
        for e in oldp:
            x = r_.random()
            if e is marked:
                newp.append(dict(e, content="new-" + e["content"], path="lib64" + e["path"][3:]))
                continue
            if keepdir is not None and e["path"].startswith("lib/keep.d/"):
                continue
            if e is keepdir:
                np_ = (alias or "lib") + e["path"][3:]
                if taken.get(phys(np_)) in (None, "dir"):
                    newp.append(dict(e, path=np_))
                continue
            if x < 0.5 and taken.get(phys(e["path"])) == ("dir" if e["type"] == "dir" else taken.get(phys(e["path"]))):
                ne = dict(e)
                if e["type"] == "file":
                    ne["content"] = "new-" + e["content"]
                # the new package may name the same object through the other side of a symlinked directory
                if alias and e["path"].startswith("lib/") and r_.random() < 0.6:
                    ne["path"] = alias + e["path"][3:]
                # ... and without the symlink the same two names are different objects
                elif not alias and e["path"].startswith("lib/") and e["type"] != "dir" and r_.random() < 0.3:
                    ne["path"] = "lib64" + e["path"][3:]
                if taken.get(phys(ne["path"])) in (None, "dir" if e["type"] == "dir" else taken.get(phys(ne["path"]))) and \
                        (e["type"] == "dir" or taken.get(phys(ne["path"])) != "dir"):
                    newp.append(ne)
        for e in gen_pkg(r_, r_.randint(0, 3)):
            if all(e["path"] != n["path"] for n in newp) and e["path"] not in taken and phys(e["path"]) not in taken:
                newp.append(e)
        # keep the new package tree-shaped: parents of its entries are listed or exist
        have = {n["path"] for n in newp}
        for n in list(newp):
            par = os.path.dirname(n["path"])
            while par and par not in have:
                src = next((e for e in oldp if e["path"] == par), None)
                d = dict(path=par, type="dir", content="", target="", grp=0, src="local")
                d.update(m18._attrs(r_, m18.MODES_D))
                if src and src["type"] == "dir":
                    d.update(mode=src["mode"], uid=src["uid"], gid=src["gid"], mtime=src["mtime"])
                if taken.get(phys(par)) not in (None, "dir") and not (alias and par == "lib"):
                    break
                newp.append(d)
                have.add(par)
                par = os.path.dirname(par)
    # two entries of one package naming the same object (lib/x and lib64/x with lib -> lib64) are outside the
    # property's domain (Expected: "order-dependent"): keep the first
    seen_phys, uniq = set(), []
    for n in newp:
        if phys(n["path"]) not in seen_phys:
            seen_phys.add(phys(n["path"]))
            uniq.append(n)
    newp = uniq
    mode = "offset" if via != "ops" else r_.choice(["offset", "none"])
    return dict(old=live, rm=oldp, cset=newp, mode=mode, via=via)


def gen_session(r_, size):
    """Operations that run one after the other in ONE process on ONE root path while the layout of the root
    changes in between (the lib -> lib64 migration and its reverse): what an operation removes must depend
    on the root as it is now, not on what an earlier operation saw."""
    first = r_.random() < 0.5
    tops = ["lib", "lib", "usr", "opt"]
    steps = [gen_scenario(r_, size, via=r_.choice(["replace", "replace", "replace", "engine"]), alias=first, tops=tops, cross=True),
             gen_scenario(r_, size, via="replace", alias=not first, tops=tops, cross=True)]
    if r_.random() < 0.5:
        steps.append(gen_scenario(r_, size, via=r_.choice(["replace", "engine", "ops"]), alias=first, tops=tops))
    return steps


def from_merge_case(sc):
    """A Merge_Cases pair as a replace: the old package owns every pre-existing object."""
    rm = [dict(path=o["path"], type=o["type"], content=o["content"], target=o["target"], grp=0, src="local",
               mode=o["mode"], uid=o["uid"], gid=o["gid"], mtime=o["mtime"]) for o in sc["old"]]
    return dict(old=sc["old"], rm=rm, cset=sc["cset"], mode="offset", via="replace", sel=sc.get("sel"))


def make_op(w):
    from pkgcore.fs import ops
    from pkgcore.merge import triggers
    from pkgcore.merge.engine import MergeEngine

    sc = w.sc

    class Pkg:
        def __init__(self, contents):
            self.contents = contents

    if sc["via"] == "ops":
        def op(_root=None):
            ops.unmerge_contents(w.build_cset(sc["rm"]), offset=w.offset())
    elif sc["via"] == "engine":
        def op(_root=None):
            eng = MergeEngine.uninstall(w.tmp, Pkg(w.build_cset(sc["rm"])), offset=w.M, observer=m18.observer(), disable_plugins=True)
            triggers.unmerge().register(eng)
            triggers.BaseSystemUnmergeProtection().register(eng)
            for ph in ("pre_unmerge", "unmerge", "post_unmerge"):
                getattr(eng, ph)()
    else:
        def op(_root=None):
            eng = MergeEngine.replace(w.tmp, Pkg(w.build_cset(sc["rm"])), Pkg(w.build_cset(sc["cset"])), offset=w.M,
                                      observer=m18.observer(), disable_plugins=True)
            for t in (triggers.merge, triggers.unmerge, triggers.BaseSystemUnmergeProtection):
                t().register(eng)
            for ph in ("pre_merge", "merge", "post_merge", "pre_unmerge", "unmerge", "post_unmerge"):
                getattr(eng, ph)()
    return op


def unmerge_init(w):
    sc = w.sc

    def extra(before):
        base = [["m"] + b.split("/") for b in BASE] if sc["via"] != "ops" else []
        rm = [dict(path=r["path"], type=r["type"]) for r in w.abs_entries(sc["rm"])]
        return dict(kind="replace" if sc["via"] == "replace" else "unmerge", rm=rm, newc=w.abs_entries(sc["cset"]),
                    offset=w.abs_offset(), base=base, links=w.links(before, [sc["rm"], sc["cset"]]), mounts=[])
    return extra


def run(ck):
    use_repo()
    ck.rule = ("seeded random (installed package, perturbed live root, replacing package) scenarios via unmerge_contents / "
               "MergeEngine.uninstall / MergeEngine.replace + Merge_Cases pairs as replaces; non-trivial = distinct scenario "
               "with Expected 'ok' where something listed exists and something unlisted sits in a listed directory, behind a "
               "listed symlink, or a base directory is listed")
    ck.assumptions = ["os-level interposition sees every mutation (cross-checked: FinalState model == lstat snapshot)",
                      "engine runs with the merge/unmerge/BaseSystemUnmergeProtection triggers only (default plugins spawn helpers)",
                      "checks run as root"]
    if os.geteuid() != 0:
        raise tlc.MachineryError("C20 needs root")
    ck.mc("Unmerge_MC", cfg_text='SPECIFICATION Spec\nCONSTANT Variant = "ok"\nINVARIANT Safe\nINVARIANT DoneFits\n', workers=2,
          label="MC:Unmerge protocol (all removal orders)", timeout=3000)
    for variant in ck.pick(("follow",), ("follow", "nobase", "greedy")):
        bad = ck.mc("Unmerge_MC", cfg_text=f'SPECIFICATION Spec\nCONSTANT Variant = "{variant}"\nINVARIANT Safe\nINVARIANT DoneFits\n',
                    workers=2, label=f"MC:Unmerge variant {variant} (must violate)", expect_ok=False, timeout=3000)
        if not bad.violated:
            raise tlc.MachineryError(f"Unmerge_MC: variant {variant} is no longer rejected (vacuous model?)")
    r_ = rng(20)
    base = mktmp("c20")
    if ck.replay_case:
        d = ck.replay_case["detail"]
        sessions = [list(d.get("history", [])) + [d["scenario"]]]
    else:
        exported = [from_merge_case(sc) for sc in m18.export_scenarios(ck)]
        exported = r_.sample(exported, ck.pick(40, 700))
        rand = [gen_scenario(r_, ck.pick(7, 10)) for _ in range(ck.pick(50, 1200))]
        # every session runs on its own root PATH, its scenarios one after the other on that same path
        sessions = [exported[k:k + 3] for k in range(0, len(exported), 3)] + [rand[k:k + 3] for k in range(0, len(rand), 3)]
        sessions += [gen_session(r_, ck.pick(6, 9)) for _ in range(ck.pick(14, 150))]
    scenarios, session_of = [], {}
    for sid, steps in enumerate(sessions):
        for k, sc in enumerate(steps):
            session_of[len(scenarios)] = (sid, steps[:k])
            scenarios.append(sc)
    events, infos = [], {}
    for tid, sc in enumerate(scenarios):
        w = m18.World(os.path.join(base, f"s{session_of[tid][0]}"), sc)
        evs, info = m18.run_recorded(tid, w, make_op(w), unmerge_init(w))
        events += evs
        infos[tid] = info
        ck.count()
        fsrec._real_rmtree(w.base)
    stats = {}
    tids = sorted(infos)
    B = ck.pick(400, 150)
    for b in range(0, len(tids), B):
        chunk = set(tids[b:b + B])
        evs = [e for e in events if e["tid"] in chunk]
        verdicts, exp = m18.judge(ck, "Unmerge_Trace", evs, f"Trace:Unmerge_Trace[{b // B}]")
        for tid in chunk:
            oc, why = exp[tid]
            sc = scenarios[tid]
            stats[f"{sc['via']}:{oc}:{why}"] = stats.get(f"{sc['via']}:{oc}:{why}", 0) + 1
            if oc == "ok" and any(o["path"].endswith("/unlisted") or o["content"] in ("behind the link", "inner") for o in sc["old"]) \
                    or any(r["path"] in BASE for r in sc["rm"]):
                ck.nontriv(repr(sc))
        for v in verdicts:
            sc, info = scenarios[v["tid"]], infos[v["tid"]]
            path = v["extra"][0] if v["extra"] else ""
            ck.violation(v["clause"], dict(scenario=sc, history=session_of[v["tid"]][1], path=path, via=sc["via"], offset_mode=sc["mode"],
                                           old_type=m18.obj_type(info["before"], path), new_type=m18.obj_type(info["after"], path),
                                           raised=type(info["exc"]).__name__ if info["exc"] else "",
                                           removed_anything=info["before"] != info["after"]))
    ck.extra["expected_outcomes"] = stats
    ck.extra["syscalls_replayed"] = sum(i["n_sys"] for i in infos.values())
    if scenarios:
        sc = scenarios[-1]
        ck.sample(dict(rm=[(e["path"], e["type"]) for e in sc["rm"]], new=[(e["path"], e["type"]) for e in sc["cset"]],
                       live=[(o["path"], o["type"]) for o in sc["old"]], mode=sc["mode"], via=sc["via"],
                       syscalls=[(e["op"], e["rp"]) for e in infos[len(scenarios) - 1]["rec"].events][:40]))
