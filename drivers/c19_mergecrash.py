"""C19 — an interrupted merge never leaves a replaced file half-written (fs/ops.py copyfile / do_link:
`<name>#new` + rename).

MC          : Merge_MC with Faults: every reachable state of the merge protocol over every small
              (old root, cset) pair is a crash point, any syscall may fail with EIO; invariant CrashInv =
              the C19 clauses of Merge!JudgeCrash; the write-in-place variant must violate it.
spec -> code: a seeded sample (12 / 350 of 1375) of the (old, cset) pairs of Merge_Cases is merged for real and
              crashed at every mutation.
code -> spec: seeded random small trees over colliding pre-existing roots (see C18).  Per scenario
              (1) the recorded syscall trace is replayed through FsModel by Merge_Trace and the clauses
                  are evaluated after EVERY syscall (every prefix = crash point);
              (2) the merge is re-executed with a power cut before every mutation k (and after half of
                  every write), and with OSError(EIO) at every mutation k (pkgcore's own handlers run);
                  the real lstat snapshot afterwards is judged by the same clauses:
                    OldOrNew      a pre-existing non-directory path holds its complete old object (type,
                                  data, mode, owner, mtime, target) or the complete new one of Merge!Expected
                    CrashFrame    paths outside the contents set (other than `<entry>#new` temporaries and
                                  missing parents) are unchanged, nothing else appears
                    CrashDirPerms a pre-existing directory keeps its permissions at every point
Carve-outs: directories (their content IS the merge in progress; owner/mtime of a pre-existing directory
are set by separate syscalls, there is no atomic primitive), a dangling symlink giving way to a directory,
scenarios whose Expected outcome is not "ok".  A power cut is a stop before a Python-level mutation (or
after half a write); no fsync / reordering model.
"""
import os

from drivers import c18_merge as m18
from pylib import fsrec, tlc
from pylib.common import mktmp, rng, use_repo

LEVEL = "fault_enumeration"


def crash_points(tid, w, op, info, start_i, max_k=None):
    """Re-execute op with a cut / half write / EIO at every mutation; returns crash events."""
    events = []
    rec = info["rec"]
    i = start_i
    ks = list(range(1, rec.n_mut + 1))
    if max_k and len(ks) > max_k:
        step = len(ks) / max_k
        ks = sorted({ks[int(j * step)] for j in range(max_k)} | {1, rec.n_mut})
    write_ks = {e["k"] for e in rec.events if e["op"] == "write"}
    for k in ks:
        for half in ([False, True] if k in write_ks else [False]):
            w.setup()
            r, _done = fsrec.run_with_cut(w.R, op, k, half=half)
            ce = r.cut_event or {}
            events.append(m18.snap_rows(tid, i, fsrec.snapshot(w.R), k=k, kind="cut-half" if half else "cut",
                                        at_op=ce.get("op", "?"), at_path=ce.get("rp", "?")))
            i += 1
        w.setup()
        r, _exc = fsrec.run_with_fault(w.R, op, k)
        fe = next((e for e in r.events if e["op"] == "fault"), {})
        events.append(m18.snap_rows(tid, i, fsrec.snapshot(w.R), k=k, kind="eio", at_op=fe.get("failed_op", "?"),
                                    at_path=fe.get("rp", "?")))
        i += 1
    return events


def run(ck):
    use_repo()
    ck.rule = ("every mutation of every scenario is a crash point three ways (prefix of the recorded trace replayed in "
               "FsModel; real power cut incl. half writes; real EIO); non-trivial = distinct scenario with Expected 'ok' in "
               "which at least one pre-existing non-directory is replaced")
    ck.assumptions = ["power cut = stop before a Python-level mutation or after half a write; no fsync/reordering model",
                      "os-level interposition sees every mutation (cross-checked: FinalState model == lstat snapshot)",
                      "checks run as root"]
    if os.geteuid() != 0:
        raise tlc.MachineryError("C19 needs root (lchown to foreign ids)")
    inv = "INVARIANT CrashInv\nINVARIANT DoneFits\nINVARIANT NoModelGap\n"
    ck.mc("Merge_MC", cfg_text=m18.mc_cfg("temp", ck.pick(2, 3), "TRUE", inv, kinds=ck.pick("small", "full")), workers=4, timeout=3000,
          label="MC:Merge protocol, crash+EIO at every step")
    m18.guards(ck, stale=not ck.quick)
    r_ = rng(19)
    base = mktmp("c19")
    if ck.replay_case:
        scenarios = [ck.replay_case["detail"]["scenario"]]
    else:
        exported = m18.export_scenarios(ck)
        exported = r_.sample(exported, ck.pick(12, 350))
        scenarios = exported + [m18.gen_scenario(r_, ck.pick(4, 6)) for _ in range(ck.pick(14, 180))]
    events, infos, points = [], {}, 0
    for tid, sc in enumerate(scenarios):
        sc.pop("precut", None)  # crash-state roots are C18's family (C19 crashes every merge itself)
        sc["mounts"] = []  # filesystem boundaries are C18's dimension; the crash re-executions do not emulate them
        w = m18.World(os.path.join(base, f"w{tid}"), sc)
        op = m18.make_op(w)
        evs, info = m18.run_recorded(tid, w, op, m18.merge_init(w, prefixes=True))
        if info["exc"] is None:
            cp = crash_points(tid, w, op, info, start_i=len(evs), max_k=ck.pick(40, 120))
            evs += cp
            points += len(cp) + info["n_sys"]
        events += evs
        infos[tid] = info
        ck.count()
        fsrec._real_rmtree(w.base)
    ck.extra["crash_points"] = points
    stats = {}
    tids = sorted(infos)
    B = ck.pick(200, 60)
    for b in range(0, len(tids), B):
        chunk = set(tids[b:b + B])
        evs = [e for e in events if e["tid"] in chunk]
        idx = {(e["tid"], e["i"]): e for e in evs}
        verdicts, exp = m18.judge(ck, "Merge_Trace", evs, f"Trace:Merge_Trace[{b // B}]")
        for tid in chunk:
            oc, why = exp[tid]
            stats[f"{oc}:{why}"] = stats.get(f"{oc}:{why}", 0) + 1
            sc = scenarios[tid]
            oldnd = {o["path"] for o in sc["old"] if o["type"] != "dir"}
            if oc == "ok" and any(e["path"] in oldnd and e["type"] != "dir" for e in sc["cset"]):
                ck.nontriv(repr(sc))
        for v in verdicts:
            e = idx[(v["tid"], v["i"])]
            if v["clause"] not in ("OldOrNew", "CrashFrame", "CrashDirPerms", "FinalState", "FinalLinks"):
                continue  # C18's clauses; judged by ./check C18
            sc, info = scenarios[v["tid"]], infos[v["tid"]]
            path = v["extra"][0] if v["extra"] else ""
            ck.violation(v["clause"], dict(scenario=sc, path=path, via=sc["via"], offset_mode=sc["mode"],
                                           event=e["ev"], kind=e.get("kind", "prefix"), k=e.get("k", -1),
                                           at_op=e.get("at_op", e.get("op", "")), at_path=e.get("at_path", "/".join(e.get("p", []))),
                                           old_type=m18.obj_type(info["before"], path), new_type=m18.obj_type(info["after"], path)))
    ck.extra["expected_outcomes"] = stats
    if scenarios:
        sc = scenarios[-1]
        ck.sample(dict(cset=[(e["path"], e["type"]) for e in sc["cset"]], old=[(o["path"], o["type"]) for o in sc["old"]],
                       mode=sc["mode"], via=sc["via"], mutations=infos[len(scenarios) - 1]["rec"].n_mut))
