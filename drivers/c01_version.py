"""C01 — version comparison follows the PMS algorithm and is a total preorder.

Spec        : specs/Version.tla — VerCmp / OpHolds, a transcription of PMS algorithms 3.1-3.7 over
              version records whose numbers are digit sequences (reused by other areas).
MC / laws   : Version_MC — every triple of a bounded grammar (leading zeros, trailing zeros, letters,
              stacked suffixes, omitted / zero / zero-padded suffix numbers and revisions):
              reflexive, antisymmetric, transitive, "=" is a congruence; action property Monotone
              (growing a version by a component / letter / revision / _p makes it newer, by any
              other suffix older).  Version_Laws — operator agreement (exactly one of < = >, <= >=
              ~ derived, mirrored), omitted number = 0, leading-zero rule, suffix ladder, the
              spelling is injective.
spec -> code: Version_Export writes the grammar (with the spelling computed by the spec); EVERY
              ordered pair is executed on cpv.ver_cmp, the six VersionedCPV operators and
              restricts.VersionMatch(op, ver, rev).match for the six version operators.
code -> spec: seeded random versions (1-40 digit runs, leading / trailing zeros, letters, up to 4
              stacked suffixes, revisions; pairs are mostly one-element mutations of each other so
              that deep rules decide) executed the same way.
Judge       : Version_Trace recomputes everything with Version.tla (clauses VerCmp, Cpv_lt/le/eq/
              ne/ge/gt, Match_lt/le/eq/tilde/ge/gt, MatchNoneRev_*, NoRaise).

Domain / carve-outs (not judged, never generated):
  * versions are PMS versions: lower case letter only (pkgcore also parses upper case letters);
  * revisions reach ver_cmp / VersionMatch the way pkgcore passes them (cpv.Revision objects, or
    None for "no revision" as util.parserestrict / pkgsets.glsa do) — plain str / int revisions
    are not exercised;
  * "~" is given no revision on the restriction side (atom refuses "~cat/pkg-1-r1");
  * the glob operator "=*" is a string-prefix match, not part of the order, and is not judged;
  * negate=True is not exercised.
"""
import json

from pylib import tlc
from pylib.common import rng, use_repo

KINDS = ["alpha", "beta", "pre", "rc", "p"]
OPS = [("lt", "<"), ("le", "<="), ("eq", "="), ("ti", "~"), ("ge", ">="), ("gt", ">")]
MC_INVS = ["TypeOK", "Reflexive", "Antisym", "Transitive", "Congruence"]


# ---------------------------------------------------------------- rendering (random cases only)
def render(v):
    s = ".".join("".join(map(str, c)) for c in v["nums"])
    if v["letter"]:
        s += chr(96 + v["letter"])
    for su in v["sufs"]:
        s += "_" + su["k"] + "".join(map(str, su["n"]))
    if v["rev"]:
        s += "-r" + "".join(map(str, v["rev"]))
    return s


def codes(s):
    return [ord(c) for c in s]


def strip_text(v):
    return {k: v[k] for k in ("nums", "letter", "sufs", "rev")}


# ---------------------------------------------------------------- random versions
def _digits(r, allow_empty=False):
    x = r.random()
    if allow_empty and x < 0.25:
        return []
    if x < 0.45:
        n = 1
    elif x < 0.8:
        n = r.randint(2, 4)
    elif x < 0.95:
        n = r.randint(5, 12)
    else:
        n = r.randint(13, 40)
    d = [r.randint(0, 9) for _ in range(n)]
    y = r.random()
    if y < 0.3:
        d[0] = 0
    elif y < 0.8 and d[0] == 0:
        d[0] = r.randint(1, 9)
    if r.random() < 0.3:
        d[-1] = 0
    if r.random() < 0.1:
        d = [0] * r.randint(1, 3)
    return d


def gen_version(r):
    v = dict(nums=[_digits(r) for _ in range(r.choice([1, 1, 2, 2, 3, 3, 4, 5]))], letter=0, sufs=[], rev=[])
    if r.random() < 0.3:
        v["letter"] = r.randint(1, 26)
    for _ in range(r.choice([0, 0, 0, 1, 1, 2, 3, 4])):
        v["sufs"].append(dict(k=r.choice(KINDS), n=_digits(r, True)))
    if r.random() < 0.5:
        v["rev"] = _digits(r)
    return v


def mutate(r, v):
    w = json.loads(json.dumps(v))
    what = r.choice(["comp", "comp", "comp", "zeros", "zeros", "ncomp", "letter", "suf", "suf", "sufn", "sufn", "nsuf", "rev", "rev"])
    if what == "comp":
        i = r.randrange(len(w["nums"]))
        w["nums"][i] = _digits(r)
    elif what == "zeros":
        i = r.randrange(len(w["nums"]))
        c = w["nums"][i]
        k = r.choice(["lead+", "lead-", "trail+", "trail-"])
        if k == "lead+":
            c.insert(0, 0)
        elif k == "lead-" and len(c) > 1 and c[0] == 0:
            c.pop(0)
        elif k == "trail+":
            c.append(0)
        elif k == "trail-" and len(c) > 1 and c[-1] == 0:
            c.pop()
    elif what == "ncomp":
        if r.random() < 0.5 or len(w["nums"]) == 1:
            w["nums"].append(r.choice([[0], [0, 0], [1], _digits(r)]))
        else:
            w["nums"].pop()
    elif what == "letter":
        w["letter"] = r.choice([0, 1, 2, 25, 26, r.randint(1, 26)])
    elif what == "suf":
        if w["sufs"]:
            w["sufs"][r.randrange(len(w["sufs"]))]["k"] = r.choice(KINDS)
        else:
            w["sufs"].append(dict(k=r.choice(KINDS), n=[]))
    elif what == "sufn":
        if w["sufs"]:
            su = w["sufs"][r.randrange(len(w["sufs"]))]
            su["n"] = r.choice([[], [0], [0, 0], [0] + su["n"], _digits(r, True)])
        else:
            w["sufs"].append(dict(k=r.choice(KINDS), n=r.choice([[], [0]])))
    elif what == "nsuf":
        if r.random() < 0.5 or not w["sufs"]:
            w["sufs"].append(dict(k=r.choice(KINDS), n=_digits(r, True)))
        else:
            w["sufs"].pop()
    else:
        w["rev"] = r.choice([[], [0], [0, 0], [0] + w["rev"], _digits(r)])
    return w


# ---------------------------------------------------------------- executing one pair
class Runner:
    def __init__(self):
        from pkgcore.ebuild import cpv, restricts

        self.cpv, self.restricts = cpv, restricts
        self._objs = {}

    def obj(self, text):
        o = self._objs.get(text)
        if o is None:
            o = self._objs[text] = self.cpv.VersionedCPV("cat/pkg-" + text)
            if len(self._objs) > 200000:
                self._objs.clear()
        return o

    def observe(self, atxt, btxt, b_has_rev):
        """Everything the real code says about the ordered pair (a, b)."""
        f = dict(lt=False, le=False, eq=False, ne=False, ge=False, gt=False)
        m = dict(lt=False, le=False, eq=False, ti=False, ge=False, gt=False)
        out = dict(raised="", cmp=0, cpv=f, vm=m, vmn_on=not b_has_rev, vmn=dict(m))
        try:
            A, B = self.obj(atxt), self.obj(btxt)
            c = self.cpv.ver_cmp(A.version, A.revision, B.version, B.revision)
            out["cmp"] = (c > 0) - (c < 0)
            out["cpv"] = dict(lt=bool(A < B), le=bool(A <= B), eq=bool(A == B), ne=bool(A != B), ge=bool(A >= B), gt=bool(A > B))
            VM = self.restricts.VersionMatch
            norev = self.cpv.Revision("")
            out["vm"] = {k: bool(VM(op, B.version, norev if op == "~" else B.revision).match(A)) for k, op in OPS}
            if not b_has_rev:
                out["vmn"] = {k: bool(VM(op, B.version, None).match(A)) for k, op in OPS}
        except Exception as e:  # judged as clause NoRaise
            out["raised"] = f"{type(e).__name__}: {e}"[:200]
        return out


def run(ck):
    use_repo()
    quick = ck.quick
    gram_mc = "VersQuick" if quick else "VersThorough"
    gram_pairs = "VersQuick" if quick else "VersPairs"
    ck.rule = ("every ordered pair of the TLC-enumerated grammar plus seeded random pairs, each executed on ver_cmp, the six "
               "VersionedCPV operators and VersionMatch for 6 operators; non-trivial = distinct ordered pair of differently "
               "spelled versions")
    ck.assumptions = [
        "PMS version syntax (lower-case letter); revisions passed as cpv.Revision objects or None, as pkgcore itself does",
        "the model-checked grammar is bounded (<= 3 numeric components, <= 3 stacked suffixes, small digit alphabet); "
        "random cases reach 5 components, 4 suffixes, 40-digit numbers",
        "'=*' glob matching and negate=True are outside the property",
    ]
    # ---- 1. the design: PMS order is a total preorder, operators agree (TLC, exhaustive)
    if not ck.replay_case:  # (a replay only re-executes and re-judges the recorded pair)
        ck.laws("Version_Laws", cfg_text=f"CONSTANT Vers <- {gram_mc}\n", label=f"Laws:Version_Laws({gram_mc})", timeout=1500)
        cfg = f"SPECIFICATION Spec\nCONSTANT Vers <- {gram_mc}\n" + "".join(f"INVARIANT {x}\n" for x in MC_INVS) + "PROPERTY Monotone\n"
        ck.mc("Version_MC", cfg_text=cfg, workers=4, label=f"MC:Version_MC({gram_mc}) all triples", timeout=2400, heap="6g")
        ck.exhaustive = True

    R = Runner()
    CH = 40000
    events, meta = [], []
    state = dict(n=0, keep=None)

    def flush():
        """Judge the recorded events with Version_Trace, then forget them."""
        if not events:
            return
        lo = state["n"] - len(events)
        verdicts = ck.trace("Version_Trace", events, label=f"Trace:Version_Trace[{lo}:{state['n']}]", timeout=1500)
        for v in verdicts:
            e = events[v["tid"] - lo]
            atxt, btxt, src = meta[v["tid"] - lo]
            if v["clause"] in ("Domain", "Render"):
                raise tlc.MachineryError(f"driver generated/rendered a case outside the domain: {atxt!r} {btxt!r} ({v['clause']})")
            detail = dict(a=atxt, b=btxt, source=src, a_rec=e["a"], b_rec=e["b"],
                          observed=dict(cmp=e["cmp"], cpv=e["cpv"], vm=e["vm"], vmn=e["vmn"] if e["vmn_on"] else None, raised=e["raised"]))
            ck.violation(v["clause"], detail)
        del events[:], meta[:]

    def add(a, b, atxt, btxt, src):
        ev = dict(tid=state["n"], i=0, a=a, b=b, atxt=codes(atxt), btxt=codes(btxt))
        ev.update(R.observe(atxt, btxt, bool(b["rev"])))
        events.append(ev)
        meta.append((atxt, btxt, src))
        state["n"] += 1
        state["keep"] = dict(a=atxt, b=btxt, source=src, observed={k: ev[k] for k in ("cmp", "cpv", "vm")})
        ck.count()
        if atxt != btxt:
            ck.nontriv((atxt, btxt))
        if len(events) >= CH:
            flush()

    if ck.replay_case:
        d = ck.replay_case["detail"]
        add(d["a_rec"], d["b_rec"], d["a"], d["b"], "replay")
    else:
        # ---- 2. spec -> code: every ordered pair of the exported grammar
        vers = ck.export("Version_Export", cfg_text=f"CONSTANT Vers <- {gram_pairs}\n", label=f"Export:Version_Export({gram_pairs})")
        vers = [(strip_text(v), "".join(map(chr, v["text"]))) for v in vers]
        ck.extra["grammar_versions"] = len(vers)
        for a, atxt in vers:
            for b, btxt in vers:
                add(a, b, atxt, btxt, "grammar")
        ck.sample(state["keep"])
        # ---- 3. code -> spec: random versions
        r = rng(1)
        for n in range(ck.pick(3000, 60000)):
            a = gen_version(r)
            x = r.random()
            b = mutate(r, a) if x < 0.5 else mutate(r, mutate(r, a)) if x < 0.75 else gen_version(r)
            if r.random() < 0.5:
                a, b = b, a
            add(a, b, render(a), render(b), "random")
            if n < 3:
                ck.sample(state["keep"])
    # ---- 4. the judge (remaining events)
    flush()
