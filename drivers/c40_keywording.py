"""C40 — keywording requests only name valid, narrowed, not-yet-present arches (ebuild/keywording.py).

MC          : Keywording_MC — the reference resolution run line by line over every repository x request x option
                              combination of a small universe: every yielded request passes every clause of the judge,
                              a stabilization stops at the first spec it cannot act on.
spec -> code: Keywording_Export writes (repository, request lines, options) cases of that universe; each is built as
              an in-memory repository (pkgcore.test.misc FakePkg/FakeRepo + known_arches) and resolved by the real
              match_packages; the line being worked on is observed through the `requested` iterator.
code -> spec: seeded random repositories (3 packages, up to 3 versions, slots, random keyword sets incl. prefix and
              repository-unknown arches), random request lists with sentinels / ~ / unknown keywords, random options.
Judged by Keywording_Trace: KnownArch, CcNarrowing, FilterNarrowing, OnlyNew, Suggest_Prefix, Suggest_NotTesting,
Suggest_NotStableElsewhere, Suggest_AlreadyCarried, Suggest_NotKeywordedElsewhere (keywording: a suggestion is an arch the version
does not carry and some version is keyworded for), Stable_SpecRejected, Match_Raised (an exception that is not a PkgcoreException).

Carve-outs: cc_arches are arches the repository knows (DESIGN C40); a package carries an arch in one form only
(not both amd64 and ~amd64); the all-arches option re-adds the stabilization candidates past cc / arch filter (documented
behaviour), so those are exempt from the two narrowing clauses; keywords a line could have got through ^ are not judged
against the suggestion clauses; which version a non-exact spec resolves to, the order of the arches and the exception
raised at the end are not part of the property.
"""
import os

from pylib import tlc
from pylib.common import rng, use_repo

ARCHES = ["amd64", "x86", "arm64", "amd64-linux", "x86-macos"]
FORM = {"stable": "", "testing": "~", "neg": "-"}


class Real:
    def __init__(self):
        from pkgcore.bugzilla.pkglist import parse_atom
        from pkgcore.ebuild import keywording
        from pkgcore.exceptions import PkgcoreException
        from pkgcore.test.misc import FakePkg, FakeRepo

        self.parse_atom, self.kw, self.FakePkg, self.FakeRepo, self.Exc = parse_atom, keywording, FakePkg, FakeRepo, PkgcoreException

    def repo(self, r):
        pkgs = []
        for p in r["pkgs"]:
            pkg = self.FakePkg(f"{p['name']}-{p['ver']}", slot=p["slot"], keywords=())
            object.__setattr__(pkg, "keywords", tuple(FORM[st] + a for a, st in sorted(p["kws"])))
            pkgs.append(pkg)
        return self.FakeRepo(pkgs=pkgs, repo_id="verif", known_arches=frozenset(r["known"]))

    @staticmethod
    def spec_text(ln):
        s = ln["op"] + ln["name"]
        if ln["op"]:
            s += f"-{ln['ver']}"
        if ln["slot"]:
            s += ":" + ln["slot"]
        return s

    @staticmethod
    def word(w):
        body = {"arch": w["arch"], "star": "*", "caret": "^", "dash": "-"}[w["t"]]
        return ("~" if w["tilde"] else "") + body

    def observe(self, tid, case):
        repo = self.repo(case["repo"])
        o = case["opts"]
        cur = [0]

        def requested():
            for n, ln in enumerate(case["lines"], start=1):
                cur[0] = n
                yield self.parse_atom(self.spec_text(ln)), tuple(self.word(w) for w in ln["written"])

        out, exc, crash = [], "", ""
        try:
            for req in self.kw.match_packages(repo, requested(), stable=o["stable"], cc_arches=tuple(o["cc"]), only_new=o["only_new"],
                                              filter_arch=tuple(o["filter"]), allarches=o["allarches"]):
                out.append(dict(line=cur[0], name=req.pkg.key, ver=int(req.pkg.fullver), kws=list(req.keywords)))
        except self.Exc as e:  # the documented ways a request ends
            exc = type(e).__name__
        except Exception as e:  # the code under test failed: an observation (judged by the trace spec), never a driver crash
            exc = crash = type(e).__name__
        return dict(tid=tid, i=0, ev="match", repo=case["repo"], lines=case["lines"], opts=o, out=out, exc=exc, crash=crash)


# ---------------------------------------------------------------- random cases
def rnd_case(r):
    known = sorted(set(r.sample(ARCHES, r.randint(2, 5))) | {"amd64"})
    pkgs = []
    for name in ("c/a", "c/b", "d/c"):
        for ver in r.sample([1, 2, 3], r.randint(1, 3)):
            kws = []
            for a in ARCHES:
                x = r.random()
                if x < 0.45:
                    continue
                kws.append([a, "stable" if x < 0.7 else "testing" if x < 0.95 else "neg"])
            pkgs.append(dict(name=name, ver=ver, slot=r.choice(["0", "0", "0", "1"]), kws=kws))
    lines = []
    # half of the lists name several versions of ONE package (whose keywords differ) and lean on the sentinels
    focus = r.choice(["c/a", "c/b", "d/c"]) if r.random() < 0.5 else None
    if focus:
        known = sorted(ARCHES)
    for _ in range(r.choice([2, 2, 3, 4]) if focus else r.choice([0, 1, 1, 2, 2, 3, 4])):
        op = r.choice(["=", "=", "=", "", ">="])
        written = []
        for _ in range(r.choice([0, 1, 1, 1, 2]) if focus else r.choice([0, 1, 1, 2, 3])):
            t = r.choice(["arch", "star", "star", "star", "caret"] if focus else
                         ["arch", "arch", "arch", "star", "star", "caret", "dash"] if r.random() < 0.9 else ["dash"])
            arch = r.choice(ARCHES + (["bogus"] if r.random() < 0.15 else [])) if t == "arch" else ""
            written.append(dict(t=t, arch=arch, tilde=r.random() < 0.2))
        name = focus or r.choice(["c/a", "c/a", "c/b", "d/c", "c/zz"] if r.random() < 0.1 else ["c/a", "c/a", "c/b", "d/c"])
        have = [p["ver"] for p in pkgs if p["name"] == name]
        lines.append(dict(op=op, name=name, ver=(r.choice(have) if focus else r.choice([1, 2, 3])) if op else 0,
                          slot="" if focus and r.random() < 0.9 else r.choice(["", "", "", "", "0", "1"]), written=written))
    if focus and r.random() < 0.8:
        for ln in lines:
            ln["op"] = "="  # an exact version each: fine for a stabilization too
            ln["ver"] = ln["ver"] or r.choice([p["ver"] for p in pkgs if p["name"] == focus])
    opts = dict(stable=r.random() < 0.6, cc=r.sample(known, r.choice([0, 0, 1, 2])), only_new=r.random() < 0.4,
                filter=sorted(r.sample(ARCHES, r.choice([0, 0, 1, 2]))), allarches=r.random() < 0.4)
    return dict(repo=dict(known=known, pkgs=pkgs), lines=lines, opts=opts)


def interesting(ev):
    return any(o["kws"] for o in ev["out"])


def mc_cfg(rich):
    return (f"SPECIFICATION Spec\nCONSTANT Rich = {'TRUE' if rich else 'FALSE'}\n"
            "INVARIANT InvDomain\nINVARIANT InvObs\nINVARIANT InvRequests\nINVARIANT InvStable\nINVARIANT InvStopsAtBadSpec\n")


def pretty(e):
    real_lines = [Real.spec_text(ln) + " " + " ".join(Real.word(w) for w in ln["written"]) for ln in e["lines"]]
    return dict(lines=real_lines, opts=e["opts"], repo_known=e["repo"]["known"],
                repo_pkgs=[f"{p['name']}-{p['ver']}:{p['slot']} " + " ".join(FORM[st] + a for a, st in p["kws"]) for p in e["repo"]["pkgs"]],
                out=[[o["line"], f"{o['name']}-{o['ver']}", o["kws"]] for o in e["out"]], exc=e["exc"], crash=e.get("crash", ""),
                mode="stable" if e["opts"]["stable"] else "keywording", allarches=e["opts"]["allarches"],
                case=dict(repo=e["repo"], lines=e["lines"], opts=e["opts"]))


def judge(ck, events, label):
    if not events:
        return
    verdicts = ck.trace("Keywording_Trace", events, label=label, timeout=1500)
    by = {e["tid"]: e for e in events}
    for v in verdicts:
        e = by[v["tid"]]
        if v["clause"] in ("OutsideDomain", "UnknownEvent"):
            raise tlc.MachineryError(f"generator left the property's domain: {pretty(e)}")
        ck.violation(v["clause"], pretty(e))


def run(ck):
    use_repo()
    real = Real()
    ck.rule = ("distinct (repository, request list, options) for which match_packages yielded at least one request that names an arch "
               "(cases ending in an exception before any such request exercise only the rejection clause)")
    ck.assumptions = [
        "the repository is an in-memory stub (pkgcore.test.misc FakePkg/FakeRepo with known_arches): match/itermatch by atom.match",
        "cc_arches are arches the repository knows; a package carries an arch in one form only",
        "prefix keywords are the arches with '-' in the name; the arch vocabulary is fixed in Keywording.tla",
    ]
    if ck.replay_case:
        ev = real.observe(0, ck.replay_case["detail"]["case"])
        ck.count()
        ck.sample(pretty(ev))
        judge(ck, [ev], "Trace:replay")
        return
    # 1. the design (VERIF_DEV_SKIP_MC: development shortcut while trying code mutations; never set by ./check users)
    if not os.environ.get("VERIF_DEV_SKIP_MC"):
        ck.mc("Keywording_MC", cfg_text=mc_cfg(not ck.quick), workers=ck.pick(4, 8), timeout=ck.pick(300, 3000),
              label=f"MC:Keywording_MC Rich={not ck.quick}")
    # 2. spec -> code
    cases = ck.export("Keywording_Export", cfg_text=f"CONSTANT Rich = {'TRUE' if not ck.quick else 'FALSE'}\n", timeout=2400,
                      heap="4g")
    ck.exhaustive = False
    events = []
    for case in cases:
        ev = real.observe(len(events), case)
        events.append(ev)
        ck.count()
        if interesting(ev):
            ck.nontriv(("x", repr(case)))
    s = next((e for e in events if len(e["out"]) == 2 and e["opts"]["cc"]), events[0])
    ck.sample({k: v for k, v in pretty(s).items() if k != "case"})
    # 3. code -> spec
    r = rng(40)
    for _ in range(ck.pick(2500, 20000)):
        case = rnd_case(r)
        ev = real.observe(len(events), case)
        events.append(ev)
        ck.count()
        if interesting(ev):
            ck.nontriv(("r", repr(case)))
    s = next((e for e in reversed(events) if interesting(e) and e["opts"]["allarches"] and e["opts"]["filter"]), events[-1])
    ck.sample({k: v for k, v in pretty(s).items() if k != "case"})
    step = 12000
    for k in range(0, len(events), step):
        judge(ck, events[k:k + step], f"Trace:{k // step}")
