"""C05 — atom intersection is symmetric, complete and witnessed.

MC          : AtomIntersect_MC — one state per ordered pair of atoms: density lemma (a witness anywhere
              in a large version grammar implies one among the candidates built from the two atoms'
              versions), factoring law (factored definition == "exists a package of the product
              universe matched by both"), gap characterisation of opposite ranges, symmetry of the spec.
spec -> code: AtomIntersect_Export enumerates universes of same-key atoms (blocks ver/attr/use/mix); the
              real atom.intersects is evaluated on ALL ORDERED PAIRS of each block, in both orders.
code -> spec: seeded random atom pairs (second version a perturbation of the first; random operators,
              slots, sub-slots, repositories, USE dependencies with defaults).
Judged by AtomIntersect_Trace: Symmetric, Complete, Witnessed_<part>, IntersectsRaised.

"Matching" is the specified relation of C04 (AtomMatch.tla).  Carve-out: pairs whose only common
candidates are matched through an 'Unspecified' answer of C04 (weak glob truncations, USE dependency
without default on a flag outside IUSE) are counted, not judged.
Domain: every atom is satisfiable on its own (no flag required both on and off inside one atom);
first version components carry no leading zero (C01).
"""
from drivers.c04_atommatch import BackgroundMC, atom_text, perturb, rand_ver
from pylib import tlc
from pylib.common import rng, use_repo


def rand_atom(r, base=None):
    flags = ["x", "y"]
    v = rand_ver(r) if base is None else perturb(r, base)
    if base is not None and r.random() < 0.15:
        v = dict(base)
    op = r.choice(["", "<", "<=", "=", "~", ">=", ">", "=*", "=*"])
    if op == "~":
        v = dict(v, rev=[])
    deps = [dict(flag=f, neg=r.random() < 0.5, dflt=r.choice(["", "", "+", "-"])) for f in r.sample(flags, r.choice([0, 0, 0, 1, 2]))]
    slot = r.choice(["", "", "", "0", "1"])
    return dict(blk="rnd", kind="atom", cat="c", pkg="p", op=op, ver=v, slot=slot,
                subslot=(r.choice(["", "", "2", "3"]) if slot else ""), repo=r.choice(["", "", "", "r1", "r2"]), deps=deps)


def run(ck):
    use_repo()
    from pkgcore.ebuild.atom import atom

    size = ck.pick(1, 2)
    ck.rule = ("every ordered pair of the TLC-enumerated same-key atoms of each block (ver/attr/use/mix) plus seeded random "
               "pairs, evaluated with the real atom.intersects in both orders; non-trivial = distinct ordered pair whose "
               "specified answer is definite (T or F)")
    ck.assumptions = [
        "'matches' is the specified relation of C04 (PMS semantics; '=v*' on component boundaries)",
        "witness versions are searched among the candidates built from the two atoms' versions (v, v without / with the next "
        "revision, v_p, v_alpha, v.0, v.1); AtomIntersect_MC shows this set complete w.r.t. a much larger grammar",
        "each atom alone is satisfiable; first numeric component without leading zero (C01)",
    ]
    invs = "DenseT DenseP Gap FactorT FactorP SymSpec SelfT".split()
    bg = BackgroundMC()
    if ck.replay_case:
        d = ck.replay_case["detail"]
        atoms, pairs = [d["a_rec"], d["b_rec"]], [(1, 2)]
    else:
        bg.start("MC:density lemma + factoring (all ordered atom pairs)", "AtomIntersect_MC",
                 "SPECIFICATION Spec\nCONSTANT Size = %d\n" % size + "".join(f"INVARIANT {i}\n" for i in invs), heap="4g")
        recs = ck.export("AtomIntersect_Export", cfg_text="CONSTANT Size = %d\n" % size, timeout=600)
        atoms = list(recs)
        pairs = []
        for blk in ("ver", "attr", "use", "mix"):
            idx = [i + 1 for i, x in enumerate(atoms) if x["blk"] == blk]
            if not idx:
                raise tlc.MachineryError(f"export block {blk} is empty")
            pairs += [(a, b) for a in idx for b in idx]
        ck.exhaustive = True
        r = rng(5)
        for _ in range(ck.pick(1500, 30000)):
            a = rand_atom(r)
            b = rand_atom(r, a["ver"])
            atoms += [a, b]
            pairs.append((len(atoms) - 1, len(atoms)))

    real = [atom(atom_text(a)) for a in atoms]
    events = [dict(tid=0, i=0, atoms=atoms)]
    for n, (ai, bi) in enumerate(pairs):
        ev = dict(tid=n + 1, i=0, a=ai, b=bi, ab=False, ba=False, raised="")
        try:
            ev["ab"] = bool(real[ai - 1].intersects(real[bi - 1]))
            ev["ba"] = bool(real[bi - 1].intersects(real[ai - 1]))
        except Exception as ex:
            ev["raised"] = type(ex).__name__
        events.append(ev)
        ck.count()
    for k in (1, len(events) // 2, len(events) - 1):
        e = events[k]
        ck.sample(dict(a=atom_text(atoms[e["a"] - 1]), b=atom_text(atoms[e["b"] - 1]), a_intersects_b=e["ab"], b_intersects_a=e["ba"]))
    verdicts = ck.trace("AtomIntersect_Trace", events, timeout=850, heap="3g")
    bg.join(ck)
    unspec = {v["tid"] for v in verdicts if v["clause"] == "Unspecified"}
    for n in range(1, len(events)):
        if n not in unspec:
            ck.nontriv((events[n]["a"], events[n]["b"]))
    ck.extra["unspecified_pairs"] = len(unspec)
    for v in verdicts:
        if v["clause"] == "Unspecified":
            continue
        e = events[v["tid"]]
        a, b = atoms[e["a"] - 1], atoms[e["b"] - 1]
        ck.violation(v["clause"], dict(a=atom_text(a), b=atom_text(b), ops=f'{a["op"] or "none"} {b["op"] or "none"}',
                                       got=dict(a_intersects_b=e["ab"], b_intersects_a=e["ba"], raised=e["raised"]),
                                       a_rec=a, b_rec=b))
