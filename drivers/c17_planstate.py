"""C17 — planner rollback restores the exact earlier state (resolver/state.py, pigeonholes.py).

MC          : PlanState_MC — every history up to MaxPlan plan entries over a 4-package universe;
              invariants State = Replay(plan), refcount laws; action property RollbackExact.
spec -> code: PlanState_Sim (TLC -simulate) chooses histories; they are executed on a real
              plan_state with fake packages / choice points / blockers.
code -> spec: seeded random histories over random universes on the real object.
Both kinds of execution log the full projected state after every call and are judged by
PlanState_Trace (post-state of every operation, return value, the invariants on every state).
"""
from pylib import tlc
from pylib.common import rng, use_repo

MC_UNIVERSE = dict(
    pkgs=["p1", "p2", "p3", "p4"],
    choices=["c1", "c2"],
    blockers=["b1", "b2"],
    restrs=["r1"],
    key={"p1": "k1", "p2": "k1", "p3": "k1", "p4": "k2"},
    slot={"p1": "0", "p2": "0", "p3": "1", "p4": "0"},
    bkey={"b1": "k1", "b2": "k2"},
    blocks=[["b1", "p1"], ["b1", "p3"], ["b2", "p4"]],
)

MC_CONSTS = """  Pkgs <- MCPkgs
  ChoicePts <- MCChoicePts
  Blockers <- MCBlockers
  Restrs <- MCRestrs
  KeyOf <- MCKeyOf
  SlotOf <- MCSlotOf
  BKeyOf <- MCBKeyOf
  Blocks <- MCBlocks
"""


def mc_cfg(maxplan):
    return (f"SPECIFICATION Spec\nCONSTANTS\n  MaxPlan = {maxplan}\n{MC_CONSTS}CONSTRAINT Bound\n"
            "INVARIANT InvReplay\nINVARIANT InvRefcnt\nINVARIANT InvLimiters\nINVARIANT InvRevSum\nINVARIANT InvChoices\n"
            "PROPERTY RollbackExact\n")


def sim_cfg(maxplan, d):
    return (f"SPECIFICATION SimSpec\nCONSTANTS\n  MaxPlan = {maxplan}\n  D = {d}\n{MC_CONSTS}CONSTRAINT SimBound\nINVARIANT Emit\n")


class World:
    """Real plan_state plus fake objects of one universe."""

    def __init__(self, uni):
        from pkgcore.resolver import state as rstate
        from pkgcore.restrictions import restriction

        self.rstate = rstate
        self.uni = uni

        class Pkg:
            def __init__(s, name, key, slot):
                s.name, s.key, s.slot = name, key, slot

            def __repr__(s):
                return s.name

        class Choice:
            def __init__(s, name):
                s.name = name

            def __repr__(s):
                return s.name

        class Blocker(restriction.base, caching=False):
            __slots__ = ("name", "key", "filed", "hits", "type")

            def __init__(s, name, key, hits):
                object.__setattr__(s, "name", name)
                # like a mangled/virtual blocker in plan.insert_blockers the restriction's own
                # .key differs from the key it is filed under (passed explicitly as key=)
                object.__setattr__(s, "filed", key)
                object.__setattr__(s, "key", "decoy/" + name)
                object.__setattr__(s, "hits", hits)
                object.__setattr__(s, "type", restriction.package_type)

            def match(s, pkg):
                return pkg.name in s.hits

            def __repr__(s):
                return s.name

        self.pkgs = {n: Pkg(n, uni["key"][n], uni["slot"][n]) for n in uni["pkgs"]}
        self.choices = {n: Choice(n) for n in uni["choices"]}
        self.blockers = {
            n: Blocker(n, uni["bkey"][n], frozenset(p for b, p in uni["blocks"] if b == n)) for n in uni["blockers"]
        }
        self.reset()

    def reset(self):
        self.ps = self.rstate.plan_state()

    # ---- projection (shared by both directions) ----
    def _entry(self, op):
        rs = self.rstate
        e = dict(t="?", c="-", p="-", force=False, b="-", old="-", oldc="-", fold=False)
        if isinstance(op, rs.replace_op):
            e.update(t="replace", c=op.choices.name, p=op.pkg.name, force=bool(op.force), old=op.old_pkg.name,
                     oldc=op.old_choices.name, fold=bool(op.force_old))
        elif isinstance(op, rs.add_op):
            e.update(t="add", c=op.choices.name, p=op.pkg.name, force=bool(op.force))
        elif isinstance(op, rs.remove_op):
            e.update(t="remove", c=op.choices.name, p=op.pkg.name)
        elif isinstance(op, rs.add_hardref_op):
            e.update(t="hardref", b=op.restriction, force=True)
        elif isinstance(op, rs.add_backref_op):
            e.update(t="backref", c=op.choices.name, p=op.pkg.name)
        elif isinstance(op, rs.incref_forward_block_op):
            e.update(t="incref", c=op.choices.name, b=op.blocker.name)
        elif isinstance(op, rs.decref_forward_block_op):
            e.update(t="decref", c=op.choices.name, b=op.blocker.name)
        return e

    def project(self):
        ps = self.ps
        slots = sorted(x.name for v in ps.state.slot_dict.values() for x in v)
        limiters = sorted([x.name, k] for k, v in ps.state.limiters.items() for x in v)
        choice = {n: "-" for n in self.pkgs}
        for p, c in ps.pkg_choices.items():
            choice[p.name] = c.name
        rev = {}
        for c, lst in ps.rev_blockers.items():
            for b, _key in lst:
                rev[(c.name, b.name)] = rev.get((c.name, b.name), 0) + 1
        return dict(
            plan=[self._entry(x) for x in ps.plan],
            slots=slots,
            slots_dupes=len(slots) != len(set(slots)),
            limiters=limiters,
            choice=choice,
            rev=[[c, b, n] for (c, b), n in sorted(rev.items())],
            refcnt={n: int(ps.blockers_refcnt.get(b, 0)) for n, b in self.blockers.items()},
            vdb={n: (int(ps.vdb_filter.get(p, 0)) if hasattr(ps.vdb_filter, "get") else int(p in ps.vdb_filter))
                 for n, p in self.pkgs.items()},
            forced={r: int(self.ps.forced_restrictions.get(r, 0)) for r in self.uni["restrs"]},
        )

    # ---- execution of one public operation ----
    def apply(self, a):
        rs, ps = self.rstate, self.ps
        ev = a["ev"]
        ret, raised = None, ""
        try:
            if ev == "add":
                ret = rs.add_op(self.choices[a["c"]], self.pkgs[a["p"]], force=a["force"]).apply(ps)
            elif ev == "remove":
                ret = rs.remove_op(self.choices[a["c"]], self.pkgs[a["p"]]).apply(ps)
            elif ev == "replace":
                ret = rs.replace_op(self.choices[a["c"]], self.pkgs[a["p"]]).apply(ps)
            elif ev == "addblocker":
                b = self.blockers[a["b"]]
                ret = ps.add_blocker(self.choices[a["c"]], b, key=b.filed)
            elif ev == "dropblocker":
                b = self.blockers[a["b"]]
                ret = rs.decref_forward_block_op(self.choices[a["c"]], b, b.filed).apply(ps)
            elif ev == "hardref":
                ret = rs.add_hardref_op(a["r"]).apply(ps)
            elif ev == "backref":
                ret = rs.add_backref_op(self.choices[a["c"]], self.pkgs[a["p"]]).apply(ps)
            elif ev == "backtrack" and a.get("fault"):
                # the rollback is interrupted when plan entry number `fault` is about to be reverted
                k = a["fault"] - 1
                ps.plan[k] = _Interrupting(ps.plan[k])
                try:
                    ret = ps.backtrack(a["pos"])
                finally:
                    for j, x in enumerate(ps.plan):
                        if isinstance(x, _Interrupting):
                            ps.plan[j] = x.op
            elif ev == "backtrack":
                ret = ps.backtrack(a["pos"])
            else:
                raise ValueError(ev)
        except _Interrupt:
            raised = "Interrupt"
        except Exception as e:  # the op itself failed: logged, judged by the trace spec
            raised = type(e).__name__
        names = sorted(getattr(x, "name", str(x)) for x in (ret or ()))
        return names, raised

    # ---- what the generator may ask for (domain of the property) ----
    def enabled(self, r_):
        ps = self.ps
        slotted = {x.name for v in ps.state.slot_dict.values() for x in v}
        acts = []
        for c in self.choices:
            co = self.choices[c]
            own = [b for b, _k in ps.rev_blockers.get(co, ())]
            for p, po in self.pkgs.items():
                if p not in slotted and any(b.filed == po.key and b.match(po) for b in own):
                    continue  # carve-out: a choice point's own blocker matching its own package
                if p not in slotted:
                    acts.append(dict(ev="add", c=c, p=p, force=False))
                    acts.append(dict(ev="add", c=c, p=p, force=True))
                    mates = [x for x in ps.state.slot_dict.get(po.key, ()) if x.slot == po.slot]
                    if len(mates) == 1:
                        acts.append(dict(ev="replace", c=c, p=p, force=False))
                elif ps.pkg_choices.get(po) is self.choices[c]:
                    acts.append(dict(ev="remove", c=c, p=p, force=False))
                    acts.append(dict(ev="backref", c=c, p=p, force=False))
            for b, bo in self.blockers.items():
                if not any(ps.pkg_choices.get(x) is co and bo.match(x) for x in ps.state.slot_dict.get(bo.filed, ())):
                    acts.append(dict(ev="addblocker", c=c, b=b))
                if any(x[0] is bo for x in ps.rev_blockers.get(self.choices[c], ())):
                    acts.append(dict(ev="dropblocker", c=c, b=b))
        for r in self.uni["restrs"]:
            acts.append(dict(ev="hardref", r=r))
        n = len(ps.plan)
        # rollbacks are the point of the property: weight them up
        for pos in range(n):
            acts.append(dict(ev="backtrack", pos=pos))
            acts.append(dict(ev="backtrack", pos=pos))
            if n - pos >= 1:
                acts.append(dict(ev="backtrack", pos=pos, fault=r_.randint(pos + 1, n)))
        return acts


class _Interrupt(BaseException):
    """stands for KeyboardInterrupt / MemoryError arriving during a rollback"""


class _Interrupting:
    """plan entry whose revert is interrupted before it does anything"""

    def __init__(self, op):
        self.op = op

    def revert(self, plan):
        raise _Interrupt()

    def __getattr__(self, name):
        return getattr(self.op, name)


def full(a):
    out = dict(ev=a["ev"], c="-", p="-", force=False, b="-", r="-", pos=0, fault=0)
    out.update(a)
    return out


def run_history(world, tid, actions, events, choose=None, steps=0, r_=None):
    """Execute a given action list (spec->code) or generate one (code->spec)."""
    world.reset()
    i = 0
    hist = []
    while True:
        if actions is not None:
            if i >= len(actions):
                break
            a = full(actions[i])
        else:
            if i >= steps:
                break
            en = world.enabled(r_)
            a = full(r_.choice(en))
        ret, raised = world.apply(a)
        i += 1
        st = world.project()
        ev = dict(tid=tid, i=i, ret=ret, raised=bool(raised), exc=raised, st=st, **a)
        events.append(ev)
        hist.append(a)
        if st.pop("slots_dupes"):
            break  # leaves the modelled domain (cannot happen with the generators used)
        if raised and not a["fault"]:
            break  # state after an internal error is not followed further
    return hist


def random_universe(r_):
    npk = r_.randint(3, 5)
    pkgs = [f"p{i+1}" for i in range(npk)]
    keys = ["k1", "k2"]
    key = {p: r_.choice(keys) if i else "k1" for i, p in enumerate(pkgs)}
    slot = {p: r_.choice(["0", "0", "1"]) for p in pkgs}
    blockers = ["b1", "b2", "b3"][: r_.randint(2, 3)]
    bkey = {b: r_.choice(keys) for b in blockers}
    blocks = [[b, p] for b in blockers for p in pkgs if key[p] == bkey[b] and r_.random() < 0.5]
    return dict(pkgs=pkgs, choices=["c1", "c2", "c3"][: r_.randint(2, 3)], blockers=blockers, restrs=["r1", "r2"],
                key=key, slot=slot, bkey=bkey, blocks=blocks)


def header(uni):
    h = dict(tid=-1, i=0, ev="universe")
    h.update(uni)
    return h


def judge(ck, uni, events, label):
    if not events:
        return
    verdicts = ck.trace("PlanState_Trace", [header(uni)] + events, label=label, timeout=1500)
    by = {(e["tid"], e["i"]): e for e in events}
    first_real = {}
    for v in verdicts:
        if v["clause"] != "OutsideDomain":
            first_real[v["tid"]] = min(first_real.get(v["tid"], 10**9), v["i"])
    for v in verdicts:
        e = by[(v["tid"], v["i"])]
        if v["clause"] == "OutsideDomain":
            if first_real.get(v["tid"], 10**9) < v["i"]:
                continue  # the state was already reported as wrong earlier in this history
            raise tlc.MachineryError(f"generator left the property's domain: {e}")
        hist = [dict(ev=x["ev"], c=x["c"], p=x["p"], force=x["force"], b=x["b"], r=x["r"], pos=x["pos"])
                for x in events if x["tid"] == e["tid"] and x["i"] <= e["i"]]
        ck.violation(v["clause"], dict(op=e["ev"], exc=e.get("exc", ""), universe=uni, history=hist, observed=e["st"]))


def run(ck):
    use_repo()
    ck.rule = ("histories of planner operations (add/forced add/remove/replace/add+drop blocker/hardref/backref) with "
               "rollbacks to arbitrary earlier plan positions; chosen by TLC simulation of PlanState_Sim and by a seeded "
               "random generator over random universes; non-trivial = distinct history that contains at least one rollback "
               "over a non-empty suffix")
    ck.assumptions = [
        "a package object is slotted at most once at a time; replace_op is applied un-forced (as plan.py does)",
        "remove/backref are given the choice point the package was added with",
        "blocker.match and the key a blocker is filed under are fixed per universe (recorded in the trace header)",
    ]
    if ck.replay_case:
        d = ck.replay_case["detail"]
        w = World(d["universe"])
        events = []
        run_history(w, 0, d["history"], events)
        judge(ck, d["universe"], events, "Trace:replay")
        ck.count()
        ck.sample(d["history"])
        ck.nontriv("replay")
        ck.nontriv("replay2")
        return
    # 1. model checking of the design
    maxplan = ck.pick(4, 5)  # 5: 2.0M states, ~2.5 min with 16 workers; 6 does not finish in 100 min
    res = ck.mc("PlanState_MC", cfg_text=mc_cfg(maxplan), workers=ck.pick(8, 16), timeout=ck.pick(1500, 6000),
                label=f"MC:PlanState_MC MaxPlan={maxplan}", expect_ok=False)
    design_violation = res.violated
    ck.extra["model_invariant_violated"] = design_violation or ""
    # 2. spec -> code
    D = ck.pick(10, 14)
    nsim = ck.pick(400, 4000)
    sim = tlc.run("PlanState_Sim", cfg_text=sim_cfg(8, D), simulate=f"num={nsim}", depth=D + 1, seed=ck_seed(), workers=1,
                  timeout=600)
    ck.add_mc(f"Simulate:PlanState_Sim num={nsim} depth={D}", sim)
    behs = [p[1] for p in sim.tagged("BEH")]
    if len(behs) < nsim // 2:
        raise tlc.MachineryError(f"simulation produced only {len(behs)} behaviours\n{sim.out[-2000:]}")
    w = World(MC_UNIVERSE)
    events = []
    for tid, beh in enumerate(behs):
        hist = run_history(w, tid, beh, events)
        ck.count()
        if any(a["ev"] == "backtrack" for a in hist):
            ck.nontriv(("sim", repr(hist)))
    ck.sample(dict(direction="spec->code", history=behs[0]))
    judge(ck, MC_UNIVERSE, events, "Trace:sim-histories")
    # 3. code -> spec
    r_ = rng(17)
    for u in range(ck.pick(3, 12)):
        uni = random_universe(r_)
        w = World(uni)
        events = []
        for tid in range(ck.pick(150, 600)):
            hist = run_history(w, tid, None, events, steps=r_.randint(4, ck.pick(14, 24)), r_=r_)
            ck.count()
            if any(a["ev"] == "backtrack" for a in hist):
                ck.nontriv(("rnd", u, repr(hist)))
        if u == 0:
            ck.sample(dict(direction="code->spec", universe=uni, history=hist))
        judge(ck, uni, events, f"Trace:random-universe-{u}")
    if design_violation and not ck.violations:
        # the model says the design cannot satisfy the property but no execution showed it
        raise tlc.MachineryError(f"PlanState_MC violates {design_violation} but no real execution reproduced it")


def ck_seed():
    from pylib.common import seed

    return seed() + 1
