"""C42 — package move updates follow move chains in file order
(src/pkgcore/ebuild/pkg_updates.py read_updates / _process_updates / _scan_directory).

MC          : PkgUpdates_MC — the deque-sharing mechanism of read_updates, fed every line
              sequence up to MaxLines over three names; after every line flattening the deque
              graph must equal the sequential reference of PkgUpdates.tla (invariants
              MechanismIsReference, MovedIsFinal, NoDuplicates).
spec -> code: PkgUpdates_Export enumerates every line sequence (moves incl. cycles / self moves /
              redundant moves, slotmoves, malformed lines) cut into up to three quarter-named
              files whose lexicographic order is the reverse of the chronological one; each case
              is written to a scratch profiles/updates (creation order shuffled) and read by the
              real read_updates with an EAPI 7 object.
code -> spec: seeded random update directories (more names, up to 6 files with random quarters,
              versioned slotmove atoms, many malformed kinds, blank lines, missing directory).
PkgUpdates_Trace recomputes Commands(name) for every name and reports Raised, Names_missing,
Names_extra, Chain_incomplete, Chain_extra, Chain_order.

EAPI 8     : directories with free-form file names.  PMS leaves the order of such files open, so no
              particular order is demanded; but the files form A sequence: the same directory is read
              under three directory-listing orders (the order of what listdir_files returns is chosen
              by the driver: sorted, reversed, shuffled) and the results must be identical
              (Listing_order_leaks) and equal to the reference under some order of the files
              (No_file_order_explains).  The quarter-named directories are read under a shuffled
              listing as well.

Carve-outs: lines with leading/trailing whitespace (the code logs an error but still applies
them — the property does not say which) are not generated; which order EAPI 8 files apply in is
not judged (only that it is a function of the directory's content).
"""
import os
import shutil

from pylib import tlc
from pylib.common import mktmp, rng, use_repo

CAT = "cat"

BAD_RENDER = {
    # kind -> text (A, B are two package names)
    "unknown": "frobnicate {A} {B}",
    "comment": "# move {A} {B}",
    "empty": "",
    "moveshort": "move {A}",
    "movelong": "move {A} {B} {B}",
    "movever_src": "move ={A}-1 {B}",
    "movever_trg": "move {A} ={B}-1.2",
    "slotshort": "slotmove {A} 0",
    "slotlong": "slotmove {A} 0 1 2",
    "slotslotted": "slotmove {A}:0 0 1",
    "badatom_src": "move {a} {B}",          # package name without a category
    "badatom_trg": "move {A} {B}::",
    "slotbadatom": "slotmove {A}-1 0 1",
    "slotbadslot": "slotmove {A} 0 !1",
}


def pkgname(n):
    return f"{CAT}/{n}"


def render(line, r_=None):
    k = line["k"]
    if k == "move":
        return f"move {pkgname(line['a'])} {pkgname(line['b'])}"
    if k == "slotmove":
        spec = pkgname(line["a"])
        if r_ is not None and r_.random() < 0.3:
            spec = r_.choice([">=%s-1", "~%s-2.1", "=%s-3*", "<%s-4-r1"]) % spec
        return f"slotmove {spec} {line['s1']} {line['s2']}"
    a = line["a"] if line["a"] != "-" else "a"
    b = line["b"] if line["b"] != "-" else "b"
    return BAD_RENDER[line["s1"]].format(A=pkgname(a), B=pkgname(b), a=a)


def project(result):
    """read_updates() mapping -> [{n, cmds}] in the abstract vocabulary (names, slots)."""
    got = []
    for key, cmds in sorted(result.items()):
        out = []
        for c in cmds:
            if c[0] == "move":
                out.append(dict(k="move", a=unname(c[1].key), b=unname(c[2].key), s1="-", s2="-"))
            elif c[0] == "slotmove":
                out.append(dict(k="slotmove", a=unname(c[1].key), b="-", s1=str(c[1].slot), s2=str(c[2])))
            else:
                out.append(dict(k=str(c[0]), a="-", b="-", s1="-", s2="-"))
        got.append(dict(n=unname(key), cmds=out))
    return got


def unname(key):
    cat, _, pn = key.partition("/")
    return pn if cat == CAT else key


class Bench:
    def __init__(self):
        self.root = mktmp("c42")
        self.n = 0

    def write(self, files, r_, present=True):
        """files: [{y, q, lines:[text]}] -> path of a fresh updates directory."""
        self.n += 1
        d = os.path.join(self.root, f"u{self.n}", "updates")
        if not present:
            return d
        os.makedirs(d)
        order = list(files)
        r_.shuffle(order)
        for f in order:
            with open(os.path.join(d, f.get("name") or f"{f['q']}Q-{f['y']}"), "w") as fh:
                fh.write("".join(t + "\n" for t in f["text"]))
        return d

    def drop(self, d):
        shutil.rmtree(os.path.dirname(d), ignore_errors=True)


def random_dir(r_, names):
    keys = r_.sample([(y, q) for y in range(2018, 2024) for q in range(1, 5)], r_.randint(0, 6))
    slots = ["0", "1", "2", "1.2"]
    files = []
    for y, q in keys:
        lines = []
        for _ in range(r_.randint(0, 8)):
            c = r_.random()
            if c < 0.55:
                lines.append(dict(k="move", a=r_.choice(names), b=r_.choice(names), s1="-", s2="-"))
            elif c < 0.8:
                lines.append(dict(k="slotmove", a=r_.choice(names), b="-", s1=r_.choice(slots), s2=r_.choice(slots)))
            else:
                lines.append(dict(k="bad", a=r_.choice(names), b=r_.choice(names), s1=r_.choice(sorted(BAD_RENDER)), s2="-"))
        files.append(dict(y=y, q=q, lines=lines))
    return files


def run(ck):
    use_repo()
    import logging

    logging.getLogger("pkgcore").setLevel(logging.CRITICAL)  # every skipped line is logged as an error
    from pkgcore.ebuild import pkg_updates
    from pkgcore.ebuild.eapi import get_eapi

    eapi7, eapi8 = get_eapi("7"), get_eapi("8")
    # the order in which a directory lists its files is not under anybody's control: the real
    # listdir_files is kept, only the order of what it returns is chosen here per read
    real_listdir = pkg_updates.listdir_files
    listing = {"order": "sorted", "rng": rng(4242)}

    def listdir_in_some_order(path):
        found = sorted(real_listdir(path))
        if listing["order"] == "reversed":
            found.reverse()
        elif listing["order"] == "random":
            listing["rng"].shuffle(found)
        return found

    pkg_updates.listdir_files = listdir_in_some_order
    FREE_NAMES = ["2021.1", "2021.2", "2020.10", "2020.9", "moves", "zz-last", "A-first", "10", "9", "pkgmove_2019", "Q1", "b.2"]
    ck.rule = ("one call of the real read_updates per update directory; directories enumerated by TLC (all line "
               "sequences x file cuts) plus seeded random ones; non-trivial = distinct directory with at least one move "
               "whose target has a later accepted command or that is redundant (a chain or a redundancy is exercised)")
    ck.assumptions = [
        "update files are quarter-named (EAPI <= 7) and apply in (year, quarter) order, lines in file order",
        "package names / slots are opaque; three names stand for all in the exhaustive part",
        "lines with surrounding whitespace are not generated (left open by the property)",
    ]
    bench = Bench()
    r_ = rng(42)
    events, cases = [], []

    def execute(files, names, present=True, vary=None, free=False, orders=("random",)):
        """free: an EAPI 8 directory (free-form file names, taken from the files' "name"); orders: the
        directory-listing orders under which the same directory is read."""
        if not present:
            files = []  # the updates directory does not exist at all
        for f in files:
            if "text" not in f:
                f["text"] = [render(x, vary) for x in f["lines"]]
        d = bench.write(files, r_, present)
        ev = dict(tid=len(events), i=0, eapi8=free, names=names, files=[dict(y=f["y"], q=f["q"], lines=f["lines"]) for f in files],
                  raised=False, gots=[])
        exc = ""
        try:
            for o in orders:
                listing["order"] = o
                ev["gots"].append(project(pkg_updates.read_updates(d, eapi8 if free else eapi7)))
        except Exception as e:  # judged (Raised)
            ev["raised"], exc, ev["gots"] = True, f"{type(e).__name__}: {e}", [[]]
        bench.drop(d)
        events.append(ev)
        cases.append(dict(files=[dict(y=f["y"], q=f["q"], name=f.get("name", ""), lines=f["lines"], text=f["text"]) for f in files],
                          names=names, present=present, exc=exc, free=free, orders=list(orders)))
        ck.count()
        flat = [x for f in sorted(files, key=lambda f: (f["y"], f["q"])) for x in f["lines"]]
        srcs = [x["a"] for x in flat if x["k"] != "bad"]
        if any(x["k"] == "move" and (x["b"] in srcs or srcs.count(x["a"]) > 1) for x in flat):
            ck.nontriv(repr(cases[-1]["files"]))

    if ck.replay_case:
        d = ck.replay_case["detail"]["case"]
        execute([dict(y=f["y"], q=f["q"], name=f.get("name", ""), lines=f["lines"], text=f["text"]) for f in d["files"]], d["names"],
                d.get("present", True), free=d.get("free", False), orders=tuple(d.get("orders", ("random",))))
    else:
        # 1. the mechanism against the sequential reference
        ml = ck.pick(3, 4)
        ck.mc("PkgUpdates_MC", cfg_text=f'SPECIFICATION Spec\nCONSTANTS\n Names = {{"a", "b", "c"}}\n Slots <- SlotPairs2\n MaxLines = {ml}\n'
              "INVARIANT MechanismIsReference\nINVARIANT MovedIsFinal\nINVARIANT NoDuplicates\n",
              workers=ck.pick(2, 4), timeout=ck.pick(200, 1500), label=f"MC:PkgUpdates_MC MaxLines={ml}")
        # 2. spec -> code
        names = ["a", "b", "c"]
        el, fs = ck.pick((3, 2), (4, 3))
        kinds = ck.pick('{"unknown", "moveshort"}', '{"badatom_trg"}')
        cfg = f'CONSTANTS\n Names = {{"a", "b", "c"}}\n MaxLines = {el}\n FullSplits = {fs}\n BadKinds = {kinds}\n'
        exported = ck.export("PkgUpdates_Export", cfg_text=cfg, timeout=ck.pick(200, 1500))
        ck.exhaustive = True
        ck.extra["directories_enumerated"] = len(exported)
        for c in exported:
            execute([dict(y=f["y"], q=f["q"], lines=list(f["lines"])) for f in c["files"]], names)
        ck.sample(dict(direction="spec->code", files=cases[len(cases) // 2]["files"]))
        # 3. code -> spec
        for k in range(ck.pick(800, 15000)):
            nm = ["a", "b", "c", "d", "e", "f"][: r_.randint(2, 6)]
            execute(random_dir(r_, nm), nm, present=r_.random() > 0.02, vary=r_)
        ck.sample(dict(direction="code->spec", files=cases[-1]["files"], got=events[-1]["gots"][0]))
        # 4. EAPI 8 directories: free-form file names, every directory read under three listing orders
        def as_free(files):
            picked = r_.sample(FREE_NAMES, len(files))
            return [dict(y=0, q=0, name=nm, lines=f["lines"]) for nm, f in zip(picked, files)]

        multi = [c for c in exported if len(c["files"]) >= 2]
        for c in r_.sample(multi, min(len(multi), ck.pick(600, 12000))):
            execute(as_free([dict(lines=list(f["lines"])) for f in c["files"]]), names, free=True, orders=("sorted", "reversed", "random"))
        for k in range(ck.pick(200, 4000)):
            nm = ["a", "b", "c", "d"][: r_.randint(2, 4)]
            execute(as_free(random_dir(r_, nm)[:4]), nm, vary=r_, free=True, orders=("sorted", "reversed", "random"))
        ck.sample(dict(direction="EAPI 8 directory", files=cases[-1]["files"], got=events[-1]["gots"][0]))

    verdicts = []
    for lo in range(0, len(events), 50000):
        verdicts += ck.trace("PkgUpdates_Trace", events[lo : lo + 50000], label=f"Trace:PkgUpdates_Trace[{lo}:]", timeout=1500)
    for v in verdicts:
        c, e = cases[v["tid"]], events[v["tid"]]
        chrono = sorted(c["files"], key=lambda f: (f["y"], f["q"]))
        badkinds = sorted({x["s1"] for f in c["files"] for x in f["lines"] if x["k"] == "bad"})
        ck.violation(v["clause"], dict(
            case=c, exc=c["exc"].split(":")[0], gots=e["gots"], nfiles=len(c["files"]), bad_kinds=",".join(badkinds), eapi8=c["free"],
            name_order_is_chronological=[f"{f['q']}Q-{f['y']}" for f in chrono] == sorted(f"{f['q']}Q-{f['y']}" for f in chrono),
        ))
    pkg_updates.listdir_files = real_listdir
    shutil.rmtree(bench.root, ignore_errors=True)
