"""C11 — stacked USE configuration applies entries in order, including -* resets.

Spec        : specs/UseStack.tla — a stack is the ordered LOG of the entries it was given; the flags of a package are
              Incremental!ChunkFold of the applicable entries in log order; add/update_from_stream/merge append,
              freeze/clone/optimize leave the log alone.
MC          : UseStack_Collapse — the implementation-shaped Collapse (transcribing _build_cp_atom_payload) against
              the fold, for every sequence of <= N entries (global / key-wide / version-specific) over
              {x, p_a, *, p_*}; the legacy algorithm has TLC counterexamples (recorded in the evidence), the
              algorithm with a wildcard barrier (what fixes/C11-* implements) is verified.
              UseStack_MC — the mechanism of ChunkedDataDict (collapsed globals + per-key lists, defaultdict
              seeding, "globals not yet in the key list" catch-up, merge) as a state machine, checked against
              the abstract log (refinement: every render equals the fold of the log).
spec -> code: UseStack_Sim (TLC -simulate) chooses histories over a pool of stacks; replayed on real
              ChunkedDataDict objects.
code -> spec: seeded random histories; package_use_splitter lines; end-to-end through a real domain over an
              on-disk profile stack + make.conf USE + package.use (domain.enabled_use / forced_use).
After EVERY step every live object is rendered (pull_data) for 4 packages x 2 sets of package defaults and
judged by UseStack_Trace (clauses Render_after_<op>, Render_other_object, Collapse_meaning, Split_*,
Domain_*).

Carve-outs: an entry never enables and disables the same flag (split_negations makes an entry an unordered
(neg, pos) pair, the property orders ENTRIES); wildcards only negated; frozen stacks are not mutated; PayloadDict
(unused in pkgcore) is not driven.
"""
import os

from pylib import tlc
from pylib.common import mktmp, rng, use_repo

PKGS = {"a1": "cat/a-1", "a2": "cat/a-2", "b1": "cat/b-1", "c1": "dog/c-1"}
SCOPES = {"glob": "*/*", "cat_cat": "cat/*", "cat_dog": "dog/*", "any_a": "cat/a", "eq_a1": "=cat/a-1",
          "ge_a2": ">=cat/a-2", "any_b": "cat/b", "any_c": "dog/c"}
FLAGS = ["x", "y", "p_a", "p_b", "q_a", "q_b"]
WILD = ["*", "p_*", "q_*"]
PRES = [[], ["p_a", "x"]]
K = 4


class World:
    def __init__(self):
        from pkgcore.ebuild import misc
        from pkgcore.test.misc import FakePkg
        from pkgcore.util.parserestrict import parse_match

        self.misc = misc
        self.pkgs = {k: FakePkg(v) for k, v in PKGS.items()}
        self.restr = {k: parse_match(v) for k, v in SCOPES.items()}
        self.objs = {}

    def chunk(self, e):
        return self.misc.chunked_data(self.restr[e["sc"]], tuple(e["neg"]), tuple(e["pos"]))

    def renders(self):
        out = []
        for o, d in sorted(self.objs.items()):
            for p, pkg in self.pkgs.items():
                for pre in PRES:
                    out.append(dict(obj=o, pkg=p, pre=pre, got=sorted(d.pull_data(pkg, pre_defaults=tuple(pre)))))
        return out

    def apply(self, a):
        op, o = a["op"], a["obj"]
        if op == "new":
            self.objs[o] = self.misc.ChunkedDataDict()
        elif op == "global":
            self.objs[o].add_bare_global(tuple(a["neg"]), tuple(a["pos"]))
        elif op == "add":
            if len(a["entries"]) == 1:
                self.objs[o].add(self.chunk(a["entries"][0]))
            else:
                self.objs[o].update_from_stream(self.chunk(e) for e in a["entries"])
        elif op == "merge":
            self.objs[o].merge(self.objs[a["other"]])
        elif op == "freeze":
            self.objs[o].freeze()
        elif op == "clone":
            self.objs[a["other"]] = self.objs[o].clone(unfreeze=a["unfreeze"])
        elif op == "optimize":
            self.objs[o].optimize(cache={} if a["cached"] else None)
        else:
            raise ValueError(op)


def full(a):
    out = dict(op=a["op"], obj=a["obj"], other=0, unfreeze=False, cached=False, neg=[], pos=[], entries=[])
    out.update(a)
    return out


def rand_entry(r_, sc=None):
    sc = sc or r_.choice(sorted(SCOPES))
    pool = FLAGS + WILD
    picked = [f for f in pool if r_.random() < 0.28]
    neg, pos = [], []
    for f in picked:
        if f in WILD or r_.random() < 0.45:
            neg.append(f)
        else:
            pos.append(f)
    return dict(sc=sc, neg=neg, pos=pos)


def rand_history(r_, steps):
    """Inputs only: which operation on which object; frozenness is tracked to stay inside the domain."""
    live, frozen = {0: False}, {}
    hist = [dict(op="new", obj=0)]
    frozen = {0: False}
    for _ in range(steps):
        o = r_.choice(sorted(frozen))
        mutable = [k for k, f in frozen.items() if not f]
        x = r_.random()
        if x < 0.30 and mutable:
            o = r_.choice(mutable)
            hist.append(dict(op="add", obj=o, entries=[rand_entry(r_) for _ in range(r_.choice([1, 1, 1, 2, 3]))]))
        elif x < 0.45 and mutable:
            o = r_.choice(mutable)
            e = rand_entry(r_, "glob")
            hist.append(dict(op="global", obj=o, neg=e["neg"], pos=e["pos"]))
        elif x < 0.60 and mutable and len(frozen) > 1:
            o = r_.choice(mutable)
            other = r_.choice([k for k in frozen if k != o])
            hist.append(dict(op="merge", obj=o, other=other))
        elif x < 0.70:
            hist.append(dict(op="freeze", obj=o))
            frozen[o] = True
        elif x < 0.85:
            dst = r_.choice([k for k in range(K) if k != o])
            unf = r_.random() < 0.6
            hist.append(dict(op="clone", obj=o, other=dst, unfreeze=unf))
            frozen[dst] = frozen[o] and not unf
        elif x < 0.93:
            hist.append(dict(op="optimize", obj=o, cached=r_.random() < 0.5))
        elif len(frozen) < K:
            n = min(k for k in range(K) if k not in frozen)
            hist.append(dict(op="new", obj=n))
            frozen[n] = False
    del live
    return hist


def run_history(w, tid, hist, events):
    w.objs = {}
    for i, a in enumerate(hist, 1):
        a = full(a)
        exc = ""
        try:
            w.apply(a)
            renders = w.renders()
        except Exception as e:  # the operation itself failed: judged (no render matches an empty list)
            exc = f"{type(e).__name__}: {e}"
            renders = [dict(obj=a["obj"], pkg="a1", pre=[], got=["<raised>"])]
        events.append(dict(tid=tid, i=i, exc=exc, renders=renders, **a))
        if exc:
            break


def judge(ck, events, hists, label):
    """History traces: one violation per (history, clause), at the first step where it shows."""
    if not events:
        return
    # sliced at history boundaries so that no single JVM has to hold a very large trace
    verdicts, part, n = [], [], 0
    for k, e in enumerate(events):
        part.append(e)
        if len(part) >= 6000 and (k + 1 == len(events) or events[k + 1]["i"] == 1):
            verdicts += ck.trace("UseStack_Trace", part, label=f"{label}[{n}]", timeout=ck.pick(1500, 10800))
            part, n = [], n + 1
    if part:
        verdicts += ck.trace("UseStack_Trace", part, label=f"{label}[{n}]", timeout=ck.pick(1500, 10800))
    first = {}
    for v in verdicts:
        if v["clause"] == "OutsideDomain":
            raise tlc.MachineryError(f"generator left the property's domain: tid={v['tid']} i={v['i']}")
        key = (v["tid"], v["clause"])
        if key not in first or v["i"] < first[key]:
            first[key] = v["i"]
    by = {(e["tid"], e["i"]): e for e in events}
    for (tid, clause), i in sorted(first.items()):
        e = by[(tid, i)]
        ck.violation(clause, dict(kind="history", op=e["op"], exc=e["exc"], history=hists[tid][:i], step=i))


def judge_flat(ck, events, label):
    """collapse / split / domain events: independent cases."""
    if not events:
        return
    slim = [{k: v for k, v in e.items() if k != "case"} for e in events]
    for v in ck.trace("UseStack_Trace", slim, label=label, timeout=ck.pick(1500, 10800)):
        e = events[v["tid"]]
        if v["clause"] == "OutsideDomain":
            raise tlc.MachineryError(f"generator left the property's domain: {e['case']}")
        obs = {k: e[k] for k in ("out", "neg", "pos", "obs") if k in e and e[k] != []}
        ck.violation(v["clause"], dict(kind=e["op"], case=e["case"], observed=obs))


# ---- _build_cp_atom_payload ---------------------------------------------------------------------
def collapse_event(w, case):
    key = case["key"]
    restrict = w.restr["glob"] if key == "-" else w.restr[{"a": "any_a", "b": "any_b", "c": "any_c"}[key]]
    out = w.misc._build_cp_atom_payload([w.chunk(e) for e in case["seq"]], restrict)
    proj = []
    for c in out:
        names = [n for n, r in w.restr.items() if r is c.key or (type(r) is type(c.key) and r == c.key)]
        if not names:
            raise tlc.MachineryError(f"collapse returned an unknown restriction {c.key!r}")
        proj.append(dict(sc=names[0], neg=sorted(c.neg), pos=sorted(c.pos)))
    return dict(op="collapse", key=key, seq=case["seq"], out=proj, case=case)


def rand_collapse(r_):
    key = r_.choice(["-", "a", "a"])
    scopes = ["glob", "cat_cat", "cat_dog"] if key == "-" else ["glob", "cat_cat", "any_a", "eq_a1", "ge_a2"]
    seq = []
    for _ in range(r_.randint(2, 6)):
        e = dict(sc=r_.choice(scopes), neg=[], pos=[])
        for f in ["x", "y", "p_a", "p_b", "*", "p_*"]:
            z = r_.random()
            if z < 0.22:
                e["neg"].append(f)
            elif z < 0.42 and "*" not in f:
                e["pos"].append(f)
        seq.append(e)
    return dict(ev="collapse", key=key, seq=seq)


# ---- a real domain over an on-disk profile stack -----------------------------------------------
def itext(t):
    return ("-" if t["neg"] else "") + ("*" if t["kind"] == "star" else t["name"])


def line_text(toks):
    out = []
    for t in toks:
        if t["k"] == "expand":
            out.append(t["name"].upper() + ":")
        elif t["k"] == "clear":
            out.append("-*")
        else:
            out.append(("-" if t["neg"] else "") + t["name"])
    return " ".join(out)


def entry_line(e):
    return " ".join([SCOPES[e["sc"]]] + ["-" + f for f in e["neg"]] + list(e["pos"]))


_dom = [0]


def domain_events(w, cfg):
    """Write cfg to disk, build the real domain, observe; returns [split events..., domain event]."""
    from pkgcore.ebuild import domain as domain_mod
    from pkgcore.ebuild import profiles
    from pkgcore.test.misc import FakePkg

    _dom[0] += 1
    top = mktmp(f"dom{_dom[0]}")
    conf, root, base = (os.path.join(top, x) for x in ("conf", "root", "profiles"))
    for d in (conf, root, base):
        os.makedirs(d)
    names = []
    for k, n in enumerate(cfg["nodes"]):
        d = os.path.join(base, f"p{k}")
        os.makedirs(d)
        names.append(f"p{k}")
        md = f'USE="{" ".join(itext(t) for t in n["use"])}"\n'
        if not n["parents"]:
            md = f'ARCH="{cfg["arch"]}"\nACCEPT_KEYWORDS="{cfg["arch"]}"\n' + md
        else:
            with open(os.path.join(d, "parent"), "w") as f:
                f.write("".join(f"../p{j - 1}\n" for j in n["parents"]))  # parents are 1-based node indices
        with open(os.path.join(d, "make.defaults"), "w") as f:
            f.write(md)
        for fname, key in (("package.use", "pkguse"), ("package.use.force", "pkgforce"), ("package.use.mask", "pkgmask")):
            if n[key]:
                with open(os.path.join(d, fname), "w") as f:
                    f.write("".join(entry_line(e) + "\n" for e in n[key]))
        for fname, key in (("use.force", "force"), ("use.mask", "mask")):
            if n[key]["neg"] or n[key]["pos"]:
                with open(os.path.join(d, fname), "w") as f:
                    f.write("".join(f"-{x}\n" for x in n[key]["neg"]) + "".join(f"{x}\n" for x in n[key]["pos"]))
    if cfg["user"]:
        with open(os.path.join(conf, "package.use"), "w") as f:
            f.write("".join(f'{SCOPES[ln["sc"]]} {line_text(ln["toks"])}\n' for ln in cfg["user"]))
    dom = domain_mod.domain(profiles.OnDiskProfile(base, names[-1]), [], [], ROOT=root, config_dir=conf,
                            USE=" ".join(itext(t) for t in cfg["conf"]))
    evs = []
    pu = dom.pkg_use
    if len(pu) != len(cfg["user"]):
        raise tlc.MachineryError(f"package.use: {len(cfg['user'])} lines written, {len(pu)} parsed: {cfg['user']}")
    for ln, (_r, (neg, pos)) in zip(cfg["user"], pu):
        evs.append(dict(op="split", toks=ln["toks"], neg=sorted(neg), pos=sorted(pos), case=dict(ev="split", toks=ln["toks"])))
    obs = []
    for p, cpv in PKGS.items():
        for pre, kw in (([], "~" + cfg["arch"]), (["p_a", "x"], cfg["arch"])):
            pkg = FakePkg(cpv, iuse=["+" + f for f in pre] + ["y", "q_a"], keywords=[kw])
            imm, en, dis = dom.get_package_use_unconfigured(pkg, for_metadata=False)
            obs.append(dict(pkg=p, pre=pre, enabled=sorted(en), forced=sorted(imm), masked=sorted(dis)))
    evs.append(dict(op="domain", cfg=cfg, obs=obs, case=dict(ev="domain", cfg=cfg)))
    return evs


def IT(neg, kind, name):
    return dict(neg=neg, kind=kind, name=name)


def rand_stream(r_, n):
    out = []
    for _ in range(r_.randint(0, n)):
        if r_.random() < 0.12:
            out.append(IT(True, "star", ""))
        else:
            out.append(IT(r_.random() < 0.4, "flag", r_.choice(FLAGS)))
    return out


def rand_np(r_, p=0.2):
    neg, pos = [], []
    for f in FLAGS:
        z = r_.random()
        if z < p:
            neg.append(f)
        elif z < 2 * p:
            pos.append(f)
    return dict(neg=neg, pos=pos)


def rand_line(r_):
    """Tokens of one user package.use line; no flag text in both polarities (carve-out)."""
    while True:
        toks, pre = [], ""
        seen = {}
        ok = True
        for _ in range(r_.randint(1, 6)):
            z = r_.random()
            if z < 0.18:
                pre = r_.choice(["p", "q"])
                if any(t["k"] == "expand" and t["name"] == pre for t in toks):
                    ok = False  # a USE_EXPAND group named twice in one line (carve-out)
                toks.append(dict(k="expand", neg=False, name=pre))
            elif z < 0.34:
                toks.append(dict(k="clear", neg=True, name=""))
            else:
                name = r_.choice(["a", "b"] if pre else ["x", "y"])
                neg = r_.random() < 0.4
                if seen.setdefault((pre, name), neg) != neg:
                    ok = False
                toks.append(dict(k="flag", neg=neg, name=name))
        if ok:
            return toks


def rand_parents(r_, k):
    """Parents (1-based indices of earlier nodes) of node k: chains, forks and diamonds."""
    if k == 1:
        return []
    n = 1 if r_.random() < 0.55 else 2
    return r_.sample(range(1, k), min(n, k - 1))


def rand_cfg(r_):
    atoms = ["any_a", "eq_a1", "ge_a2", "any_b", "any_c"]

    def ents(n, wild):
        out = []
        for _ in range(r_.randint(0, n)):
            e = rand_entry(r_, r_.choice(atoms))
            if not wild:
                e["neg"] = [f for f in e["neg"] if "*" not in f]
            if e["neg"] or e["pos"]:
                out.append(e)
        return out

    nodes = [dict(parents=rand_parents(r_, k), use=rand_stream(r_, 3), pkguse=ents(3, True), pkgforce=ents(2, False),
                  pkgmask=ents(2, False), force=rand_np(r_, 0.12), mask=rand_np(r_, 0.12)) for k in range(1, r_.randint(1, 4) + 1)]
    return dict(nodes=nodes, conf=rand_stream(r_, 4), arch="amd64",
                user=[dict(sc=r_.choice(sorted(SCOPES)), toks=rand_line(r_)) for _ in range(r_.randint(0, 5))])


# ---- TLC configuration --------------------------------------------------------------------------
def sw(b, t, c):
    f = lambda v: "TRUE" if v else "FALSE"  # noqa: E731
    return f"CONSTANT FixBarrier = {f(b)}\nCONSTANT FixTouched = {f(t)}\nCONSTANT FixCatchup = {f(c)}\n"


def scopes(xs):
    return "{" + ", ".join(f'"{x}"' for x in xs) + "}"


def collapse_cfg(fix, n, maxtok, scs):
    return ("SPECIFICATION Spec\n" + sw(*fix) + f"CONSTANT N = {n}\nCONSTANT MaxTok = {maxtok}\nCONSTANT MCScopes = {scopes(scs)}\n"
            "CONSTRAINT Bound\nINVARIANT CollapseKeepsMeaning\nINVARIANT CollapseNoLonger\n")


def mech_cfg(fix, na, nb, scs):
    return ("SPECIFICATION Spec\n" + sw(*fix) + f"CONSTANT NA = {na}\nCONSTANT NB = {nb}\nCONSTANT MCScopes = {scopes(scs)}\n"
            "CONSTRAINT Bound\nINVARIANT InvA\nINVARIANT InvB\nINVARIANT InvKeys\n")


def counterexample(res):
    """The last state of TLC's error trace, as text (evidence only)."""
    i = res.out.rfind("\nState ")
    j = res.out.find("\n\n", i + 1)
    return res.out[i:j].strip()[:1500] if i >= 0 else ""


FIXED, LEGACY = (True, True, True), (False, False, False)
S2 = ["glob", "eq_a1"]
S3 = ["glob", "eq_a1", "ge_a2"]
S4 = ["glob", "any_a", "eq_a1", "ge_a2"]


def model_check(ck):
    W = 4
    # the repaired design is verified ...
    if ck.quick:  # (the thorough tier runs the same models over more scopes below)
        ck.mc("UseStack_Collapse", cfg_text=collapse_cfg(FIXED, 3, 1, S2), workers=W, timeout=1500, label="MC:Collapse repaired N=3 2 scopes")
        ck.mc("UseStack_MC", cfg_text=mech_cfg(FIXED, 2, 1, ["glob", "eq_a1"]), workers=W, timeout=1500,
              label="MC:mechanism repaired NA=2 NB=1 2 scopes")
    # ... and the legacy design is refuted by TLC (counterexamples kept in the evidence; whether the
    # implementation under test still has them is decided by the traces below, not here)
    cex = {}
    r = ck.mc("UseStack_Collapse", cfg_text=collapse_cfg(LEGACY, 3, 1, S2), workers=W, timeout=ck.pick(1500, 10800), expect_ok=False,
              label="MC:Collapse legacy (wildcard reset)")
    cex["collapse_moves_flags_across_a_wildcard_reset"] = dict(violated=r.violated or "", last_state=counterexample(r))
    if ck.tier == "thorough":
        ck.mc("UseStack_Collapse", cfg_text=collapse_cfg(FIXED, 3, 1, S3), workers=W, timeout=10800, label="MC:Collapse repaired N=3 3 scopes")
        ck.mc("UseStack_MC", cfg_text=mech_cfg(FIXED, 2, 1, ["glob", "any_a", "eq_a1"]), workers=W, timeout=10800,
              label="MC:mechanism repaired NA=2 NB=1 3 scopes")
        ck.mc("UseStack_Collapse", cfg_text=collapse_cfg(FIXED, 2, 2, S3), workers=W, timeout=10800, label="MC:Collapse repaired N=2 two-token entries")
        ck.mc("UseStack_MC", cfg_text=mech_cfg(FIXED, 3, 1, ["glob", "eq_a1"]), workers=W, timeout=10800,
              label="MC:mechanism repaired NA=3 NB=1 2 scopes")
        r = ck.mc("UseStack_Collapse", cfg_text=collapse_cfg((True, False, False), 3, 1, S3), workers=W, timeout=ck.pick(1500, 10800), expect_ok=False,
                  label="MC:Collapse legacy (delta filter)")
        cex["collapse_drops_a_flag_an_earlier_specific_entry_had_toggled"] = dict(violated=r.violated or "", last_state=counterexample(r))
        r = ck.mc("UseStack_MC", cfg_text=mech_cfg((True, True, False), 4, 0, ["glob", "any_a", "eq_a1"]), workers=W, timeout=10800,
                  expect_ok=False, label="MC:mechanism legacy (catch-up of globals)")
        cex["collapsed_globals_replayed_after_package_entries"] = dict(violated=r.violated or "", last_state=counterexample(r))
    ck.extra["legacy_design_counterexamples"] = cex
    for k, v in cex.items():
        if not v["violated"]:
            raise tlc.MachineryError(f"the legacy design model no longer shows the defect {k}")


def run(ck):
    use_repo()
    import logging

    logging.getLogger("pkgcore").setLevel(logging.CRITICAL)
    os.environ.pop("USE", None)
    os.environ.pop("FEATURES", None)
    ck.rule = ("histories of new/add_bare_global/add/update_from_stream/merge/freeze/clone/optimize over a pool of stacks "
               "(TLC-simulated and seeded random), every live stack rendered for 4 packages x 2 default sets after every "
               "step; every sequence of <= N entries through _build_cp_atom_payload (TLC-enumerated) plus random longer "
               "ones; random user package.use lines and whole domains (profile inheritance graphs with forks and diamonds + "
               "USE + package.use + use.force/mask layers); non-trivial = distinct history holding a reset (-* / -p_*) or a merge/clone/optimize, distinct "
               "collapse sequence of >= 2 non-empty entries, distinct line / domain configuration")
    ck.assumptions = [
        "an entry never enables and disables the same flag; wildcards are only negated; frozen stacks are not mutated",
        "scope names are rendered into atoms / globs and packages by the driver; which package a scope matches is the table in UseStack.tla",
        "global USE holds flags and -* (prefix globs reach the stack through package.use lines, as the property says)",
    ]
    w = World()
    if ck.replay_case:
        d = ck.replay_case["detail"]
        if d["kind"] == "history":
            events = []
            run_history(w, 0, d["history"], events)
            judge(ck, events, {0: d["history"]}, "Trace:replay")
        else:
            case = d["case"]
            evs = [collapse_event(w, case)] if case["ev"] == "collapse" else domain_events(w, case["cfg"]) if case["ev"] == "domain" \
                else domain_events(w, dict(nodes=[dict(parents=[], use=[], pkguse=[], pkgforce=[], pkgmask=[], force=dict(neg=[], pos=[]),
                                                        mask=dict(neg=[], pos=[]))], conf=[], arch="amd64",
                                           user=[dict(sc="glob", toks=case["toks"])]))
            for n, e in enumerate(evs):
                e.update(tid=n, i=0)
            judge_flat(ck, evs, "Trace:replay")
        ck.count()
        ck.nontriv("replay")
        return
    model_check(ck)
    r_ = rng(11)
    # ---- spec -> code: TLC-simulated histories
    D = ck.pick(7, 9)
    sim = tlc.run("UseStack_Sim", cfg_text=f"SPECIFICATION SimSpec\nCONSTANT D = {D}\nCONSTANT K = 3\nCONSTRAINT SimBound\nINVARIANT Emit\n",
                  simulate=f"num={ck.pick(8, 50)}", depth=2 * D + 2, seed=seed_of(), workers=1, timeout=ck.pick(1500, 10800))
    ck.add_mc(f"Simulate:UseStack_Sim depth={D}", sim)
    behs = [p[1] for p in sim.tagged("BEH")]
    want = ck.pick(150, 1500)
    if len(behs) < want // 2:
        raise tlc.MachineryError(f"simulation produced only {len(behs)} behaviours\n{sim.out[-1500:]}")
    r_.shuffle(behs)
    events, hists = [], {}
    for tid, beh in enumerate(behs[:want]):
        hist = [dict(a, neg=sorted(a["neg"]), pos=sorted(a["pos"]),
                     entries=[dict(sc=e["sc"], neg=sorted(e["neg"]), pos=sorted(e["pos"])) for e in a["entries"]]) for a in beh]
        hists[tid] = hist
        run_history(w, tid, hist, events)
        ck.count()
        note(ck, "sim", hist)
    ck.sample(dict(direction="spec->code", history=hists[0]))
    # ---- code -> spec: random histories (same trace run: one JVM start less)
    base = len(hists)
    for tid in range(base, base + ck.pick(200, 2500)):
        h = rand_history(r_, r_.randint(3, ck.pick(10, 14)))
        hists[tid] = h
        run_history(w, tid, h, events)
        ck.count()
        note(ck, "rnd", h)
    ck.sample(dict(direction="code->spec", history=hists[base]))
    judge(ck, events, hists, "Trace:simulated+random-histories")
    # ---- the collapse itself
    seqs = ck.export("UseStack_Export", cfg_text=f"CONSTANT N = {ck.pick(2, 3)}\nCONSTANT MaxTok = 1\nCONSTANT MCScopes = {scopes(ck.pick(S2, S3))}\n",
                     timeout=ck.pick(1500, 10800))
    cases = [dict(ev="collapse", key="a", seq=c["seq"]) for c in seqs]
    cases += [rand_collapse(r_) for _ in range(ck.pick(200, 3000))]
    evs = []
    for c in cases:
        e = collapse_event(w, c)
        evs.append(e)
        ck.count()
        if sum(1 for x in c["seq"] if x["neg"] or x["pos"]) >= 2:
            ck.nontriv(("c", repr(c)))
    ck.sample(dict(kind="collapse", case=evs[-1]["case"], out=evs[-1]["out"]))
    # ---- lines and whole domains
    for _ in range(ck.pick(60, 800)):
        cfg = rand_cfg(r_)
        for e in domain_events(w, cfg):
            evs.append(e)
            ck.count()
            ck.nontriv(("d", repr(e["case"])))
    ck.sample(dict(kind="domain", cfg=evs[-1]["case"]["cfg"], obs=evs[-1]["obs"][:2]))
    for lo in range(0, len(evs), 4000):
        part = evs[lo:lo + 4000]
        for n, e in enumerate(part):
            e.update(tid=n, i=0)
        judge_flat(ck, part, f"Trace:collapse+lines+domains[{lo // 4000}]")


def note(ck, tag, hist):
    if any(a["op"] in ("merge", "clone", "optimize") for a in hist) or any(
            "*" in f for a in hist for src in ([a] + list(a.get("entries", []))) for f in src.get("neg", [])):
        ck.nontriv((tag, repr(hist)))


def seed_of():
    from pylib.common import seed

    return seed() + 11
