"""G08 -- the command line framework as a state machine (src/pkgcore/util/commandline.py on top of
snakeoil.cli.arghparse / snakeoil.cli.tool).

Spec        : Commandline.tla -- one operator per stage of `Tool(parser)(argv)`: Tool.pre_parse (PKGCORE_DEBUG),
              reset-default hooks, pre-parse hooks (once per parser object), filling of option and parser
              defaults (attributes already present win; a delayed default whose name is also an option of the
              parser being filled is collapsed right there: action Premature), early-parse hooks (inherited
              parsers first), the options of the command line (--config / --domain / plain stores), the same
              four stages for the selected subcommand, main-function binding, DelayedDefault.wipe pass, the
              delayed pass (snapshot sorted by priority, ties in namespace order; bind_delayed_default is
              guarded, raw DelayedValue / DelayedParse are not, bind_parse_priority deletes its attribute;
              reading a pending attribute collapses it), final checks in namespace order, main function;
              every exception class x stage is mapped to return value / SystemExit / propagated exception,
              error line and traceback (--debug).  The namespace of a Tool persists across calls.
MC          : Commandline_MC -- every call history (tiny: 3 calls; second: 1 call quick / 2 calls thorough; main: 1 call,
              thorough only; every command line of the universe, every (hook, exception class) failure) hook by
              hook; invariants AtMostOnce, PriorityOrder, StageOrder, ConfigOnce, ExplicitWins, FinalsPopped, PreOnce,
              Cached, OutcomeTotal + action properties FailStops, OnlyAfter, PreGrows; vacuity guards (GUARDS): the
              design with an unguarded bind_delayed_default, with the config default at a priority above the
              domain's and with pre-parse hooks that are not wiped must each be refuted.  Call histories of the
              `main` universe longer than one call are exercised through simulation + replay only.
spec -> code: Commandline_Sim (TLC -simulate) chooses call histories over the same universe file; each is run
              on a real pkgcore.util.commandline.Tool over real ArgumentParser objects whose bindings are
              recording callbacks (built by World below).
code -> spec: hand-written shapes (FIXED: reset hook of a subcommand discarding an explicit root option, pending
              domain default left by a failed call, one raw name bound by two subcommands) in every tier; seeded random universes (parser trees, priorities, read sets, name clashes between parent and
              child bindings) with random call histories; plus the real pquery / pmaint / pclean parsers with
              their delayed values, final checks and main functions wrapped by recorders (smoke: judged by the
              log-only clauses).
All observations (hook log with values seen, parser handed to the hook, outcome, stderr classes, environment,
namespace kept by the Tool) are judged clause by clause by Commandline_Trace.

Carve-outs: hooks are the scripted recorders of World (read attributes, then set their own / delete listed
attributes / raise); everything is bound before child parsers are created (argparse copies `parents=` defaults
at construction); one level of subcommands; verbosity 0; KeyboardInterrupt (process-group kill) not exercised;
reads form no cycle and a raw DelayedValue is only read by later priorities (otherwise it runs twice: modelled,
MC guard).  load_config is replaced by a recorder that builds a real ConfigManager (the on-disk configuration
is G04/C43 business); snakeoil itself lives outside /repo, so the stage machinery is bound through
pkgcore's ArgumentParser/Tool subclasses only.
"""
import io
import json
import logging
import os
import signal
import sys
import threading
import time

from pylib import tlc
from pylib.common import mktmp, rng, seed, use_repo

MISSING = "<missing>"
PENDING = "<delayed>"
KINDS_DELAYED = ("delayed", "raw", "ordered", "wipe")
FAULT_KINDS = ["argerr", "valerr", "usererr", "exit", "exitexc"]


def H(k, n, prio=0, reads=(), dels=()):
    return dict(k=k, n=n, prio=prio, reads=list(reads), dels=list(dels))


def P(name, sub=False, shared=False, inh=(), binds=(), opts=()):
    return dict(name=name, sub=sub, shared=shared, inh=list(inh), binds=list(binds), opts=list(opts))


# ------------------------------------------------------------------------------------------------
# The model-checked universes (also replayed): small, every mechanism present once.
UNIVERSES = {
    "main": dict(
        cfg=True, dom=True, debug=False, domains=["d1", "d2"], defdom="d1",
        parsers=[
            P("sh", shared=True, binds=[H("early", "e0"), H("ordered", "o1", 10), H("final", "fz")], opts=["s"]),
            P("root", binds=[
                H("reset", "r1", dels=["b"]), H("pre", "p1"), H("early", "e1"),
                H("delayed", "a", 30, reads=["b", "domain"]),       # option --o-a exists: Premature
                H("delayed", "b", 5, reads=["config"]),
                H("delayed", "c", 3, reads=["b"]),                   # reads a LATER priority: guarded
                H("final", "f1", reads=["a"]), H("final", "f2"),
            ], opts=["a", "x"]),
            P("s1", sub=True, inh=["sh"], binds=[
                H("pre", "p2"), H("early", "e2"), H("delayed", "d", 25, reads=["domain", "s"]),
                H("delayed", "b", 1),                                # same name as root's: root's wins
                H("final", "f1"),                                    # same name as root's: dropped
                H("final", "f3", reads=["d"]), H("main", "m1", reads=["a", "d"]),
            ], opts=["d"]),
            P("s2", sub=True, binds=[H("reset", "r2", dels=["a"]), H("wipe", "w", 50, dels=["domain"]),
                                     H("main", "m2", reads=["domain"])]),
            P("s3", sub=True, binds=[H("raw", "q", 40, reads=["a"])]),    # no main function
        ],
    ),
    # the smallest universe that shows all three seeded design faults (vacuity guards) -- no subcommands
    "tiny": dict(
        cfg=True, dom=True, debug=False, domains=["d1"], defdom="d1",
        parsers=[P("root", binds=[H("reset", "r1", dels=["b"]), H("pre", "p1"), H("delayed", "c", 3, reads=["b"]),
                                  H("delayed", "b", 5), H("delayed", "a", 30, reads=["domain"]), H("final", "f1", reads=["c"]),
                                  H("main", "m0", reads=["a", "b"])], opts=["x"])],
    ),
    # built in debug mode (sys.argv carried --debug when the parser was created); nothing touches the
    # configuration before the delayed pass on the path root -> s2
    "second": dict(
        cfg=True, dom=True, debug=True, domains=["d1"], defdom="d1",
        parsers=[
            P("root", binds=[H("pre", "p1"), H("delayed", "g", 10, reads=["config"]), H("final", "f1"),
                             H("main", "m0", reads=["g"])], opts=["x"]),
            P("s1", sub=True, binds=[H("early", "e2"), H("raw", "k", 15, reads=["g"]), H("main", "m1", reads=["k"])],
              opts=["k"]),
            P("s2", sub=True, binds=[H("main", "m2", reads=["domain"])]),
        ],
    ),
}


def hook_id(p, h):
    return f"{p['name']}.{h['n']}"


class World:
    """One universe rendered as real pkgcore ArgumentParser objects + one Tool over the root parser."""

    def __init__(self, uni):
        from pkgcore.config import basics, central
        from pkgcore.config.hint import ConfigHint
        from pkgcore.util import commandline
        from snakeoil.cli import arghparse
        from snakeoil.cli.exceptions import ExitException, UserException
        import argparse

        self.uni = uni
        self.cl, self.arghparse, self.argparse = commandline, arghparse, argparse
        self.log = []
        self.depth = 0
        self.fault = None
        self.hook_of_obj = {}
        self.parsers = {}
        world = self

        class UserErr(UserException):
            pass

        self.exc = dict(
            argerr=lambda: argparse.ArgumentError(None, "scripted failure"),
            valerr=lambda: ValueError("scripted failure"),
            usererr=lambda: UserErr("scripted failure"),
            exit=lambda: SystemExit(3),
            exitexc=lambda: ExitException("scripted exit"),
        )

        class Domain:
            pkgcore_config_type = ConfigHint(typename="domain")

            def __init__(self, name="?"):
                self.verif_name = name

        def dom_section(name):
            def make():
                return Domain(name)
            make.pkgcore_config_type = ConfigHint(typename="domain")
            make.__name__ = "domain_" + name
            conf = {"class": make}
            if name == uni["defdom"]:
                conf["default"] = True
            return basics.HardCodedConfigSection(conf)

        self.Domain = Domain
        self.stub = os.path.join(commandline.const.DATA_PATH, "stubconfig")
        d = mktmp("g08cfg")
        self.cfgfile = os.path.realpath(os.path.join(d, "custom.conf"))
        with open(self.cfgfile, "w") as f:
            f.write("# placeholder\n")
        self.nofile = os.path.join(d, "does-not-exist")

        def loader(**kw):
            loc = kw.get("location")
            tok = "-" if loc is None else "stub" if loc == world.stub else "file" if loc == world.cfgfile else "other"
            world.emit("config", [tok], "-")
            mgr = central.CompatConfigManager(central.ConfigManager([{n: dom_section(n) for n in uni["domains"]}]))
            mgr.verif_tok = "CFG:" + tok
            return mgr

        self.loader = loader
        old_argv = sys.argv
        sys.argv = ["tool"] + (["--debug"] if uni["debug"] else [])
        try:
            self._build()
        finally:
            sys.argv = old_argv
        self.tool = commandline.Tool(self.parsers["root"], outfile=io.StringIO(), errfile=io.StringIO())

    # ---- the recorders ----
    def emit(self, hid, saw, pname):
        self.log.append(dict(h=hid, saw=list(saw), p=pname, d=self.depth))

    def render(self, v):
        if isinstance(v, str):
            return v
        if v is None:
            return "<none>"
        if isinstance(v, self.arghparse.DelayedValue):
            return PENDING
        if isinstance(v, self.Domain):
            return "DOM:" + v.verif_name
        tok = getattr(v, "verif_tok", None)
        if tok is not None:
            return tok
        return "<" + type(v).__name__ + ">"

    def peek(self, ns, a):
        return self.render(getattr(ns, a, MISSING))

    def pname(self, parser):
        for n, p in self.parsers.items():
            if p is parser:
                return n
        return "?"

    def body(self, hid, h, ns, parser=None):
        d = self.depth
        self.depth = d + 1
        try:
            saw = [self.peek(ns, a) for a in h["reads"]]
        finally:
            self.depth = d
        self.emit(hid, saw, self.pname(parser) if parser is not None else "-")
        if self.fault and self.fault["h"] == hid:
            raise self.exc[self.fault["kind"]]()
        return saw

    def _functor(self, p, h):
        hid, k, world = hook_id(p, h), h["k"], self

        if k in ("reset", "pre"):
            def f(parser, namespace):
                world.body(hid, h, namespace, parser)
                for a in h["dels"]:
                    vars(namespace).pop(a, None)      # plain delete: Namespace.pop would collapse a pending value
        elif k == "early":
            def f(parser, namespace, args):
                world.body(hid, h, namespace, parser)
                return namespace, args
        elif k in ("delayed", "raw"):
            def f(namespace, attr):
                saw = world.body(hid, h, namespace)
                setattr(namespace, attr, hid + "<" + ",".join(saw) + ">")
        elif k == "ordered":
            def f(namespace):
                world.body(hid, h, namespace)
        elif k == "final":
            def f(parser, namespace):
                world.body(hid, h, namespace, parser)
        elif k == "main":
            def f(namespace, out, err):
                world.body(hid, h, namespace)
                return 0
        else:
            raise ValueError(k)
        f.__name__ = h["n"]
        f.verif_hid = hid
        return f

    def _bind(self, parser, p):
        for h in p["binds"]:
            k = h["k"]
            if k == "wipe":
                dv = self.arghparse.DelayedDefault.wipe(tuple(h["dels"]), h["prio"])
                parser.set_defaults(**{h["n"]: dv})
                self.hook_of_obj[id(dv)] = hook_id(p, h)
                continue
            f = self._functor(p, h)
            if k == "reset":
                parser.bind_reset_defaults(f)
            elif k == "pre":
                parser.bind_pre_parse(f)
            elif k == "early":
                parser.bind_early_parse(f)
            elif k == "delayed":
                parser.bind_delayed_default(h["prio"], h["n"])(f)
            elif k == "raw":
                parser.set_defaults(**{h["n"]: self.arghparse.DelayedValue(f, h["prio"])})
            elif k == "ordered":
                parser.bind_parse_priority(h["prio"])(f)
            elif k == "final":
                parser.bind_final_check(f)
            elif k == "main":
                parser.bind_main_func(f)
            if k in ("delayed", "raw", "ordered"):
                self.hook_of_obj[id(parser._defaults[h["n"]])] = hook_id(p, h)
        for o in p["opts"]:
            parser.add_argument("--o-" + o, dest=o)

    def _build(self):
        cl, uni = self.cl, self.uni
        byname = {p["name"]: p for p in uni["parsers"]}
        for p in uni["parsers"]:
            if p["shared"]:
                sp = cl.ArgumentParser(suppress=True)
                self.parsers[p["name"]] = sp
                self._bind(sp, p)
        proot = byname["root"]
        root = cl.ArgumentParser(prog="tool", config=uni["cfg"], domain=uni["dom"], color=False, version=False,
                                 parents=[self.parsers[n] for n in proot["inh"]])
        self.parsers["root"] = root
        self._bind(root, proot)
        if uni["cfg"]:
            self.hook_of_obj[id(root._defaults["config"])] = "config"
        for act in root._actions:
            if act.dest == "domain" and isinstance(act.default, self.arghparse.DelayedValue):
                self.hook_of_obj[id(act.default)] = "domdef"
        subs = [p for p in uni["parsers"] if p["sub"]]
        if subs:
            sa = root.add_subparsers()
            for p in subs:
                sp = sa.add_parser(p["name"], parents=[self.parsers[n] for n in p["inh"]])
                self.parsers[p["name"]] = sp
                self._bind(sp, p)

    # ---- projection of the namespace the Tool keeps ----
    def tracked(self):
        names = ["config_path", "domain", "config"]
        for p in self.uni["parsers"]:
            for o in p["opts"]:
                names.append(o)
            for h in p["binds"]:
                if h["k"] in KINDS_DELAYED:
                    names.append(h["n"])
                if h["k"] == "final":
                    names.append("__final_check__" + h["n"])
        names.append("main_func")
        return set(names)

    def project_ns(self, ns):
        if ns is None:
            return dict(has=False, ns=[])
        want = self.tracked()
        out = []
        for a, v in vars(ns).items():
            if a not in want:
                continue
            e = dict(a=a, k="val", v="-", h="-")
            if isinstance(v, self.arghparse.DelayedParse) and id(v) not in self.hook_of_obj:
                e.update(k="dly", h="domparse", v=str(v.invokable.args[2]))
            elif isinstance(v, self.arghparse.DelayedValue):
                e.update(k="dly", h=self.hook_of_obj.get(id(v), "?"))
            elif a.startswith("__final_check__"):
                e.update(k="fin", h=getattr(v, "verif_hid", "?"))
            elif a == "main_func":
                e.update(k="main", h=getattr(v, "verif_hid", "?"))
            elif a == "config_path":
                e["v"] = "-" if v is None else "stub" if v == self.stub else "file" if v == self.cfgfile else "other"
            else:
                e["v"] = self.render(v)
            out.append(e)
        return dict(has=True, ns=out)

    # ---- rendering of an abstract call ----
    def argv(self, c):
        out = []
        if self.uni["debug"]:
            out.append("--debug")
        if c["cfgarg"] != "-":
            out += ["--config", {"no": "no", "file": self.cfgfile, "missing": self.nofile}[c["cfgarg"]]]
        if c["dom"] != "-" and not c["subdom"]:
            out += ["--domain", c["dom"]]
        for o in c["ropts"]:
            out += ["--o-" + o[0], o[1]]
        if c["sub"] != "-":
            out.append(c["sub"])
            for o in c["sopts"]:
                out += ["--o-" + o[0], o[1]]
            if c["dom"] != "-" and c["subdom"]:
                out += ["--domain", c["dom"]]
        return out

    # ---- one public call: Tool(parser)(argv) ----
    def call(self, c):
        self.log = []
        self.depth = 0
        self.fault = dict(h=c["fh"], kind=c["fk"]) if c["fh"] != "-" else None
        argv = self.argv(c)
        root = self.parsers["root"]
        mark = dict(on=True)
        orig_pka = root.parse_known_args

        def pka(args=None, namespace=None):
            r = orig_pka(args, namespace)
            if mark["on"]:
                self.emit("<parsed>", [], "-")
            return r

        root.parse_known_args = pka
        orig_loader, self.cl.load_config = self.cl.load_config, self.loader   # store_config resolves it at call time
        handlers = list(logging.root.handlers)
        level = logging.root.level
        sigpipe = signal.getsignal(signal.SIGPIPE)
        env0 = os.environ.pop("PKGCORE_DEBUG", None)
        old_err, sys.stderr = sys.stderr, io.StringIO()
        out = dict(kind="ret", code=0, exc="-")
        try:
            try:
                r = self.tool(argv)
                out.update(kind="ret", code=r if isinstance(r, int) and not isinstance(r, bool) else -99)
            except SystemExit as e:
                out.update(kind="exit", code=e.code if isinstance(e.code, int) else -99)
            except Exception as e:  # noqa: BLE001 - what escapes the Tool is the observation (clause Outcome_exc)
                # class family: NoDefaultConfigError & co. are argparse.ArgumentError subclasses
                out.update(kind="raise", code=0,
                           exc="ArgumentError" if isinstance(e, self.argparse.ArgumentError) else type(e).__name__)
        finally:
            errtxt = sys.stderr.getvalue()
            sys.stderr = old_err
            del root.parse_known_args
            self.cl.load_config = orig_loader
            logging.root.handlers[:] = handlers
            logging.root.setLevel(level)
            signal.signal(signal.SIGPIPE, sigpipe)
            envdbg = os.environ.pop("PKGCORE_DEBUG", "-")
            if env0 is not None:
                os.environ["PKGCORE_DEBUG"] = env0
        if out["exc"] == "UserErr":
            out["exc"] = "UserException"
        return dict(argv=argv, log=self.log, out=out, errline=": error: " in errtxt,
                    tb="Traceback (most recent call last)" in errtxt, envdbg=envdbg,
                    post=self.project_ns(self.tool.options))


# ------------------------------------------------------------------------------------------------
SWITCHES = ["GuardedDefault", "ConfigFirst", "PreWiped"]
INVARIANTS = ["InvAtMostOnce", "InvPriorityOrder", "InvStageOrder", "InvConfigOnce", "InvExplicitWins", "InvFinalsPopped",
              "InvPreOnce", "InvCached", "InvOutcomeTotal"]
PROPERTIES = ["PropFailStops", "PropOnlyAfter", "PropPreGrows"]
GUARDS = [  # (universe, switch set to FALSE, the invariant TLC must then refute)
    ("tiny", "GuardedDefault", "InvAtMostOnce"),
    ("tiny", "ConfigFirst", "InvConfigOnce"),
    ("tiny", "PreWiped", "InvPreOnce"),
]


def mc_cfg(spec, maxcalls, off=(), only=None, extra=""):
    consts = "".join(f"  {s} = {'FALSE' if s in off else 'TRUE'}\n" for s in SWITCHES)
    body = f"SPECIFICATION {spec}\nCONSTANTS\n  MaxCalls = {maxcalls}\n  Uni <- UFile\n{consts}{extra}"
    if only:
        return body + f"INVARIANT {only}\n"
    return body + "".join(f"INVARIANT {i}\n" for i in INVARIANTS) + "".join(f"PROPERTY {p}\n" for p in PROPERTIES)


def uni_file(uni, tag):
    path = os.path.join(mktmp("g08"), f"uni-{tag}.json")
    with open(path, "w") as f:
        f.write(json.dumps(uni, separators=(",", ":")) + "\n")
    return path


def full_call(c):
    out = dict(sub="-", dom="-", subdom=False, cfgarg="-", ropts=[], sopts=[], fh="-", fk="-")
    out.update(c)
    out["ropts"] = [list(o) for o in out["ropts"]]
    out["sopts"] = [list(o) for o in out["sopts"]]
    return out


def run_history(world, tid, u, calls, events):
    for i, c in enumerate(calls, 1):
        c = full_call(c)
        obs = world.call(c)
        events.append(dict(tid=tid, i=i, u=u, smoke=False, c=c, log=obs["log"], out=obs["out"], errline=obs["errline"],
                           tb=obs["tb"], envdbg=obs["envdbg"], post=obs["post"], argv=obs["argv"]))


def judge(ck, unis, events, label):
    if not events:
        return
    header = dict(tid=-1, i=0, unis=unis)
    verdicts = ck.trace("Commandline_Trace", [header] + events, label=label, timeout=1500)
    by = {(e["tid"], e["i"]): e for e in events}
    for v in verdicts:
        e = by[(v["tid"], v["i"])]
        if v["clause"] == "OutsideDomain":
            raise tlc.MachineryError(f"generator left the specification's domain: {e['c']}")
        hist = [x["c"] for x in events if x["tid"] == e["tid"] and x["i"] <= e["i"]]
        ck.violation(v["clause"], dict(universe=unis[e["u"] - 1], history=hist, smoke=e["smoke"], argv=e.get("argv", []),
                                       fault=e["c"]["fh"] + ":" + e["c"]["fk"], cfgarg=e["c"]["cfgarg"],
                                       observed=dict(log=e["log"], out=e["out"], errline=e["errline"], tb=e["tb"],
                                                     envdbg=e["envdbg"], post=e["post"])))


# ------------------------------------------------------------------------------------------------
# code -> spec: random universes inside the carve-outs listed in the module docstring
def random_universe(r_):
    pool = ["a", "b", "c", "d", "e", "g"]          # attribute names; index = position in the read order
    level = {n: i for i, n in enumerate(pool)}
    prio_of = {}

    def reads_for(own_level, own_prio, final=False):
        cand = []
        for n, (k, pr) in prio_of.items():
            if k in ("ordered", "wipe"):
                continue
            if final or (level[n] < own_level and (k != "raw" or pr < own_prio)):
                cand.append(n)
        cand += ["config"] + (["domain"] if own_prio > 20 or final else [])
        r_.shuffle(cand)
        return cand[: r_.randint(0, 2)]

    def mk_binds(pname, names, with_main, can_reset, opts):
        binds = []
        if can_reset and r_.random() < 0.5:
            binds.append(H("reset", "r" + pname, dels=r_.sample(pool, r_.randint(0, 2))))
        for j in range(r_.randint(0, 2)):
            binds.append(H("pre", f"p{pname}{j}"))
        for j in range(r_.randint(0, 2)):
            binds.append(H("early", f"e{pname}{j}"))
        for n in names:
            k = r_.choice(["delayed", "delayed", "delayed", "raw", "ordered"])
            if n in prio_of and k == "ordered":
                k = "delayed"
            if k == "ordered" and (n in opts or any(n in p["opts"] for p in parsers)):
                k = "delayed"
            pr = r_.choice([1, 3, 5, 10, 20, 20, 25, 30, 50])
            first = n not in prio_of
            if first:
                prio_of[n] = (k, pr)
            elif prio_of[n][0] in ("ordered", "wipe"):
                continue
            elif prio_of[n][0] == "raw":
                k, pr = prio_of[n]       # every binding of a raw name is raw at the same priority (read discipline)
            elif k == "raw":
                k = "delayed"
            binds.append(H(k, n, pr, reads=reads_for(level[n], pr) if k != "ordered" else reads_for(0, pr)))
        if r_.random() < 0.3:
            binds.append(H("wipe", "w" + pname, r_.choice([40, 50]), dels=r_.sample(["domain"] + pool, r_.randint(1, 2))))
        for j in range(r_.randint(0, 2)):
            binds.append(H("final", r_.choice(["f1", "f2", f"f{pname}"]), reads=reads_for(99, 99, True)))
        seen, uniq = set(), []
        for b in binds:
            key = (b["k"] in ("delayed", "raw", "ordered", "wipe"), b["n"]) if b["k"] != "final" else ("final", b["n"])
            if key in seen:
                continue
            seen.add(key)
            uniq.append(b)
        if with_main:
            uniq.append(H("main", "m" + pname, reads=reads_for(99, 99, True)))
        return uniq

    parsers = []
    shared = r_.random() < 0.5
    sh_names = []
    if shared:
        sh_names = r_.sample(pool[3:], r_.randint(0, 1))
    root_names = sorted(r_.sample(pool[:4], r_.randint(1, 3)), key=level.get)
    root_opts = r_.sample(pool, r_.randint(0, 2)) + ["x"]
    root = P("root", opts=root_opts)
    root["binds"] = mk_binds("root", root_names, r_.random() < 0.5, True, root_opts)
    if shared:
        sh_opts = [r_.choice(["s", "t"])]
        sh = P("sh", shared=True, opts=sh_opts)
        sh["binds"] = [b for b in mk_binds("sh", sh_names, False, False, sh_opts) if b["k"] not in ("pre", "reset")]
        parsers.append(sh)
    parsers.append(root)
    nsub = r_.randint(1, 3)
    for j in range(1, nsub + 1):
        inh = ["sh"] if shared and r_.random() < 0.7 else []
        taken = set(sh_names) if inh else set()
        names = sorted((n for n in r_.sample(pool, r_.randint(0, 3)) if n not in taken), key=level.get)
        opts = [o for o in r_.sample(pool, r_.randint(0, 2))
                if not (inh and (o in sh_names or o in parsers[0]["opts"]))
                and prio_of.get(o, ("", 0))[0] not in ("ordered", "wipe")]
        sp = P(f"s{j}", sub=True, inh=inh, opts=opts)
        sp["binds"] = mk_binds(f"s{j}", names, r_.random() < 0.85, True, opts)
        if inh:   # no clash between own names and inherited ones
            inh_final = {b["n"] for b in parsers[0]["binds"] if b["k"] == "final"}
            sp["binds"] = [b for b in sp["binds"] if not (b["k"] == "final" and b["n"] in inh_final)]
        parsers.append(sp)
    # options of a parser never carry the name of an ordered / wipe binding
    bad = {n for n, (k, _p) in prio_of.items() if k in ("ordered", "wipe")}
    for p in parsers:
        p["opts"] = [o for o in p["opts"] if o not in bad]
    doms = ["d1", "d2"][: r_.randint(1, 2)]
    return dict(cfg=True, dom=True, debug=r_.random() < 0.3, domains=doms, defdom=r_.choice(doms + ["-"]), parsers=parsers)


def check_universe(uni):
    """The read discipline of the carve-outs (a generator that leaves it is a machinery failure, never a verdict)."""
    raw, never = {}, set()
    for p in uni["parsers"]:
        for h in p["binds"]:
            if h["k"] == "raw":
                raw[h["n"]] = max(raw.get(h["n"], 0), h["prio"])
            if h["k"] in ("ordered", "wipe"):
                never.add(h["n"])
    for p in uni["parsers"]:
        if never & set(p["opts"]):
            raise tlc.MachineryError(f"universe outside the domain: option named like an ordered/wipe binding in {p['name']}")
        for h in p["binds"]:
            if never & set(h["reads"]):
                raise tlc.MachineryError(f"universe outside the domain: {hook_id(p, h)} reads an ordered/wipe attribute")
            if h["k"] in ("delayed", "raw", "ordered"):
                for a in h["reads"]:
                    if a in raw and h["prio"] <= raw[a]:
                        raise tlc.MachineryError(f"universe outside the domain: {hook_id(p, h)} reads raw {a} of a later priority")


# hand-written shapes that every tier must contain (each was once missed by the seeded generator of the quick tier)
FIXED = [
    # a subcommand's reset hook discards an attribute the root option stored; the subcommand's default applies again
    (dict(cfg=True, dom=True, debug=False, domains=["d1"], defdom="d1", parsers=[
        P("root", binds=[H("delayed", "a", 20, reads=["config"]), H("delayed", "b", 20, reads=["a"])], opts=["b", "x"]),
        P("s1", sub=True, binds=[H("reset", "rs1", dels=["g", "b"]), H("delayed", "b", 10, reads=["config", "a"]),
                                 H("final", "f1", reads=["domain"]), H("main", "ms1", reads=["b"])], opts=["a"]),
        P("s2", sub=True, binds=[H("main", "ms2", reads=["b"])])]),
     [[dict(sub="s1", ropts=[["b", "vb2"]])], [dict(sub="s2", ropts=[["b", "vb1"]]), dict(sub="s1", ropts=[["b", "vb2"], ["x", "vx"]])],
      [dict(sub="s1", ropts=[["b", "vb2"]], fh="s1.ms1", fk="exit")]]),
    # no default domain: a wipe hides it for s1; s2 fails in the delayed pass and leaves the pending default in the
    # Tool's namespace; the next call collapses it while filling the root's defaults (escapes as ArgumentError subclass)
    (dict(cfg=True, dom=True, debug=False, domains=["d1"], defdom="-", parsers=[
        P("root", binds=[H("raw", "d", 1, reads=["config"]), H("ordered", "c", 50, reads=["domain"])], opts=["x"]),
        P("s1", sub=True, binds=[H("wipe", "ws1", 50, dels=["c", "domain"]), H("final", "f2"), H("main", "ms1")]),
        P("s2", sub=True, binds=[H("final", "f2"), H("main", "ms2", reads=["domain"])])]),
     [[dict(sub="s1", cfgarg="file"), dict(sub="s2"), dict(sub="s1", ropts=[["x", "vx1"]])],
      [dict(sub="s1"), dict(sub="s2", dom="d1"), dict(sub="s2")]]),
    # one raw name bound by two subcommands, read by later priorities only
    (dict(cfg=True, dom=True, debug=True, domains=["d1", "d2"], defdom="d2", parsers=[
        P("root", binds=[H("delayed", "b", 50, reads=["config", "domain"]), H("final", "f1", reads=["b"])], opts=["x"]),
        P("s1", sub=True, binds=[H("raw", "e", 20), H("main", "ms1", reads=["e"])], opts=["e"]),
        P("s2", sub=True, binds=[H("raw", "e", 20), H("delayed", "g", 25, reads=["b", "e"]), H("main", "ms2", reads=["e"])])]),
     [[dict(sub="s2", dom="d2")], [dict(sub="s1", sopts=[["e", "ve"]]), dict(sub="s2")]]),
]


def random_call(r_, uni):
    subs = [p for p in uni["parsers"] if p["sub"]]
    byname = {p["name"]: p for p in uni["parsers"]}
    c = dict(sub=r_.choice(subs)["name"] if subs and r_.random() < 0.93 else "-")

    def some(opts):
        return [[o, "v" + o + str(r_.randint(1, 2))] for o in opts if r_.random() < 0.4]

    c["ropts"] = some(byname["root"]["opts"])
    if c["sub"] != "-":
        sp = byname[c["sub"]]
        c["sopts"] = some(sp["opts"] + [o for q in sp["inh"] for o in byname[q]["opts"]])
    x = r_.random()
    if x < 0.25:
        c["dom"] = r_.choice(uni["domains"] + ["zz"])
        c["subdom"] = c["sub"] != "-" and r_.random() < 0.2
    x = r_.random()
    if x < 0.25:
        c["cfgarg"] = r_.choice(["no", "file", "missing"])
    if r_.random() < 0.35:
        hooks = [(p, h) for p in uni["parsers"] for h in p["binds"] if h["k"] != "wipe"]
        p, h = r_.choice(hooks)
        c["fh"], c["fk"] = hook_id(p, h), r_.choice(["argerr", "valerr", "usererr", "exit"])
    return full_call(c)


# ------------------------------------------------------------------------------------------------
# smoke: the real pquery / pmaint / pclean parsers, their bindings wrapped by recorders
SMOKE = [
    ("pquery", [["--all"], ["-I", "--all"], ["--max", "--all"], ["spork/foon"], ["--domain", "nope", "--all"], ["--no-such"]]),
    ("pmaint", [["regen"], ["sync"], ["copy", "-s", "x", "spork/foon"], ["eclass"], ["bogus"]]),
    ("pclean", [["dist"], ["pkg", "-p"], ["tmp"], ["config"], []]),
]


def smoke(ck, unis, events, tid0):
    import importlib

    from pkgcore.config import basics, central
    from pkgcore.config.hint import ConfigHint, configurable
    from pkgcore.repository import util as repo_util
    from pkgcore.util import commandline
    from snakeoil.cli import arghparse

    class FakeDomain:
        pkgcore_config_type = ConfigHint(types={"repos": "refs:repo", "vdb": "refs:repo"}, typename="domain")

        def __init__(self, repos, vdb):
            self.source_repos = self.repos = self.ebuild_repos = self.source_repos_raw = self.ebuild_repos_raw = repos
            self.installed_repos = self.installed_repos_raw = vdb
            self.root = "/"

    @configurable(typename="repo")
    def fake_repo():
        return repo_util.SimpleTree({"spork": {"foon": ("1", "2")}})

    @configurable(typename="repo")
    def fake_vdb():
        return repo_util.SimpleTree({})

    def sections():
        return {"dom": basics.HardCodedConfigSection({
            "class": FakeDomain, "default": True,
            "repos": [basics.HardCodedConfigSection({"class": fake_repo})],
            "vdb": [basics.HardCodedConfigSection({"class": fake_vdb})]})}

    tid = tid0
    for script, argvs in SMOKE:
        mod = importlib.import_module("pkgcore.scripts." + script)
        root = mod.argparser
        parsers = {"root": root}
        for name, sp in root.subparsers.items():
            parsers[name] = sp
        log, state, undo, table = [], dict(depth=0), [], {}

        def rec(hid, fn, ret=None, call=True):
            def wrapper(*a, **kw):
                log.append(dict(h=hid, saw=[], p="-", d=state["depth"]))
                state["depth"] += 1
                try:
                    return fn(*a, **kw) if call else ret
                finally:
                    state["depth"] -= 1
            return wrapper

        seen = set()
        for pname, p in parsers.items():
            binds = table.setdefault(pname, [])
            cands = list(p._defaults.items()) + [(a.dest, a.default) for a in p._actions]
            for attr, val in cands:
                if isinstance(val, arghparse.DelayedValue) and id(val) not in seen:
                    seen.add(id(val))
                    inv = val.invokable
                    target = getattr(inv, "func", inv)
                    if target in (commandline.store_config, commandline.StoreConfigObject.store_default):
                        continue
                    hid = f"{pname}.{attr}"
                    kind = ("wipe" if isinstance(val, arghparse.DelayedDefault) else
                            "ordered" if isinstance(val, arghparse.OrderedParse) else "raw")
                    cells = getattr(inv, "__closure__", None) or ()
                    names = getattr(getattr(inv, "__code__", None), "co_freevars", ())
                    if getattr(inv, "__name__", "") == "default" and "functor" in names:
                        cell = cells[names.index("functor")]      # bind_delayed_default: record the guarded functor
                        orig = cell.cell_contents
                        cell.cell_contents = rec(hid, orig)
                        undo.append(lambda c=cell, o=orig: setattr(c, "cell_contents", o))
                        kind = "delayed"
                    elif kind != "wipe":
                        val.invokable = rec(hid, inv)
                        undo.append(lambda v=val, o=inv: setattr(v, "invokable", o))
                    binds.append(H(kind, attr, int(val.priority)))
            for attr, val in list(p._defaults.items()):
                if attr.startswith("__final_check__"):
                    n = attr[len("__final_check__"):]
                    p._defaults[attr] = rec(f"{pname}.{n}", val)
                    undo.append(lambda d=p._defaults, a=attr, o=val: d.__setitem__(a, o))
                    binds.append(H("final", n))
                elif attr == "main_func":
                    w = rec(f"{pname}.main", val, ret=0, call=False)
                    p._defaults[attr] = w
                    undo.append(lambda d=p._defaults, a=attr, o=val: d.__setitem__(a, o))
                    if getattr(p, "_ArgumentParser__main_func", None) is not None:
                        old = p._ArgumentParser__main_func
                        p._ArgumentParser__main_func = w
                        undo.append(lambda q=p, o=old: setattr(q, "_ArgumentParser__main_func", o))
                    binds.append(H("main", "main"))
        uni = dict(cfg=True, dom=True, debug=False, domains=["dom"], defdom="dom",
                   parsers=[P(n, sub=n != "root", binds=b) for n, b in table.items()])
        unis.append(uni)
        u = len(unis)

        def loader(**kw):
            log.append(dict(h="config", saw=[], p="-", d=state["depth"]))
            return central.CompatConfigManager(central.ConfigManager([sections()]))

        orig_pka = root.parse_known_args

        def pka(args=None, namespace=None):
            r = orig_pka(args, namespace)
            log.append(dict(h="<parsed>", saw=[], p="-", d=0))
            return r

        root.parse_known_args = pka
        orig_loader, commandline.load_config = commandline.load_config, loader
        handlers, level = list(logging.root.handlers), logging.root.level
        sigpipe = signal.getsignal(signal.SIGPIPE)
        try:
            for argv in argvs:
                del log[:]
                state["depth"] = 0
                tool = commandline.Tool(root, outfile=io.StringIO(), errfile=io.StringIO())
                old_err, sys.stderr = sys.stderr, io.StringIO()
                out = dict(kind="ret", code=0, exc="-")
                try:
                    r = tool(argv)
                    out["code"] = r if isinstance(r, int) else -99
                except SystemExit as e:
                    out.update(kind="exit", code=e.code if isinstance(e.code, int) else -99)
                except Exception as e:  # noqa: BLE001 - the outcome is recorded, smoke judges the hook log only
                    out.update(kind="raise", exc=type(e).__name__)
                finally:
                    sys.stderr = old_err
                tid += 1
                events.append(dict(tid=tid, i=1, u=u, smoke=True, c=full_call({}), log=list(log), out=out, errline=False,
                                   tb=False, envdbg="-", post=dict(has=False, ns=[]), argv=[script] + argv))
                ck.count()
                if sum(1 for x in log if x["h"] not in ("<parsed>", "config")) >= 2:
                    ck.nontriv(("smoke", script, tuple(argv)))
        finally:
            del root.parse_known_args
            commandline.load_config = orig_loader
            for f in reversed(undo):
                f()
            logging.root.handlers[:] = handlers
            logging.root.setLevel(level)
            signal.signal(signal.SIGPIPE, sigpipe)
    return tid


# ------------------------------------------------------------------------------------------------
def nontrivial(calls, events_of):
    """a history counts when some call ran at least three hooks and a later stage than `parsed` or a failure was seen"""
    return any(len(e["log"]) >= 3 for e in events_of)


def run(ck):
    use_repo()
    ck.rule = ("histories of Tool(parser)(argv) calls on real pkgcore ArgumentParser trees with recording bindings: chosen by TLC "
               "simulation of Commandline_Sim (universes main, second) and by a seeded generator over random universes "
               "(command line x one failing hook x exception class); plus wrapped pquery/pmaint/pclean parsers; non-trivial = "
               "distinct history in which some call ran at least three hook bodies")
    ck.assumptions = [
        "hooks are the scripted recorders of the driver: read listed attributes, then set their own / delete listed ones / raise",
        "all bindings are made before child parsers are created; one level of subcommands; verbosity 0; no KeyboardInterrupt",
        "reads are acyclic; ordered/wipe attributes are never read or used as option names; a raw DelayedValue is read only "
        "by later priorities; shared parents= parsers are inherited by subcommands only",
        "load_config is replaced by a recorder building a real ConfigManager (location class observed); snakeoil is outside /repo",
    ]
    if ck.replay_case:
        d = ck.replay_case["detail"]
        events = []
        if d.get("smoke"):
            unis = []
            smoke(ck, unis, events, 0)
            judge(ck, unis, events, "Trace:replay-smoke")
        else:
            w = World(d["universe"])
            run_history(w, 0, 1, d["history"], events)
            judge(ck, [d["universe"]], events, "Trace:replay")
        ck.count()
        ck.sample(d["history"])
        ck.nontriv("replay")
        ck.nontriv("replay2")
        return
    files = {n: uni_file(u, n) for n, u in UNIVERSES.items()}
    jobs, results = [], {}

    def job(label, module, cfg, env, **kw):
        def work():
            try:
                results[label] = tlc.run(module, cfg_text=cfg, env=env, **kw)
            except Exception as e:  # noqa: BLE001 - re-raised in the main thread
                results[label] = e
        t = threading.Thread(target=work)
        t.start()
        jobs.append((label, t))
        time.sleep(0.2)

    # 1. model checking of the design + vacuity guards (run while the real code is being driven)
    mc_plan = [("tiny", 3), ("second", ck.pick(1, 2))] + ck.pick([], [("main", 1)])
    for name, maxcalls in mc_plan:
        job(f"MC:Commandline_MC {name} MaxCalls={maxcalls}", "Commandline_MC", mc_cfg("Spec", maxcalls),
            {"UNI_FILE": files[name]}, workers=ck.pick(2, 4), timeout=ck.pick(600, 2400))
    for name, switch, inv in GUARDS:
        job(f"Guard:{switch}=FALSE {name}", "Commandline_MC", mc_cfg("Spec", 2 if switch == "PreWiped" else 1, off=(switch,), only=inv),
            {"UNI_FILE": files[name]}, workers=1, timeout=600)
    # 2. spec -> code
    D = 3
    nsim = ck.pick(40, 200)
    for k, name in enumerate(("main", "second")):
        job(f"Simulate:Commandline_Sim {name} num={nsim} depth={D}", "Commandline_Sim",
            mc_cfg("SimSpec", 1, only="InvOutcomeTotal", extra=f"  D = {D}\n"), {"UNI_FILE": files[name]},
            simulate=f"num={nsim}", depth=D + 2, seed=seed() + 11 + k, workers=1, timeout=900)
    # 3. code -> spec: random universes, random histories
    r_ = rng(8)
    unis, events, tid = [], [], 0
    for _u in range(ck.pick(12, 60)):
        uni = random_universe(r_)
        check_universe(uni)
        unis.append(uni)
        for _t in range(ck.pick(5, 8)):
            w = World(uni)
            tid += 1
            n0 = len(events)
            calls = [random_call(r_, uni) for _ in range(r_.randint(1, 3))]
            run_history(w, tid, len(unis), calls, events)
            ck.count()
            if nontrivial(calls, events[n0:]):
                ck.nontriv(("rnd", json.dumps(uni, sort_keys=True), json.dumps(calls, sort_keys=True)))
    for uni, hists in FIXED:
        check_universe(uni)
        unis.append(uni)
        for calls in hists:
            w = World(uni)
            tid += 1
            n0 = len(events)
            run_history(w, tid, len(unis), calls, events)
            ck.count()
            if nontrivial(calls, events[n0:]):
                ck.nontriv(("fixed", json.dumps(uni, sort_keys=True), json.dumps(calls, sort_keys=True)))
    ck.sample(dict(direction="code->spec", argv=events[0]["argv"], log=[x["h"] for x in events[0]["log"]], out=events[0]["out"]))
    tid = smoke(ck, unis, events, tid)
    ck.sample(dict(direction="smoke", argv=events[-6]["argv"], log=[x["h"] for x in events[-6]["log"]]))
    judge(ck, unis, events, "Trace:random-universes+smoke")
    # collect TLC jobs
    for label, t in jobs:
        t.join()
        res = results[label]
        if isinstance(res, Exception):
            raise res if isinstance(res, tlc.MachineryError) else tlc.MachineryError(f"{label}: {res!r}")
        ck.add_mc(label, res)
        if label.startswith("MC:") and res.violated:
            raise tlc.MachineryError(f"{label}: model violates {res.violated}\n{res.out[-3000:]}")
    for name, switch, inv in GUARDS:
        res = results[f"Guard:{switch}=FALSE {name}"]
        if res.violated != inv:
            raise tlc.MachineryError(f"vacuity guard: with {switch}=FALSE TLC must refute {inv}, got {res.violated}")
    ck.extra["vacuity_guards_refuted"] = [f"{s}=FALSE -> {i}" for _n, s, i in GUARDS]
    # replay of the simulated behaviours
    for name in ("main", "second"):
        label = [l for l, _t in jobs if l.startswith(f"Simulate:Commandline_Sim {name} ")][0]
        behs = [p[1] for p in results[label].tagged("BEH")]
        if len(behs) < nsim // 2:
            raise tlc.MachineryError(f"simulation produced only {len(behs)} behaviours\n{results[label].out[-2000:]}")
        events = []
        for k, beh in enumerate(behs):
            w = World(UNIVERSES[name])
            n0 = len(events)
            run_history(w, k, 1, beh, events)
            ck.count()
            if nontrivial(beh, events[n0:]):
                ck.nontriv(("sim", name, json.dumps(beh, sort_keys=True)))
        ck.sample(dict(direction="spec->code", universe=name, history=behs[0]))
        judge(ck, [UNIVERSES[name]], events, f"Trace:sim-{name}")
