"""C39 — Bug update list changes compose like applying them in sequence.

spec -> code : ListChange_Export enumerates every ordered pair of constructible changes over a
               3-value alphabet; each pair is fed to the real ListChange.__or__ .
code -> spec : the observations (refused / resulting change; wire keys of random BugUpdates) are
               judged by ListChange_Trace (clauses Sequential, WellFormed, WireFields, ListWireKeys).
"""
import datetime

from pylib.common import rng, use_repo

VALS = '{"a", "b", "c"}'
CFG_CONST = f"CONSTANT Vals = {VALS}\n"


def _mk(LC, c):
    if c["kind"] == "set":
        return LC.setting(*c["set"])
    return LC(add=tuple(c["add"]), remove=tuple(c["rem"]))


def _proj(c):
    if c.replace is not None:
        return dict(kind="set", add=[], rem=[], set=sorted(set(c.replace)))
    return dict(kind="addrem", add=sorted(set(c.add)), rem=sorted(set(c.remove)), set=[])


def run(ck):
    use_repo()
    from pkgcore.bugzilla import changes as ch
    from pkgcore.bugzilla.enums import Resolution, RuntimeTesting, Status
    from pkgcore.bugzilla.errors import BugzillaUsageError
    from pkgcore.bugzilla.pkglist import PackageList

    ck.rule = ("every ordered pair of constructible ListChanges over {a,b,c} (enumerated by TLC) evaluated with the real "
               "__or__; non-trivial = distinct (a,b) pair whose combination was not refused; plus random BugUpdates "
               "(distinct set-of-fields) for the wire payload")
    ck.assumptions = ["Bugzilla list fields are sets; add/remove applies remove first then add, set replaces",
                      "values are opaque: three distinct strings stand for all values"]
    # 1. design: the law is satisfiable, combined == sequential along every history
    ck.laws("ListChange_Laws", cfg_text=CFG_CONST, label="MC:laws(Compose sequential+associative)")
    r = ck.mc("ListChange_MC", cfg_file="ListChange_MC.cfg", workers=8, label="MC:queue/send histories")
    ck.exhaustive = True
    # 2. spec -> code
    cases = ck.export("ListChange_Export", cfg_text=CFG_CONST)
    if ck.replay_case:
        cases = [ck.replay_case["detail"]["case"]] if "case" in ck.replay_case["detail"] else cases
    events = []
    for n, case in enumerate(cases):
        a, b = _mk(ch.ListChange, case["a"]), _mk(ch.ListChange, case["b"])
        ev = dict(tid=n, i=0, ev="or", a=case["a"], b=case["b"], refused=False, res=case["a"])
        try:
            res = a | b
            ev["res"] = _proj(res)
            ck.nontriv(("or", n))
        except BugzillaUsageError:
            ev["refused"] = True
        ck.count()
        events.append(ev)
    ck.sample(events[len(events) // 2])
    # 3. wire payloads: what "set" means is decided per field by the update's own type (not None for
    #    scalars, a non-empty change for lists, a non-empty tuple for flags); every legal value of a
    #    field is a way of setting it -- every enum member, empty strings, an empty package list, the
    #    "---" member of RuntimeTesting (an explicit reset)
    r_ = rng(39)
    statuses_plain = [x for x in Status if x is not Status.RESOLVED]
    res_plain = [x for x in Resolution if x is not Resolution.DUPLICATE]
    pools = {
        "status": statuses_plain,
        "summary": ["", "s", "0", " "],
        "assigned_to": ["x@y", ""],
        "whiteboard": ["", "wb", "0"],
        "deadline": [datetime.date(2026, 1, 2), datetime.date(1970, 1, 1), datetime.date.min],
        "comment": [ch.NewComment("c"), ch.NewComment("")],
        "package_list": [PackageList(""), PackageList("dev-libs/a-1\n")],
        "runtime_testing_required": list(RuntimeTesting),
        "flags": [(ch.FlagChange("sanity-check", ch.FlagStatus.GRANTED),), (ch.FlagChange("sanity-check", ch.FlagStatus.CLEARED),),
                  (ch.FlagChange("a", ch.FlagStatus.DENIED), ch.FlagChange("b", ch.FlagStatus.GRANTED))],
    }
    lists = ["cc", "keywords", "blocks", "depends_on", "see_also", "groups"]

    def list_change(f, k, vals):
        vals = [v if f not in ("blocks", "depends_on") else i + 1 for i, v in enumerate("abc") if v in vals]
        if k == "add":
            return ch.ListChange.adding(*vals)
        if k == "rem":
            return ch.ListChange.removing(*vals)
        if k == "both":
            return ch.ListChange(add=tuple(vals[:1]), remove=tuple(vals[1:]))
        if k == "set":
            return ch.ListChange.setting(*vals)
        return ch.ListChange()

    def closing(kw, fields, how):
        """status/resolution/dupe_of come in legal combinations only (BugUpdate.__post_init__)"""
        if how == "resolved":
            kw.update(status=Status.RESOLVED, resolution=r_.choice(res_plain))
            fields |= {"status", "resolution"}
        elif how == "dupe":
            kw.update(status=Status.RESOLVED, resolution=Resolution.DUPLICATE, dupe_of=r_.choice([1, 7, 0]))
            fields |= {"status", "resolution", "dupe_of"}
        elif how == "verified":
            kw.update(status=Status.VERIFIED, resolution=r_.choice(res_plain))
            fields |= {"status", "resolution"}

    plans = []   # (kw, fields, list records)
    # 3a. every value of every field on its own, and with one other field
    for f, pool in pools.items():
        for v in pool:
            plans.append(({f: v}, {f}, []))
            g = r_.choice([x for x in pools if x != f])
            plans.append(({f: v, g: r_.choice(pools[g])}, {f, g}, []))
    for how in ("resolved", "dupe", "verified"):
        for _ in range(3):
            kw, fields = {}, set()
            closing(kw, fields, how)
            plans.append((kw, fields, []))
    for f in lists:
        for k in ("add", "rem", "both", "set", "empty"):
            for vals in ("", "a", "ab", "abc"):
                plans.append(({f: (k, vals)}, None, None))
    # 3b. random combinations over the same pools
    nw = ck.pick(300, 3000)
    for n in range(nw):
        kw, fields = {}, set()
        for f, pool in pools.items():
            if r_.random() < 0.25:
                kw[f] = r_.choice(pool)
                fields.add(f)
        x = r_.random()
        if x < 0.3:
            closing(kw, fields, r_.choice(["resolved", "dupe", "verified"]))
        for f in lists:
            if r_.random() < 0.4:
                kw[f] = (r_.choice(["add", "rem", "both", "set", "empty"]), "".join(v for v in "abc" if r_.random() < 0.5))
        plans.append((kw, fields, None))
    base = len(events)
    for n, (kw, fields, lrec) in enumerate(plans):
        fields = set(fields or ())
        lrec = []
        for f in lists:
            if f in kw:
                c = list_change(f, *kw[f])
                kw[f] = c
                pj = _proj(c)
                pj = {k2: ([str(z) for z in v2] if isinstance(v2, list) else v2) for k2, v2 in pj.items()}
                if pj["kind"] == "set" or pj["add"] or pj["rem"]:
                    fields.add(f)
                    lrec.append(dict(name=f, change=pj, keys=[]))
        upd = ch.BugUpdate(**kw)
        wire = upd.to_wire([1])
        for lr in lrec:
            lr["keys"] = sorted(wire.get(lr["name"], {}).keys())
        events.append(dict(tid=base + n, i=0, ev="wire", fields=sorted(fields), keys=sorted(wire.keys()), lists=lrec,
                           values={k: repr(v) for k, v in kw.items()}))
        ck.count()
        ck.nontriv(("wire", tuple(sorted(fields))))
    ck.sample(events[-1])

    verdicts = ck.trace("ListChange_Trace", events, cfg_text="SPECIFICATION TraceSpec\n" + 'CONSTANT Vals = {"a","b","c","1","2","3"}\n')
    for v in verdicts:
        e = events[v["tid"]]
        if e["ev"] == "or":
            detail = dict(case=dict(a=e["a"], b=e["b"]), left=e["a"]["kind"], right=e["b"]["kind"], got=e["res"])
        else:
            detail = dict(fields=e["fields"], keys=e["keys"], lists=e["lists"], values=e.get("values"))
        ck.violation(v["clause"], detail)
