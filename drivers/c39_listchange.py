"""C39 — Bug update list changes compose like applying them in sequence.

spec -> code : ListChange_Export enumerates every ordered pair of constructible changes over a
               3-value alphabet; each pair is fed to the real ListChange.__or__ .
code -> spec : the observations (refused / resulting change; wire keys of random BugUpdates) are
               judged by ListChange_Trace (clauses Sequential, WellFormed, WireFields, ListWireKeys).
"""
import datetime

from pylib.common import rng, use_repo

VALS = '{"a", "b", "c"}'
CFG_CONST = f"CONSTANT Vals = {VALS}\n"


def _mk(LC, c):
    if c["kind"] == "set":
        return LC.setting(*c["set"])
    return LC(add=tuple(c["add"]), remove=tuple(c["rem"]))


def _proj(c):
    if c.replace is not None:
        return dict(kind="set", add=[], rem=[], set=sorted(set(c.replace)))
    return dict(kind="addrem", add=sorted(set(c.add)), rem=sorted(set(c.remove)), set=[])


def run(ck):
    use_repo()
    from pkgcore.bugzilla import changes as ch
    from pkgcore.bugzilla.enums import Resolution, RuntimeTesting, Status
    from pkgcore.bugzilla.errors import BugzillaUsageError
    from pkgcore.bugzilla.pkglist import PackageList

    ck.rule = ("every ordered pair of constructible ListChanges over {a,b,c} (enumerated by TLC) evaluated with the real "
               "__or__; non-trivial = distinct (a,b) pair whose combination was not refused; plus random BugUpdates "
               "(distinct set-of-fields) for the wire payload")
    ck.assumptions = ["Bugzilla list fields are sets; add/remove applies remove first then add, set replaces",
                      "values are opaque: three distinct strings stand for all values"]
    # 1. design: the law is satisfiable, combined == sequential along every history
    ck.laws("ListChange_Laws", cfg_text=CFG_CONST, label="MC:laws(Compose sequential+associative)")
    r = ck.mc("ListChange_MC", cfg_file="ListChange_MC.cfg", workers=8, label="MC:queue/send histories")
    ck.exhaustive = True
    # 2. spec -> code
    cases = ck.export("ListChange_Export", cfg_text=CFG_CONST)
    if ck.replay_case:
        cases = [ck.replay_case["detail"]["case"]] if "case" in ck.replay_case["detail"] else cases
    events = []
    for n, case in enumerate(cases):
        a, b = _mk(ch.ListChange, case["a"]), _mk(ch.ListChange, case["b"])
        ev = dict(tid=n, i=0, ev="or", a=case["a"], b=case["b"], refused=False, res=case["a"])
        try:
            res = a | b
            ev["res"] = _proj(res)
            ck.nontriv(("or", n))
        except BugzillaUsageError:
            ev["refused"] = True
        ck.count()
        events.append(ev)
    ck.sample(events[len(events) // 2])
    # 3. wire payloads of random updates
    r_ = rng(39)
    nw = ck.pick(300, 3000)
    scal = {
        "status": lambda: Status.CONFIRMED, "summary": lambda: r_.choice(["", "s"]), "assigned_to": lambda: "x@y",
        "whiteboard": lambda: r_.choice(["", "wb"]), "deadline": lambda: datetime.date(2026, 1, 2),
    }
    lists = ["cc", "keywords", "blocks", "depends_on", "see_also", "groups"]
    base = len(events)
    for n in range(nw):
        kw, fields, lrec = {}, [], []
        for f, mk in scal.items():
            if r_.random() < 0.3:
                kw[f] = mk()
                fields.append(f)
        if r_.random() < 0.2:
            kw.update(status=Status.RESOLVED, resolution=Resolution.FIXED)
            fields = sorted(set(fields) | {"status", "resolution"})
        for f in lists:
            x = r_.random()
            if x < 0.6:
                continue
            vals = [v if f not in ("blocks", "depends_on") else i + 1 for i, v in enumerate("abc") if r_.random() < 0.5]
            k = r_.choice(["add", "rem", "both", "set", "empty"])
            if k == "add":
                c = ch.ListChange.adding(*vals)
            elif k == "rem":
                c = ch.ListChange.removing(*vals)
            elif k == "both":
                c = ch.ListChange(add=tuple(vals[:1]), remove=tuple(vals[1:]))
            elif k == "set":
                c = ch.ListChange.setting(*vals)
            else:
                c = ch.ListChange()
            kw[f] = c
            pj = _proj(c)
            pj = {k2: ([str(z) for z in v2] if isinstance(v2, list) else v2) for k2, v2 in pj.items()}
            if pj["kind"] == "set" or pj["add"] or pj["rem"]:
                fields.append(f)
                lrec.append(dict(name=f, change=pj, keys=[]))
        if r_.random() < 0.2:
            kw["flags"] = (ch.FlagChange("sanity-check", ch.FlagStatus.GRANTED),)
            fields.append("flags")
        if r_.random() < 0.2:
            kw["comment"] = ch.NewComment("c")
            fields.append("comment")
        if r_.random() < 0.2:
            kw["package_list"] = PackageList("")
            fields.append("package_list")
        if r_.random() < 0.2:
            kw["runtime_testing_required"] = RuntimeTesting.YES if hasattr(RuntimeTesting, "YES") else list(RuntimeTesting)[0]
            fields.append("runtime_testing_required")
        upd = ch.BugUpdate(**kw)
        wire = upd.to_wire([1])
        for lr in lrec:
            lr["keys"] = sorted(wire.get(lr["name"], {}).keys())
        events.append(dict(tid=base + n, i=0, ev="wire", fields=sorted(fields), keys=sorted(wire.keys()), lists=lrec))
        ck.count()
        ck.nontriv(("wire", tuple(sorted(fields))))
    ck.sample(events[-1])

    verdicts = ck.trace("ListChange_Trace", events, cfg_text="SPECIFICATION TraceSpec\n" + 'CONSTANT Vals = {"a","b","c","1","2","3"}\n')
    for v in verdicts:
        e = events[v["tid"]]
        if e["ev"] == "or":
            detail = dict(case=dict(a=e["a"], b=e["b"]), left=e["a"]["kind"], right=e["b"]["kind"], got=e["res"])
        else:
            detail = dict(fields=e["fields"], keys=e["keys"], lists=e["lists"])
        ck.violation(v["clause"], detail)
