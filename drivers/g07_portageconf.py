"""G07 -- PortageConf: etc/portage -> config sections (src/pkgcore/ebuild/portage_conf.py).

MC          : PortageConf_MC -- an administrator's session on a repos.conf directory (edits between
              loads; a load = Scan / ReadOne / Finalize / RegisterOne / Done) over every tree of a
              small universe and every listing order; invariants InvDeterministic, InvLaterWins,
              InvOrderStable, InvMainLow, InvAnnounced, InvOneDefault, InvStack, InvMainDefined,
              InvEditLocal, action properties ReadMonotone, LoadReadsOnly.  Three vacuity guards
              (NoSort, UnstableSort, KeepMain) must each be refuted by TLC.
spec -> code: PortageConf_Sim (TLC -simulate) draws sessions: a tree, then one component rewritten
              per step (repos.conf, make.conf, includes, repos on disk, profile link, user profile,
              sets, call arguments).  Each session runs in ONE temporary directory; before every
              load the tree is rendered, directory listings are handed to the code in the order the
              tree gives (os.listdir wrapped), and the real PortageConfig(...) is called.
code -> spec: seeded random sessions (more names, more fragments) executed the same way.
Beside every load the session's make.conf is also read by a direct PortageConfig.load_make_conf call
(flags allow_sourcing / required / allow_recurse / incrementals drawn with the arguments) into a
seeded dictionary: result or exception class, and the dictionary after a failure, are judged too.
Every load is recorded (exception class or every generated section with its settings, repo order,
FEATURES, the process-wide ProfileNode._repo_map, the repos.conf warnings) and judged by
PortageConf_Trace, which recomputes the translation with the operators of PortageConf.tla.

The driver only renders trees, calls pkgcore and projects: paths are shown relative to the session
directory, variable values as word lists, bool/tuple settings as string lists; the settings
`class` (shown as cls) and `readonly` (depends on the uid) are not part of kv.
Carve-outs: sqfs-v1 repos, ROOT from make.conf, `~` expansion, nested directories in repos.conf/,
unreadable files (checks run as root), whitespace inside variable values, references glued to text.
"""
import logging
import os
import re
import shutil
import threading
import time

from pylib import tlc
from pylib.common import mktmp, rng, seed, use_repo

NEG_WORDS = {"-usersync", "-buildpkg", "-foo", "-sandbox", "-*"}   # table NegKey of PortageConf.tla
PT_PATH = {"inrepo": "ptree/profiles/default", "deep": "ptree/profiles/arch/x",
           "nested": "ptree/profiles/sub/profiles/inner", "outside": "outside/prof",
           "broken": "nowhere/at/all", "missing": "nowhere/at/all"}
SYS = {"SYSG": "/var/db/repos/gentoo", "SYSB": "/var/cache/binpkgs"}
SEC_KEYS = ("name", "loc", "rel", "ptag", "pval", "type", "stype", "suri", "sopts", "main")

MC_INVS = ["InvDeterministic", "InvLaterWins", "InvOrderStable", "InvMainLow", "InvAnnounced", "InvOneDefault",
           "InvStack", "InvMainDefined", "InvEditLocal"]
GUARDS = [("NoSort", "InvDeterministic"), ("UnstableSort", "InvOrderStable"), ("KeepMain", "InvMainLow")]


def mc_cfg(maxedits, switch=None, invs=MC_INVS, props=True):
    sw = {k: "FALSE" for k, _ in GUARDS}
    if switch:
        sw[switch] = "TRUE"
    txt = "SPECIFICATION Spec\nCONSTANTS\n" + "".join(f"  {k} = {v}\n" for k, v in sw.items()) + f"  MaxEdits = {maxedits}\n"
    txt += "".join(f"INVARIANT {i}\n" for i in invs)
    if props:
        txt += "PROPERTY ReadMonotone\nPROPERTY LoadReadsOnly\n"
    return txt


# --------------------------------------------------------------------------- rendering
def frag_name(f, stem):
    n = f"{f['ord']:02d}-{stem}.conf"
    if not f["vis"]:
        n = ("." + n) if f["ord"] % 2 else (n + "~")
    return n


def loc_path(root, loc):
    return SYS.get(loc) or os.path.join(root, "repos", loc)


def render_sec(root, s):
    out = [f"[{s['name']}]"]
    if s["loc"] != "-":
        p = loc_path(root, s["loc"])
        if s["rel"] and s["loc"] not in SYS:
            p = os.path.relpath(p, os.path.join(root, "etc/portage"))
        out.append(f"location = {p}")
    if s["ptag"] == "int":
        out.append(f"priority = {s['pval']}")
    elif s["ptag"] == "bad":
        out.append("priority = high")
    for key, fld in (("repo-type", "type"), ("sync-type", "stype"), ("sync-uri", "suri"), ("sync-opts", "sopts"),
                     ("main-repo", "main")):
        if s[fld] != "-":
            out.append(f"{key} = {s[fld]}".rstrip() if s[fld] else f"{key} =")
    return "\n".join(out) + "\n"


def render_frag(root, f):
    txt = "this line belongs to no section\n" if f["bad"] else ""
    return txt + "\n".join(render_sec(root, s) for s in f["secs"])


def render_stmt(root, x, relative, last=False):
    if x["op"] == "source":
        p = os.path.join("inc", x["var"]) if relative else os.path.join(root, "etc/portage/inc", x["var"])
        return f"source {p}\n"
    if x["op"] == "broken":
        # a syntax error wherever it stands: an unterminated quote at the end of a file, a missing '=' elsewhere
        return f'{x["var"]}="never closed\n' if last else f'{x["var"]} oops\n'
    words = [("${%s}" % w["v"]) if w["ref"] else w["v"] for w in x["words"]]
    return f'{x["var"]}="{" ".join(words)}"\n'


def render_stmts(root, stmts, relative):
    return "".join(render_stmt(root, x, relative, last=(k == len(stmts) - 1)) for k, x in enumerate(stmts))


def write(path, text):
    os.makedirs(os.path.dirname(path), exist_ok=True)
    with open(path, "w") as f:
        f.write(text)


def render(root, tree, listing):
    """(Re)build the whole tree under root; listing[dir] = names in the order the OS is to list them."""
    for sub in ("etc", "repos", "ptree", "outside"):
        shutil.rmtree(os.path.join(root, sub), ignore_errors=True)
    listing.clear()
    etc = os.path.join(root, "etc/portage")
    os.makedirs(etc)
    for kind, stem, comp in (("repos.conf", "frag", tree["rc"]), ("make.conf", "mk", tree["mc"])):
        target = os.path.join(etc, kind)
        if comp["kind"] == "absent":
            continue
        if comp["kind"] == "file":
            f = comp["frags"][0]
            write(target, render_frag(root, f) if kind == "repos.conf" else render_stmts(root, f["stmts"], True))
            continue
        os.makedirs(target)
        names = []
        for f in comp["frags"]:
            n = frag_name(f, stem)
            names.append(n)
            write(os.path.join(target, n),
                  render_frag(root, f) if kind == "repos.conf" else render_stmts(root, f["stmts"], False))
        listing[os.path.realpath(target)] = names
    for n, stmts in tree["inc"].items():
        write(os.path.join(etc, "inc", n), render_stmts(root, stmts, False))
    for t in ("inrepo", "deep", "nested", "outside"):
        os.makedirs(os.path.join(root, PT_PATH[t]), exist_ok=True)
    pr = tree["prof"]
    if pr["kind"] == "dir":
        os.makedirs(os.path.join(etc, "make.profile"))
    elif pr["kind"] == "link":
        os.symlink(os.path.join(root, PT_PATH[pr["target"]]), os.path.join(etc, "make.profile"))
    if tree["uprof"]:
        os.makedirs(os.path.join(etc, "profile"))
    for n in tree["sets"]:
        write(os.path.join(etc, "sets", n), "")
    for loc, d in tree["disk"].items():
        if loc in SYS or not d["exists"]:
            continue
        p = os.path.join(root, "repos", loc)
        os.makedirs(p)
        layout = "masters =\n"
        if d["cachefmt"] == "pms":
            layout += "cache-formats = pms\n"
        elif d["cachefmt"] == "none":
            layout += "cache-formats =\n"
        write(os.path.join(p, "metadata/layout.conf"), layout)
        if d["md5dir"]:
            os.makedirs(os.path.join(p, "metadata/md5-cache"))
        if not d["eapiok"]:
            write(os.path.join(p, "profiles/eapi"), "99\n")


# --------------------------------------------------------------------------- observation
WARN_PATTERNS = [
    ("override_default", re.compile(r"repos\.conf: parsing .*: overriding (DEFAULT) section")),
    ("override_repo", re.compile(r"repos\.conf: parsing .*: overriding '([^']*)' repo")),
    ("missing_location", re.compile(r"repos\.conf: parsing .*: '([^']*)' repo missing location setting")),
    ("bad_type", re.compile(r"repos\.conf: parsing .*: '([^']*)' repo has unsupported repo-type")),
    ("bad_priority", re.compile(r"repos\.conf: parsing .*: '([^']*)' repo has invalid priority")),
    ("unsupported_eapi", re.compile(r"skipping '([^']*)' repo: unsupported EAPI")),
]


class _Capture(logging.Handler):
    def __init__(self):
        super().__init__(level=logging.WARNING)
        self.msgs = []

    def emit(self, record):
        try:
            self.msgs.append(record.getMessage())
        except Exception:   # a malformed log call is not our subject
            self.msgs.append(str(record.msg))


FIXED_GRP = {"profile": "profile", "vdb": "vdb", "ebuild-repo-common": "common", "repo-stack": "stack", "vuln": "stack",
             "livefs": "domain", "world": "set", "system": "set", "installed": "set", "versioned-installed": "set"}
DOMAIN_PLAIN = {"root", "config_dir", "profile"}


class World:
    """One session directory and the process-wide hooks around the real PortageConfig."""

    def __init__(self, name):
        from pkgcore.ebuild import portage_conf, profiles

        self.pc, self.profiles = portage_conf, profiles
        self.root = os.path.realpath(mktmp(name))
        self.listing = {}

    def _cls(self, v):
        if v is None:
            return "-"
        return v if isinstance(v, str) else getattr(v, "__name__", repr(v))

    def _val(self, v, words=False):
        r = self.root
        if isinstance(v, bool):
            return [str(v)]
        if isinstance(v, str):
            return v.replace(r, "").split() if words else [v.replace(r, "")]
        if isinstance(v, (tuple, list)):
            return [str(x).replace(r, "") for x in v]
        return [repr(v)]

    def _grp(self, name, cls):
        if name in FIXED_GRP:
            return FIXED_GRP[name]
        for p in ("conf", "cache", "sync"):
            if name.startswith(p + ":"):
                return p
        return "set" if cls.endswith("filelist.FileList") else "repo"

    def rmap(self):
        m = self.profiles.ProfileNode._repo_map
        return sorted([k, v.replace(self.root, "")] for k, v in (m or {}).items())

    def listdir_hook(self, real_listdir):
        listing = self.listing

        def listdir(path="."):
            res = real_listdir(path)
            try:
                want = listing.get(os.path.realpath(path)) if isinstance(path, str) else None
            except OSError:
                want = None
            if want:
                pos = {n: k for k, n in enumerate(want)}
                res.sort(key=lambda n: pos.get(n, len(pos)))
            return res

        return listdir

    def load(self, tree, args):
        render(self.root, tree, self.listing)
        kw = {}
        if args["override"] != "-":
            kw["profile_override"] = os.path.join(self.root, PT_PATH[args["override"]])
        if args["root"] != "-":
            kw["root"] = self.root + args["root"]
        if args["buildpkg"]:
            kw["buildpkg"] = True
        real_listdir = os.listdir
        listdir = self.listdir_hook(real_listdir)
        cap = _Capture()
        lg = logging.getLogger("pkgcore")
        old_level = lg.level
        lg.addHandler(cap)
        lg.setLevel(logging.WARNING)
        old_prop = lg.propagate
        lg.propagate = False
        os.listdir = listdir
        cfg, err = None, ""
        try:
            try:
                cfg = self.pc.PortageConfig(location=os.path.join(self.root, "etc/portage"), **kw)
            except Exception as e:   # recorded, judged by the trace spec
                err = type(e).__name__
        finally:
            os.listdir = real_listdir
            lg.removeHandler(cap)
            lg.setLevel(old_level)
            lg.propagate = old_prop
        obs = dict(err=err, secs=[], order=[], features=[], rmap=self.rmap(), warn=[])
        if cfg is not None:
            for name in cfg.keys():
                d = dict(cfg[name].dict)
                cls = self._cls(d.pop("class", None))
                d.pop("readonly", None)
                grp = self._grp(name, cls)
                kv = [dict(k=k, v=self._val(v, words=(grp == "domain" and isinstance(v, str) and k not in DOMAIN_PLAIN)))
                      for k, v in sorted(d.items())]
                obs["secs"].append(dict(grp=grp, name=name, cls=cls, kv=kv))
            obs["order"] = list(cfg["livefs"].dict["repos"])
            obs["features"] = sorted(cfg.features)
            seen = set()
            for m in cap.msgs:
                for kind, pat in WARN_PATTERNS:
                    mm = pat.search(m)
                    if mm and (kind, mm.group(1)) not in seen:
                        seen.add((kind, mm.group(1)))
                        obs["warn"].append([kind, mm.group(1)])
        return obs


ENV0 = {"USE": ["u0"], "BASE": ["b0"], "FEATURES": ["f0"], "X": ["x0"]}


def direct_make_conf(world, tree, flags):
    """PortageConfig.load_make_conf called the way domain.get_package_domain and tests call it."""
    d = {k: " ".join(v) for k, v in ENV0.items()}
    err = ""
    real_listdir = os.listdir
    os.listdir = world.listdir_hook(real_listdir)
    try:
        try:
            world.pc.PortageConfig.load_make_conf(d, os.path.join(world.root, "etc/portage/make.conf"), allow_sourcing=flags["src"],
                                                  required=flags["required"], allow_recurse=flags["recurse"],
                                                  incrementals=flags["incr"])
        except Exception as e:   # recorded, judged by the trace spec
            err = type(e).__name__
    finally:
        os.listdir = real_listdir
    return dict(err=err, env=[dict(k=k, v=str(v).replace(world.root, "").split()) for k, v in sorted(d.items())])


def globals_words():
    from pkgcore import const
    from pkgcore.ebuild.portage_conf import PortageConfig

    d = {}
    PortageConfig.load_make_conf(d, os.path.join(const.CONFIG_PATH, "make.globals"))
    return {k: v.split() for k, v in d.items()}


def real_sys_facts(tree):
    """The shipped repos.conf points at absolute locations: their facts are read off this machine."""
    for loc, p in SYS.items():
        if os.path.exists(p):
            raise tlc.MachineryError(f"{p} exists on this machine: the fallback case needs its real facts")
        tree["disk"][loc] = dict(exists=False, cachefmt="default", md5dir=False, eapiok=True)
    return tree


def check_domain(tree):
    for f in tree["mc"]["frags"]:
        for x in f["stmts"]:
            _check_stmt(x)
    for stmts in tree["inc"].values():
        for x in stmts:
            _check_stmt(x)


def _check_stmt(x):
    for w in x["words"]:
        if not w["ref"] and w["v"].startswith("-") and x["var"] == "FEATURES" and w["v"] not in NEG_WORDS:
            raise tlc.MachineryError(f"generator left the domain: negative FEATURES word {w['v']!r} is not in NegKey")


def run_session(world, tid, steps, events):
    rmap0 = world.rmap()   # the process-wide repo map as the session finds it
    for i, st in enumerate(steps, 1):
        tree = real_sys_facts(dict(st["tree"], disk=dict(st["tree"]["disk"])))
        tree["sets"] = sorted(tree["sets"])
        check_domain(tree)
        obs = world.load(tree, st["args"])
        events.append(dict(tid=tid, i=i, ev="load", comp=st.get("comp", "-"), tree=tree, args=st["args"],
                           rmap0=rmap0, obs=obs))
        flags = st["args"]["mk"]
        events.append(dict(tid=tid, i=1000 + i, ev="mkconf", comp=st.get("comp", "-"), env0=ENV0, mc=tree["mc"], inc=tree["inc"],
                           flags=flags, obs=direct_make_conf(world, tree, flags)))


# --------------------------------------------------------------------------- random sessions (code -> spec)
NAMES = ["gentoo", "alpha", "beta", "gamma", "delta", "bin", "bin2"]
LOCS = ["A", "B", "C", "D", "N", "U"]
URIS = ["rsync://h/m", "rsync://h2/n", "git://x/c", "git+https://x/b.git", "https://x/a.git", ""]
VARS = ["FEATURES", "USE", "X", "Y", "DISTDIR", "GENTOO_MIRRORS", "PORTAGE_RSYNC_OPTS", "PORTAGE_RSYNC_EXTRA_OPTS",
        "ACCEPT_KEYWORDS", "CONFIG_PROTECT"]
LITS = {"FEATURES": ["usersync", "-usersync", "foo", "-foo", "-*", "buildpkg", "-buildpkg", "-sandbox", "sandbox"],
        "GENTOO_MIRRORS": ["http://m1", "http://m2"],
        "PORTAGE_RSYNC_OPTS": ["--quiet", "--timeout=9"], "PORTAGE_RSYNC_EXTRA_OPTS": ["--quiet", "--timeout=9"]}


def nosec(name):
    return dict(name=name, loc="-", rel=False, ptag="unset", pval=0, type="-", stype="-", suri="-", sopts="-", main="-")


def gen_sec(r, name):
    s = nosec(name)
    if name == "DEFAULT":
        s["main"] = r.choice(["-", "gentoo", "alpha", "beta", "bin", "nosuch"])
        if r.random() < 0.4:
            s["stype"] = r.choice(["git", "rsync"])
        if r.random() < 0.15:
            s["ptag"], s["pval"] = "int", 9
        return s
    if r.random() > 0.1:
        s["loc"] = r.choice(LOCS)
        s["rel"] = r.random() < 0.3
    x = r.random()
    if x < 0.4:
        s["ptag"], s["pval"] = "int", r.choice([-1000, -5, 0, 0, 5, 5, 7, 10000])
    elif x < 0.5:
        s["ptag"] = "bad"
    if name.startswith("bin"):
        s["type"] = "binpkg-v1" if r.random() > 0.15 else "bogus"
    else:
        s["type"] = r.choice(["-", "-", "ebuild-v1", "ebuild-v1", "bogus"]) if r.random() < 0.6 else "-"
    if r.random() < 0.6:
        s["stype"] = r.choice(["rsync", "git"])
    if r.random() < 0.65:
        s["suri"] = r.choice(URIS)
    if r.random() < 0.3:
        s["sopts"] = "--depth=1"
    return s


def gen_frag(r, o):
    names = r.sample(NAMES, r.randint(0, 5))
    if r.random() < 0.35:
        names.insert(0, "DEFAULT")
    if len(names) >= 2 and r.random() < 0.06:
        names.append(names[-1])
    return dict(ord=o, vis=r.random() > 0.15, bad=r.random() < 0.03, secs=[gen_sec(r, n) for n in names])


def gen_rc(r):
    x = r.random()
    if x < 0.75:
        ords = r.sample(range(1, 7), r.randint(0, 5))
        rc = dict(kind="dir", frags=[gen_frag(r, o) for o in ords])
    elif x < 0.92:
        rc = dict(kind="file", frags=[dict(gen_frag(r, 1), vis=True)])
    else:
        return dict(kind="absent", frags=[])
    if r.random() < 0.9:
        # most administrators name a main repo that exists: point some [DEFAULT] at a defined repo
        names = sorted({s["name"] for f in rc["frags"] if f["vis"] for s in f["secs"] if s["name"] != "DEFAULT" and s["loc"] != "-"})
        vis = [f for f in rc["frags"] if f["vis"]]
        if names and vis and "gentoo" not in names:
            f = r.choice(vis)
            for s in f["secs"]:
                if s["name"] == "DEFAULT":
                    s["main"] = r.choice(names)
                    break
            else:
                f["secs"].insert(0, dict(nosec("DEFAULT"), main=r.choice(names)))
            for g in vis:
                for s in g["secs"]:
                    if s["name"] == "DEFAULT" and g is not f and g["ord"] > f["ord"]:
                        s["main"] = "-"
    return rc


def gen_stmt(r, allowsrc):
    x = r.random()
    v = r.choice(VARS)
    if x < 0.1 and allowsrc:
        return dict(op="source", var=r.choice(["i1", "i2"] * 5 + ["gone"]), words=[])
    if x < 0.108:
        return dict(op="broken", var=v, words=[])
    words = []
    for _ in range(r.randint(0, 4)):
        if r.random() < 0.3:
            words.append(dict(ref=True, v=r.choice(VARS + ["UNDEFINED", v, v])))
        else:
            words.append(dict(ref=False, v=r.choice(LITS.get(v, ["a", "b", "c", "d"]))))
    return dict(op="set", var=v, words=words)


def gen_mc(r):
    x = r.random()
    if x < 0.45:
        ords = r.sample(range(1, 6), r.randint(0, 4))
        return dict(kind="dir", frags=[dict(ord=o, vis=r.random() > 0.15, stmts=[gen_stmt(r, True) for _ in range(r.randint(0, 5))])
                                       for o in ords])
    if x < 0.9:
        return dict(kind="file", frags=[dict(ord=1, vis=True, stmts=[gen_stmt(r, True) for _ in range(r.randint(0, 6))])])
    return dict(kind="absent", frags=[dict(ord=1, vis=True, stmts=[])])


def gen_inc(r):
    return {n: [s for s in (gen_stmt(r, False) for _ in range(r.randint(0, 3))) if s["op"] != "broken" or r.random() < 0.3]
            for n in ("i1", "i2")}


def gen_disk(r, unsupported):
    d = {}
    for loc in LOCS:
        if loc == "N" or (loc == "D" and r.random() < 0.3):
            d[loc] = dict(exists=False, cachefmt="default", md5dir=False, eapiok=True)
        else:
            d[loc] = dict(exists=True, cachefmt=r.choice(["default", "default", "pms", "none"]), md5dir=r.random() < 0.4,
                          eapiok=loc not in unsupported)
    return d


def gen_prof(r):
    return dict(kind=r.choice(["link"] * 7 + ["dir", "dir", "none"]),
                target=r.choice(["inrepo"] * 14 + ["deep"] * 7 + ["nested"] * 7 + ["outside", "broken"]))


def gen_args(r):
    return dict(override=r.choice(["-"] * 20 + ["inrepo"] * 3 + ["deep"] * 2 + ["nested"] * 3 + ["outside", "missing"]),
                root=r.choice(["-", "-", "/altroot"]), buildpkg=r.random() < 0.2,
                mk=dict(src=r.random() < 0.7, required=r.random() < 0.5, recurse=r.random() < 0.75, incr=r.random() < 0.5))


def gen_session(r, n):
    unsupported = {"U"} | ({"D"} if r.random() < 0.3 else set())
    tree = dict(rc=gen_rc(r), disk=gen_disk(r, unsupported), mc=gen_mc(r), inc=gen_inc(r), prof=gen_prof(r),
                uprof=r.random() < 0.3, sets=sorted(r.sample(["myset", "world", "system", "installed", "vdb", "other"], r.randint(0, 3))))
    args = gen_args(r)
    steps = [dict(comp="all", tree=tree, args=args)]
    for _ in range(n - 1):
        tree = dict(tree)
        comp = r.choice(["rc", "rc", "rc", "mc", "mc", "inc", "disk", "prof", "uprof", "sets", "args", "frag"])
        if comp == "rc":
            tree["rc"] = gen_rc(r)
        elif comp == "frag" and tree["rc"]["kind"] == "dir":
            # drop one more fragment into the directory (or replace one), anywhere in the listing
            fr = [f for f in tree["rc"]["frags"]]
            new = gen_frag(r, r.randint(1, 7))
            fr = [f for f in fr if f["ord"] != new["ord"] or f["vis"] != new["vis"]]
            if any(f["ord"] == new["ord"] for f in fr):
                new["ord"] = max(f["ord"] for f in fr) + 1
            fr.insert(r.randint(0, len(fr)), new)
            tree["rc"] = dict(kind="dir", frags=fr)
        elif comp == "mc":
            tree["mc"] = gen_mc(r)
        elif comp == "inc":
            tree["inc"] = gen_inc(r)
        elif comp == "disk":
            tree["disk"] = gen_disk(r, unsupported)
        elif comp == "prof":
            tree["prof"] = gen_prof(r)
        elif comp == "uprof":
            tree["uprof"] = not tree["uprof"]
        elif comp == "sets":
            tree["sets"] = sorted(r.sample(["myset", "world", "system", "installed", "vdb", "other"], r.randint(0, 3)))
        else:
            args = gen_args(r)
        steps.append(dict(comp=comp, tree=tree, args=args))
    # visible fragments of one directory need distinct names
    for st in steps:
        for comp in (st["tree"]["rc"], st["tree"]["mc"]):
            seen = set()
            for f in comp["frags"]:
                if f["vis"]:
                    while f["ord"] in seen:
                        f["ord"] += 10
                    seen.add(f["ord"])
    return steps


# --------------------------------------------------------------------------- judging
def nontrivial(ev):
    t = ev["tree"]
    return (t["rc"]["kind"] == "dir" and sum(1 for f in t["rc"]["frags"] if f["vis"]) >= 2) or len(t["mc"]["frags"]) >= 2


def judge(ck, gl, batches):
    """batches = [(label, events)]: PortageConf_Trace runs on them side by side; verdicts become violations."""
    batches = [(lab, evs) for lab, evs in batches if evs]
    header = dict(tid=-1, i=0, ev="header", globals=gl)
    results = {}

    def body(lab, evs):
        try:
            results[lab] = tlc.trace_check("PortageConf_Trace", [header] + evs, timeout=ck.pick(900, 3000),
                                           env={"JAVA_TOOL_OPTIONS": "-Xss64m"})
        except Exception as e:   # re-raised in the main thread
            results[lab] = e

    pending = list(batches)
    running = []
    while pending or running:
        while pending and len(running) < 3:
            lab, evs = pending.pop(0)
            t = threading.Thread(target=body, args=(lab, evs))
            t.start()
            running.append(t)
            time.sleep(0.3)
        running[0].join()
        running.pop(0)
    for lab, evs in batches:
        got = results[lab]
        if isinstance(got, Exception):
            raise got
        verdicts, res = got
        ck.add_mc(lab, res)
        ck.traces += len({e["tid"] for e in evs})
        by = {(e["tid"], e["i"]): e for e in evs}
        for v in verdicts:
            e = by[(v["tid"], v["i"])]
            if v["clause"] == "OutsideDomain":
                raise tlc.MachineryError(f"generator left the specification's domain: tid={e['tid']} i={e['i']} tree={e['tree']}")
            hist = [dict(comp=x["comp"], tree=x["tree"], args=x["args"]) for x in evs
                    if x["tid"] == e["tid"] and x["ev"] == "load" and x["i"] <= e["i"] % 1000]
            o = e["obs"]
            if e["ev"] == "mkconf":
                ck.violation(v["clause"], dict(call=e["i"] % 1000, op="load_make_conf", comp=e["comp"], err=o["err"], flags=e["flags"],
                                               mc_kind=e["mc"]["kind"], history=hist, observed=dict(env=o["env"])))
                continue
            ck.violation(v["clause"], dict(call=e["i"], comp=e["comp"], err=o["err"], rc_kind=e["tree"]["rc"]["kind"],
                                           mc_kind=e["tree"]["mc"]["kind"], args=e["args"], history=hist,
                                           observed=dict(order=o["order"], features=o["features"], rmap=o["rmap"], warn=o["warn"],
                                                         sections=[s["name"] for s in o["secs"]])))


def run(ck):
    use_repo()
    ck.rule = ("one evaluation = one real PortageConfig(...) call on a rendered etc/portage tree inside a session (one "
               "directory, one component rewritten between calls); sessions are drawn by TLC simulation of PortageConf_Sim and "
               "by a seeded generator; non-trivial = distinct (tree, arguments) whose repos.conf directory has at least two "
               "visible fragments or whose make.conf has at least two files")
    ck.assumptions = [
        "make.globals is taken as the code reads it (recorded in the trace header)",
        "values of variables are compared as word lists; paths relative to the session directory",
        "sync URIs, FEATURES words with a leading '-', profile targets come from the tables of PortageConf.tla",
        "the settings `class` and `readonly` are projected out of kv (class is compared as cls)",
        "/var/db/repos/gentoo and /var/cache/binpkgs (targets of the shipped repos.conf) do not exist on this machine",
    ]
    gl = globals_words()

    if ck.replay_case:
        d = ck.replay_case["detail"]
        w = World("replay")
        events = []
        run_session(w, 0, d["history"], events)
        judge(ck, gl, [("Trace:replay", events)])
        ck.count(len(events))
        ck.sample(dict(replayed_calls=len(events)))
        ck.nontriv("replay")
        return

    # ---- TLC jobs that do not depend on the implementation run beside the Python work
    jobs = {}

    def bg(key, **kw):
        def body():
            try:
                jobs[key] = tlc.run("PortageConf_MC", **kw)
            except Exception as e:   # re-raised in the main thread
                jobs[key] = e
        t = threading.Thread(target=body)
        t.start()
        time.sleep(0.2)
        return t

    maxedits = ck.pick(1, 2)
    threads = [bg("mc", cfg_text=mc_cfg(maxedits), workers=ck.pick(2, 4), timeout=ck.pick(600, 3000))]
    for sw, inv in GUARDS:
        threads.append(bg(sw, cfg_text=mc_cfg(1, switch=sw, invs=[inv], props=False), workers=1, timeout=600))

    # ---- spec -> code
    D = ck.pick(5, 8)
    nsim = ck.pick(40, 300)
    sim = tlc.run("PortageConf_Sim", cfg_text=f"SPECIFICATION SimSpec\nCONSTANT D = {D}\n", simulate=f"num={nsim}",
                  depth=D + 2, seed=seed() + 7, workers=1, timeout=ck.pick(600, 2400))
    ck.add_mc(f"Simulate:PortageConf_Sim num={nsim} depth={D}", sim)
    behs = [p[1] for p in sim.tagged("BEH")]
    if len(behs) < nsim // 2:
        raise tlc.MachineryError(f"simulation produced only {len(behs)} sessions\n{sim.out[-2000:]}")
    events = []
    w = World("sim")
    for tid, beh in enumerate(behs):
        run_session(w, tid, beh, events)
    ck.sample(dict(direction="spec->code", comp=[s["comp"] for s in behs[0]], first_tree=behs[0][0]["tree"],
                   observed_order=events[0]["obs"]["order"], observed_err=events[0]["obs"]["err"]))
    ck.sample(dict(direction="spec->code", op="load_make_conf", flags=events[1]["flags"], mc=events[1]["mc"], observed=events[1]["obs"]))
    sim_events = events

    # ---- code -> spec
    r = rng(7)
    rnd_events = []
    w2 = World("rnd")
    nsess = ck.pick(50, 500)
    for tid in range(nsess):
        steps = gen_session(r, r.randint(3, ck.pick(6, 9)))
        run_session(w2, 100000 + tid, steps, rnd_events)
    e0 = rnd_events[0]
    ck.sample(dict(direction="code->spec", rc=e0["tree"]["rc"], observed_order=e0["obs"]["order"], warn=e0["obs"]["warn"],
                   err=e0["obs"]["err"]))
    outcomes = {}
    for e in sim_events + rnd_events:
        ck.count()
        key = ("mkconf:" if e["ev"] == "mkconf" else "") + (e["obs"]["err"] or "ok")
        outcomes[key] = outcomes.get(key, 0) + 1
        if e["ev"] == "load" and nontrivial(e):
            ck.nontriv(repr((e["tree"], e["args"])))
    ck.extra["outcomes"] = outcomes
    chunk = ck.pick(250, 450)
    batches = []
    for lab, evs in (("sim-sessions", sim_events), ("random-sessions", rnd_events)):
        # sessions stay whole inside a batch (the repo map is followed from call to call)
        start = 0
        while start < len(evs):
            end = min(len(evs), start + chunk)
            while end < len(evs) and not (evs[end]["ev"] == "load" and evs[end]["i"] == 1):
                end += 1
            batches.append((f"Trace:{lab}-{len(batches)}", evs[start:end]))
            start = end
    judge(ck, gl, batches)

    # ---- collect the model-checking jobs
    for t in threads:
        t.join()
    for k, v in jobs.items():
        if isinstance(v, Exception):
            raise v
    res = jobs["mc"]
    ck.add_mc(f"MC:PortageConf_MC MaxEdits={maxedits}", res)
    if res.violated:
        raise tlc.MachineryError(f"PortageConf_MC: the design violates {res.violated}\n{res.out[-3000:]}")
    refuted = {}
    for sw, inv in GUARDS:
        g = jobs[sw]
        ck.add_mc(f"Guard:{sw} (must violate {inv})", g)
        if g.violated != inv:
            raise tlc.MachineryError(f"vacuity guard {sw}: expected TLC to refute {inv}, got {g.violated!r}\n{g.out[-2000:]}")
        refuted[sw] = inv
    ck.extra["guards_refuted"] = refuted
