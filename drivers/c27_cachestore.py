"""C27 — metadata cache entries round-trip and are replaced atomically; listing the cache never reports a
partial/temp entry as a package (cache/__init__.py, cache/flat_hash.py, cache/fs_template.py).

Spec        : CacheStore.tla — Kept(layout, known, entry) = what reading back must return (known keys and
              values, inherited-eclass data, validation mtime / md5) for the layouts "flat"
              (flat_hash.database) and "md5" (flat_hash.md5_cache); token-level Render/Parse of the file format;
              reader-level atomicity clauses GetOldOrNew / KeysOnlyPackages / KeysKeepOthers.
MC          : CacheStore_Laws (Parse(Render(e)) = Kept(e) over a small universe, both layouts, every eclass
              order; a file without its validation line is not an entry);
              CacheStore_MC (the store protocol of flat_hash._setitem over FsModel: 2-3 interleaved writers with
              their own pids, stale temp of a reused pid, missing category directory, kill -9 and I/O errors at
              any step; every state is a crash point; invariants GetOldOrNew, KeysOnlyPackages, KeysKeepOthers,
              KeysGettable, Completes, NoRollback; the variant whose keys() lists every file — the unpatched
              code — must violate KeysOnlyPackages).
spec->code /
code->spec  : a deterministic BOUNDARY suite (eclass mapping absent / present but empty / one eclass with zero
              mtime+md5 / several; no keys / every known key empty / every known key set / unknown keys only;
              validation datum 0; stored over nothing / over an entry of the same cpv that had eclasses / that had
              none; both layouts) and random entries (awkward single-line values, unknown keys, eclass maps with paths containing
              blanks/unicode, mtimes, md5s) are stored by the real cache over random old states (new category,
              other packages present, replacing the same cpv) in both layouts and read back by a FRESH cache
              object: CacheStore_Trace judges RoundTripVals / RoundTripEcl / RoundTripChf / KeysAfterStore.  The
              store's syscalls are replayed through FsModel by FsTrace (Watch: the entry file is old-or-new
              after every syscall; Frame; FinalState).  The store is re-run with a power cut before every
              mutation (+ half writes) and with EIO at every mutation; afterwards the real cache[cpv] and
              list(cache.keys()) are judged by CacheStore_Trace (GetOldOrNew, KeysOnlyPackages, KeysKeepOthers,
              KeysMatchGet).
Carve-outs  : values are single-line (property text) and carry no leading/trailing white space (the line
              format strips it); keys contain no '='; eclass names / directories contain no tab; mtimes are
              integral and < 2^31.
"""
import os
import time
from concurrent.futures import ThreadPoolExecutor

from pylib import atomic, tlc
from pylib.common import mktmp, rng, use_repo

LEVEL = "fault_enumeration"

VALUES = ["", "a", "dev-lang/perl virtual/libc", "x=y", "a=b=c", "=", "é ü ß", "tab\there", "~amd64 ~x86", "|| ( a/b c/d )",
          "https://example.org/?q=1&r=2", "0", "#comment-like", "_mtime_=5", "x" * 400, "a  b", " sep", "q\\n"]
UNKNOWN = ["BOGUS", "X_UNKNOWN", "_private_"]
ECLASSES = ["eutils", "toolchain-funcs", "multilib", "python-r1", "e-2.0", "x_y"]
ECLDIRS = ["/var/db/repos/gentoo/eclass", "/a b/eclass", "/é/eclass", "/e"]
CPVS = ["cat/pkg-1.0", "cat/pkg-2.0", "cat/other-3", "dev-lang/python-3.11.4-r1"]


def mc_cfg(listing, same, cat, nw, nch):
    return (f'SPECIFICATION Spec\nCONSTANTS\n NWriters = {nw}\n NChunks = {nch}\n SameTarget = {same}\n CatExists = {cat}\n'
            f' Listing = "{listing}"\nINVARIANT GetOldOrNew\nINVARIANT KeysOnlyPackages\nINVARIANT KeysKeepOthers\n'
            "INVARIANT KeysGettable\nINVARIANT Completes\nPROPERTY NoRollback\n")


def gen_entry(r_, known):
    plain = sorted(k for k in known if not k.startswith("_"))
    ks = r_.sample(plain, r_.randint(0, min(8, len(plain)))) + r_.sample(UNKNOWN, r_.randint(0, 2))
    vals = [dict(k=k, v=r_.choice(VALUES)) for k in sorted(ks)]
    hasecl = r_.random() < 0.75
    ecl = []
    if hasecl:
        for name in r_.sample(ECLASSES, r_.choice([0, 1, 1, 2, 3, 4])):
            ecl.append(dict(name=name, dir=r_.choice(ECLDIRS), mtime=r_.choice([0, 1, 1155996352, 2**31 - 1, r_.randrange(2**31)]),
                            md5="%032x" % r_.getrandbits(128)))
    chf = dict(mtime=r_.choice([0, 1, 1000, 2**31 - 1, r_.randrange(2**31)]), md5="%032x" % r_.choice([0, 1, r_.getrandbits(128)]))
    return dict(vals=vals, hasecl=hasecl, ecl=ecl, chf=chf)


def boundary_cases(keys, full):
    """Deterministic boundary values of every stored field, crossed with what the store overwrites:
    eclass mapping absent / present but EMPTY / one eclass with zero mtime+md5 / several; no keys at all / every known
    key with an empty string / every known key non-empty / unknown keys only; validation datum 0;
    over nothing / an entry of the same cpv that HAD eclasses / one that had none."""
    plain = sorted(k for k in keys if not k.startswith("_"))
    zero = dict(mtime=0, md5="%032x" % 0)
    some = dict(mtime=1234, md5="d41d8cd98f00b204e9800998ecf8427e")
    e1 = dict(name="eutils", dir="/var/db/repos/gentoo/eclass", mtime=1155996352, md5="%032x" % (2**127 + 5))
    e2 = dict(name="x_y", dir="/a b/eclass", mtime=1, md5="%032x" % 1)
    ez = dict(name="multilib", dir="/e", mtime=0, md5="%032x" % 0)
    shapes = [
        ("only-chf", dict(vals=[], hasecl=False, ecl=[], chf=some)),
        ("empty-eclass-map", dict(vals=[dict(k="DEPEND", v=">=dev-libs/foo-2"), dict(k="INHERIT", v=""), dict(k="SLOT", v="0")],
                                  hasecl=True, ecl=[], chf=some)),
        ("zero-eclass", dict(vals=[dict(k="SLOT", v="0")], hasecl=True, ecl=[ez], chf=zero)),
        ("all-keys-empty", dict(vals=[dict(k=k, v="") for k in plain], hasecl=True, ecl=[], chf=zero)),
        ("all-keys-set", dict(vals=[dict(k=k, v=VALUES[(j % (len(VALUES) - 1)) + 1]) for j, k in enumerate(plain)], hasecl=True,
                              ecl=[e1, e2], chf=some)),
        ("unknown-keys-only", dict(vals=[dict(k=k, v="z") for k in UNKNOWN], hasecl=False, ecl=[], chf=some)),
    ]
    prevs = [
        ("fresh", None),
        ("had-eclasses", dict(vals=[dict(k="DEPEND", v="a/b"), dict(k="INHERIT", v="eutils x_y")], hasecl=True, ecl=[e1, e2], chf=some)),
        ("had-no-eclasses", dict(vals=[dict(k="DESCRIPTION", v="old")], hasecl=False, ecl=[], chf=zero)),
    ]
    out = []
    for si, (sname, ent) in enumerate(shapes):
        for pi, (pname, prev) in enumerate(prevs):
            for layout in (("flat", "md5") if full else (("flat", "md5")[(si + pi) % 2],)):
                before = {} if prev is None else {"cat/pkg-1.0": prev, "cat/other-3": prevs[1][1]}
                out.append(dict(layout=layout, known=None, cpv="cat/pkg-1.0", before=before, entry=ent, boundary=f"{sname}/{pname}"))
    return out


def run(ck):
    use_repo()
    from snakeoil.chksum import LazilyHashedPath

    from pkgcore.cache import errors as cerrors
    from pkgcore.cache import flat_hash
    from pkgcore.ebuild.const import metadata_keys

    ck.rule = ("a deterministic boundary suite (empty/absent/zero value of every stored field x what is overwritten) and "
               "random metadata entries stored with the real flat_hash.database / md5_cache over random old cache states; "
               "non-trivial = distinct (layout, old state, entry) with at least two keys or eclass data; every mutation of "
               "the store is a crash point (power cut before it, half write, EIO), each followed by the real cache[cpv] and "
               "list(cache.keys())")
    ck.assumptions = ["a power cut is a stop before a Python-level mutation (or after half a write); no fsync/reordering model",
                      "values are single-line without leading/trailing blanks; mtimes integral < 2^31 (TLC integers)",
                      "the text codec itself is observed, not modelled"]
    pool = ThreadPoolExecutor(6)
    jobs = []

    def bg(fn, *a, **kw):
        j = pool.submit(fn, *a, **kw)
        jobs.append(j)
        time.sleep(0.15)  # tlc.run numbers its scratch directories with an unlocked counter
        return j

    bad_job = None
    if not ck.replay_case:
        nw, nch = ck.pick((2, 2), (3, 3))
        bg(ck.laws, "CacheStore_Laws", label="Laws:CacheStore (Parse(Render(e)) = Kept(e))", timeout=800)
        for same, cat in ((("TRUE", "TRUE"),) if ck.quick else (("TRUE", "TRUE"), ("FALSE", "TRUE"), ("FALSE", "FALSE"), ("TRUE", "FALSE"))):
            bg(ck.mc, "CacheStore_MC", cfg_text=mc_cfg("skiptemp", same, cat, nw, nch), workers=2, timeout=800,
               label=f"MC:CacheStore skiptemp same={same} cat={cat}")
        bad_job = bg(ck.mc, "CacheStore_MC", cfg_text=mc_cfg("all", "FALSE", "FALSE", 2, 2), expect_ok=False,
                     label="MC:CacheStore keys() lists every file (must violate)")

    def mk(layout, rt, known=None):
        if layout == "flat":
            return flat_hash.database(os.path.join(rt, "cache"), auxdbkeys=known)
        return flat_hash.md5_cache(os.path.join(rt, "repo"), auxdbkeys=known)

    def loc(layout):
        return "cache" if layout == "flat" else "repo/metadata/md5-cache"

    def to_values(e):
        d = {kv["k"]: kv["v"] for kv in e["vals"]}
        if e["hasecl"]:
            d["_eclasses_"] = {x["name"]: LazilyHashedPath(x["dir"] + "/" + x["name"] + ".eclass", mtime=x["mtime"], md5=int(x["md5"], 16))
                               for x in e["ecl"]}
        d["_chf_"] = LazilyHashedPath("/nonexistent/ebuild", mtime=e["chf"]["mtime"], md5=int(e["chf"]["md5"], 16))
        return d

    def project(layout, d):
        d = dict(d.items())
        ent = dict(vals=[], hasecl="_eclasses_" in d, ecl=[], chf=dict(mtime=0, md5="-"))
        for name, chfs in (d.pop("_eclasses_", None) or []):
            c = dict(chfs)
            ent["ecl"].append(dict(name=name, dir=c.get("eclassdir", "-"), mtime=int(c.get("mtime", 0)),
                                   md5=("%032x" % c["md5"]) if "md5" in c else "-"))
        if layout == "flat":
            ent["chf"]["mtime"] = d.pop("_mtime_")
        else:
            ent["chf"]["md5"] = "%032x" % d.pop("_md5_")
        ent["vals"] = [dict(k=k, v=v) for k, v in sorted(d.items())]
        return ent

    def view(layout, rt, cpv, known):
        c = mk(layout, rt, known)
        try:
            got = dict(state="ok", entry=project(layout, c[cpv]))
        except KeyError:
            got = dict(state="absent")
        except cerrors.CacheCorruption:
            got = dict(state="corrupt")
        return dict(got=got, keys=sorted(mk(layout, rt, known).keys()))

    r_ = rng(27)
    root = mktmp("c27")
    if ck.replay_case:
        case_list = [ck.replay_case["detail"]["case"]]
    else:
        # (a) the deterministic boundary suite, (b) random entries over random old states
        case_list = boundary_cases(metadata_keys, not ck.quick)
        ck.extra["boundary_cases"] = len(case_list)
        for j in range(ck.pick(8, 80)):
            layout = "flat" if j % 2 == 0 else "md5"
            known = None if r_.random() < 0.7 else sorted(set(r_.sample(list(metadata_keys), 6)) | {"_eclasses_"})
            kk = list(known) if known is not None else list(metadata_keys)
            cpv = r_.choice(CPVS)
            mode = j % 3  # 0: nothing there (category directory missing), 1: other packages, 2: replace the same cpv
            before = {}
            if mode >= 1:
                for o in r_.sample([x for x in CPVS if x != cpv], r_.randint(1, 3)):
                    before[o] = gen_entry(r_, kk)
            if mode == 2:
                before[cpv] = gen_entry(r_, kk)
            case_list.append(dict(layout=layout, known=known, cpv=cpv, before=before, entry=gen_entry(r_, kk), boundary=""))
    my_events, fs_events, cases = [], [], {}
    for tid, c in enumerate(case_list):
        cases[tid] = c
        layout, known, cpv = c["layout"], c["known"], c["cpv"]
        known_all = sorted(set(known if known is not None else metadata_keys) | {"_mtime_", "_md5_"})

        def setup(rt, c=c):
            db = mk(c["layout"], rt, c["known"])
            for o, e in sorted(c["before"].items()):
                db[o] = to_values(e)

        def op(rt, c=c):
            mk(c["layout"], rt, c["known"])[c["cpv"]] = to_values(c["entry"])

        def reader(rt, c=c):
            return view(c["layout"], rt, c["cpv"], c["known"])

        cat, name = cpv.rsplit("/", 1)
        fp = f"{loc(layout)}/{cpv}"
        tmpfp = f"{loc(layout)}/{cat}/.update.{os.getpid()}.{name}"
        frame = [fp, tmpfp]
        if not any(o.rsplit("/", 1)[0] == cat for o in c["before"]):
            frame = [loc(layout)] if not c["before"] else [f"{loc(layout)}/{cat}"]
        if layout == "md5" and not c["before"]:
            frame = ["repo"]
        # the recorder buffers like a real file object: the store is open, ONE write (at close), chown, chmod, rename;
        # every one of these mutations is a cut point (+ half write, + EIO)
        rt = os.path.join(root, f"r{tid}")
        evs, info = atomic.scenario(tid, rt, setup, op, reader=reader, watch_paths=[fp], frame=frame, faults=True, label="cache.store")
        i = 0
        for e in evs:
            if e["ev"] != "reader":
                fs_events.append(e)
                continue
            i += 1
            my_events.append(dict(tid=tid, i=i, ev="reader", kind=e["kind"], k=e["k"], at_op=e["at_op"], at_path=e["at_path"],
                                  got=e["view"]["got"], keys=e["view"]["keys"], old=info["old_view"]["got"], new=info["new_view"]["got"],
                                  before=sorted(c["before"]), cpv=cpv))
        my_events.append(dict(tid=tid, i=0, ev="store", layout=layout, known=known_all, stored=c["entry"], got=info["new_view"]["got"],
                              keys=info["new_view"]["keys"], before=sorted(c["before"]), cpv=cpv))
        ck.count()
        if len(c["entry"]["vals"]) >= 2 or c["entry"]["ecl"] or c.get("boundary"):
            ck.nontriv((layout, repr(sorted(c["before"])), repr(c["entry"])))
        ck.extra["crash_points"] = ck.extra.get("crash_points", 0) + info["crash_points"]
        if tid < 2:
            ck.sample(dict(layout=layout, cpv=cpv, before=sorted(c["before"]), entry=c["entry"], syscalls=info["ops"],
                           crash_points=info["crash_points"]))

    def short(c):
        return dict(layout=c["layout"], cpv=c["cpv"], n_before=len(c["before"]), replaces=c["cpv"] in c["before"],
                    boundary=c.get("boundary", ""), empty_eclass_map=bool(c["entry"]["hasecl"] and not c["entry"]["ecl"]), case=c)

    idx = {(e["tid"], e["i"]): e for e in my_events}
    fs_job = pool.submit(lambda: atomic.judge(ck, fs_events))  # the two judges run side by side
    time.sleep(0.15)
    for v in ck.trace("CacheStore_Trace", my_events, timeout=1200):
        e = idx[(v["tid"], v["i"])]
        d = short(cases[v["tid"]])
        if e["ev"] == "reader":
            d.update(event="reader", kind=e["kind"], k=e["k"], at_op=e["at_op"], at_temp="/.update." in e["at_path"],
                     got=e["got"]["state"], keys=[k.replace(f".update.{os.getpid()}.", ".update.PID.") for k in e["keys"]], temp_listed=any("/.update." in k or k.startswith(".update.") for k in e["keys"]))
        else:
            d.update(event="store", got=e["got"], keys=e["keys"])
        ck.violation(v["clause"], d)
    for v, e in fs_job.result():
        d = short(cases[e["tid"]])
        d.update(event=e.get("ev"), k=e.get("k"), kind=e.get("kind", e.get("op")), at_op=e.get("at_op", e.get("op")))
        ck.violation(v["clause"], d)

    for j in jobs:
        j.result()
    if bad_job is not None and bad_job.result().violated != "KeysOnlyPackages":
        raise tlc.MachineryError("CacheStore_MC: the list-everything variant no longer violates KeysOnlyPackages (vacuous model?)")
    pool.shutdown()
