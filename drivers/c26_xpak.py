"""C26 — XPAK metadata segments round-trip and rewrites preserve the archive (binpkg/xpak.py).

Spec        : Xpak.tla — file = prefix o segment; the byte layout of a segment (header, index, data,
              trailer; big-endian lengths; UTF-8 for text), Locate (how a segment is found from the END of
              a file), RawItems (decoding), Rewrite(f, m) = PrefixOf(f) o Segment(m).
Laws / MC   : Xpak_Laws (decode inverts encode; a segment is found behind every prefix of the universe,
              also behind prefixes that look like a trailer/header; rewrite keeps the prefix for all
              grow/shrink pairs; UTF-8/BE32 injective on boundary values) and Xpak_MC — write_xpak as the
              procedure it is (locate, seek, header, index+data, trailer, truncate) over byte sequences,
              histories of grow/shrink rewrites: the prefix is never touched at any step, an idle file is
              exactly prefix o Segment(last).  The "notrunc" variant must violate (vacuity guard).
spec -> code: Xpak_Export enumerates (prefix, initial segment WRITTEN BY THE SPEC or none, history of <= 3
              rewrites) over the universe; the real Xpak reads the spec-written segment and rewrites it.
code -> spec: seeded random files (tbz2-like prefixes, prefixes with magic look-alikes, with/without a
              segment) x random mappings (ASCII keys incl. environment*, unicode text, binary environment
              values), 2..7 rewrites growing and shrinking.
All observations (raw file bytes after every write_xpak as Seq(0..255), items handed back by a fresh
Xpak(path)) are judged by Xpak_Trace: PrefixUnchanged, SegmentStart, SegmentExact (old segment replaced
entirely), RawKeys/RawValues (bytes on disk decode to the mapping, in order), ReadKeys/ReadValues (text
decoded, environment* as bytes), PrefixOriginal (over the whole history), Foreign_* (spec-written segment).

Carve-outs: key "repo" (documented rewrite to "REPO" on reading); non-ASCII keys; values of text keys that
are not valid UTF-8; files that do not exist yet; prefixes that themselves end in a complete, valid segment
(that IS "a file with a segment").  Sizes stay far below 2^24 (TLC integers).
"""
import os

from pylib import tlc
from pylib.common import mktmp, rng, use_repo

MC_CFG = ("SPECIFICATION Spec\nCONSTANTS\n Variant = \"{variant}\"\n MaxRewrites = {n}\n"
          "INVARIANT PrefixNeverTouched\nINVARIANT PrefixLocated\nINVARIANT ReplacedEntirely\nINVARIANT ReadsBack\n"
          "PROPERTY RewriteIsSpec\n")


# ---- rendering spec structures into Python objects / projecting results back --------------------
def to_py(items):
    """[{key:[cp], kind, units}] -> ordered dict for write_xpak."""
    d = {}
    for it in items:
        k = "".join(map(chr, it["key"]))
        d[k] = "".join(map(chr, it["units"])) if it["kind"] == "text" else bytes(it["units"])
    return d


def from_py(pairs):
    out = []
    for k, v in pairs:
        if isinstance(v, str):
            out.append(dict(key=[ord(c) for c in k], kind="text", units=[ord(c) for c in v]))
        else:
            out.append(dict(key=[ord(c) for c in k], kind="bytes", units=list(bytes(v))))
    return out


class Runner:
    def __init__(self, Xpak, root):
        self.Xpak = Xpak
        self.root = root
        self.n = 0

    def history(self, tid, file_bytes, hist, foreign=False, init=()):
        """Run one file through a history of rewrites; returns the trace events."""
        self.n += 1
        path = os.path.join(self.root, f"f{self.n}.tbz2")
        with open(path, "wb") as f:
            f.write(bytes(file_bytes))
        ev0 = dict(tid=tid, i=0, ev="open", file=list(file_bytes), foreign=bool(foreign), init=list(init), read=[], raised="")
        if foreign:
            try:
                ev0["read"] = from_py(list(self.Xpak(path).items()))
            except Exception as e:  # judged by the trace spec
                ev0["raised"] = type(e).__name__
        events = [ev0]
        for i, m in enumerate(hist, 1):
            ev = dict(tid=tid, i=i, ev="rewrite", m=m, after=[], read=[], raised="")
            try:
                self.Xpak.write_xpak(path, to_py(m))
                with open(path, "rb") as f:
                    ev["after"] = list(f.read())
                ev["read"] = from_py(list(self.Xpak(path).items()))
            except Exception as e:
                ev["raised"] = type(e).__name__ + ":" + str(e)[:80]
            events.append(ev)
        os.unlink(path)
        return events


# ---- random generation (code -> spec) -----------------------------------------------------------
KEYS = ["CATEGORY", "PF", "SLOT", "USE", "environment.bz2", "environment", "environmentX", "environ", "env",
        "DEPEND", "repository", "REPO", "a", "", "k e y", "x/y", "-", "~!@#$%^&*()", "K" * 40, "CONTENTS", "XPAKSTOP"]
CPS = [0x41, 0x7A, 0x20, 0x0A, 0x00, 0x7F, 0x80, 0xE9, 0x7FF, 0x800, 0x20AC, 0xD7FF, 0xE000, 0xFFFF, 0x10000, 0x1F600, 0x10FFFF]
MAGICS = [b"XPAKSTOP", b"STOP", b"XPAKPACK", b"XPAKSTOP\x00\x00\x00\x18STOP", b"XPAKPACK\x00\x00\x00\x00\x00\x00\x00\x00"]


def rand_mapping(r_, size_hint):
    n = r_.choice([0, 1, 1, 2, 3, 5, 8]) if size_hint is None else size_hint
    keys = r_.sample(KEYS, min(n, len(KEYS)))
    items = []
    for k in keys:
        ln = r_.choice([0, 1, 2, 5, 17, 40])
        env = k.startswith("environment")
        if r_.random() < (0.7 if env else 0.15):
            if env:
                units = [r_.randrange(256) for _ in range(ln)]          # arbitrary binary
            else:
                units = list("".join(chr(r_.choice(CPS)) for _ in range(ln)).encode("utf8"))  # bytes that are text
            items.append(dict(key=[ord(c) for c in k], kind="bytes", units=units))
        else:
            items.append(dict(key=[ord(c) for c in k], kind="text", units=[r_.choice(CPS) for _ in range(ln)]))
    return items


def rand_prefix(r_, tbz2):
    kind = r_.randrange(6)
    if kind == 0:
        return b""
    if kind == 1:
        return bytes(r_.randrange(256) for _ in range(r_.choice([1, 3, 15, 16, 17, 31, 32, 33, 70])))
    if kind == 2:
        return tbz2
    if kind == 3:  # ends in / contains look-alike magic, but is no segment
        return bytes(r_.randrange(256) for _ in range(r_.randrange(0, 30))) + r_.choice(MAGICS)
    if kind == 4:
        return r_.choice(MAGICS) + bytes(r_.randrange(256) for _ in range(r_.randrange(0, 30)))
    return tbz2 + r_.choice(MAGICS) + tbz2[:7]


def run(ck):
    use_repo()
    from pkgcore.binpkg.xpak import Xpak

    ck.rule = ("histories of write_xpak on one file: (prefix, initial segment or none, 1..7 rewrites); chosen exhaustively by TLC "
               "over the Xpak_Universe (spec-written initial segments) and by a seeded random generator; non-trivial = distinct "
               "history with at least one rewrite that shrinks or grows the segment of a file that already had one")
    ck.assumptions = ["the prefix (tarball) is opaque bytes and does not itself end in a complete valid segment",
                      "keys are distinct ASCII strings other than 'repo'; text values are valid unicode without surrogates",
                      "files exist before write_xpak is called; sizes < 2^24"]
    root = mktmp("c26")
    rn = Runner(Xpak, root)

    if ck.replay_case:
        d = ck.replay_case["detail"]
        events = rn.history(0, d["file"], d["hist"], foreign=d.get("foreign", False), init=d.get("init", []))
        ck.count()
        ck.sample(dict(file_len=len(d["file"]), rewrites=len(d["hist"])))
        ck.nontriv("replay")
        ck.nontriv("replay2")
        _judge(ck, {0: d}, events, "Trace:replay")
        return

    # 1. the design
    # (the constant-level laws of Xpak_Laws are evaluated in the same TLC run as the export below)
    nrew = ck.pick(2, 4)
    ck.mc("Xpak_MC", cfg_text=MC_CFG.format(variant="truncate", n=nrew), workers=ck.pick(2, 4), timeout=ck.pick(200, 800),
          label=f"MC:Xpak_MC truncate MaxRewrites={nrew}")
    bad = ck.mc("Xpak_MC", cfg_text=MC_CFG.format(variant="notrunc", n=2), workers=2, timeout=300, expect_ok=False,
                label="MC:Xpak_MC notrunc (must violate)")
    if bad.violated not in ("PrefixLocated", "ReplacedEntirely", "ReadsBack", "RewriteIsSpec"):
        raise tlc.MachineryError(f"Xpak_MC: the variant without truncate no longer violates (got {bad.violated}): vacuous model?")

    # 2. spec -> code
    cases = ck.export("Xpak_Export", timeout=600, label="Laws+Export:Xpak_Laws/_Export")
    step = ck.pick(9, 1)
    cases.sort(key=lambda c: (len(c["file"]), repr(c)))
    chosen = cases[::step]
    ck.exhaustive = step == 1
    events, meta = [], {}
    for tid, c in enumerate(chosen):
        evs = rn.history(tid, c["file"], c["hist"], foreign=c["hasinit"], init=c["init"])
        events += evs
        meta[tid] = dict(file=c["file"], hist=c["hist"], foreign=c["hasinit"], init=c["init"], direction="spec->code")
        ck.count()
        if c["hasinit"] or len(c["hist"]) > 1:
            ck.nontriv(("exp", repr(c)))
    ck.sample(dict(direction="spec->code", file=chosen[len(chosen) // 2]["file"], hist=chosen[len(chosen) // 2]["hist"]))

    # 3. code -> spec
    r_ = rng(26)
    from pkgcore.fs import contents, tar

    tb = os.path.join(root, "empty.tbz2")
    tar.write_set(contents.contentsSet(), tb, compressor="bz2")
    with open(tb, "rb") as f:
        tbz2 = f.read()
    base = len(chosen)
    for tid in range(base, base + ck.pick(120, 1000)):
        prefix = rand_prefix(r_, tbz2)
        hist = []
        for k in range(r_.randint(2, 7)):
            # alternate big / small so that segments really grow and shrink
            hist.append(rand_mapping(r_, None if r_.random() < 0.5 else r_.choice([0, 1, 8])))
        evs = rn.history(tid, list(prefix), hist)
        events += evs
        meta[tid] = dict(file=list(prefix), hist=hist, foreign=False, init=[], direction="code->spec")
        ck.count()
        ck.nontriv(("rnd", tid, len(prefix), tuple(len(m) for m in hist)))
        if tid == base:
            ck.sample(dict(direction="code->spec", prefix_len=len(prefix), hist=hist[:2]))
    _judge(ck, meta, events, "Trace:exported+random histories")


def _judge(ck, meta, events, label):
    # keep TLC batches moderate: raw byte arrays make events big
    by_tid = {}
    for e in events:
        by_tid.setdefault(e["tid"], []).append(e)
    batch, size = [], 0
    batches = []
    for tid in sorted(by_tid):
        batch += by_tid[tid]
        size += sum(len(e.get("after", e.get("file", []))) for e in by_tid[tid])
        if size > 250_000:
            batches.append(batch)
            batch, size = [], 0
    if batch:
        batches.append(batch)
    for n, b in enumerate(batches):
        verdicts = ck.trace("Xpak_Trace", b, label=f"{label}#{n}", timeout=800)
        idx = {(e["tid"], e["i"]): e for e in b}
        for v in verdicts:
            e = idx[(v["tid"], v["i"])]
            if v["clause"] == "OutsideDomain":
                raise tlc.MachineryError(f"generator left the property's domain: {e.get('m')}")
            m = meta[v["tid"]]
            d = dict(file=m["file"], hist=m["hist"][: max(e["i"], 1)], foreign=m["foreign"], init=m["init"], step=e["i"],
                     direction=m["direction"], raised=e.get("raised", ""),
                     keys=["".join(map(chr, it["key"])) for it in e.get("m", [])], after_len=len(e.get("after", [])))
            ck.violation(v["clause"], d)
