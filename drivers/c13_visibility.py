"""C13 — package visibility follows mask, keyword and licence configuration.

Spec        : specs/Visibility.tla — Visible = MaskOK /\\ KeywordOK /\\ LicenseOK over a configuration record
              (repository masks, profile nodes, make.conf, the user's package.* files, licence groups); the
              incremental parts are Incremental!Fold / FoldLicense / Flat.
MC          : Visibility_Laws (the alternatives of a licence tree are its DNF: every tree of depth <= 2 over three
              licences x every accepted set) and Visibility_MC (a configuration under edit: invariants in every
              reachable configuration, monotonicity laws as an action property on every edit).
spec -> code: Visibility_MC run with -simulate chooses configurations; each is written to disk (profile stack,
              config dir, licence_groups) and a real domain + fake repository is built over it.
code -> spec: seeded random configurations AND random repositories (keywords, licence trees, group files).
For every package the mask-only filter, the keyword filter, the licence filter and membership in
domain.filter_repo(repo) are observed and judged by Visibility_Trace (clauses Mask, Keywords, License, Visible).

Carve-outs (kept out by the generators, checked by InDomain in the trace spec):
  * package.accept_keywords entries hold positive tokens only; the global ACCEPT_KEYWORDS holds concrete
    keywords (the property names ** / * / ~* for entries; pkgcore only reads them from the global variable when
    some entry exists) and negations; ARCH is a stable keyword and always accepted, ~k accepts k;
  * a profile node never masks and un-masks (or adds and removes) the same atom in one file;
  * ACCEPT_LICENSE is never empty (pkgcore installs no licence filter at all then) and holds no incomplete token;
  * LICENSE without USE conditionals and without empty groups; profile package.keywords is not used.
"""
import os

from pylib import tlc
from pylib.common import mktmp, rng, use_repo

PKGS = {"a1": "cat/a-1", "a2": "cat/a-2", "b1": "cat/b-1", "c1": "dog/c-1"}
SCOPES = {"glob": "*/*", "cat_cat": "cat/*", "cat_dog": "dog/*", "any_a": "cat/a", "eq_a1": "=cat/a-1",
          "ge_a2": ">=cat/a-2", "any_b": "cat/b", "any_c": "dog/c"}
ATOMS = ["any_a", "eq_a1", "ge_a2", "any_b", "any_c"]
INVS = "InvDomain InvMasked InvAnyKw InvNoKw InvDirect InvStarLast".split()


def text(t):
    body = "*" if t["kind"] == "star" else ("@" + t["name"] if t["kind"] == "group" else t["name"])
    return ("-" if t["neg"] else "") + body


def lic_text(t, top=True):
    if t["k"] == "lic":
        return t["name"]
    inner = " ".join(lic_text(x, False) for x in t["kids"])
    if t["k"] == "any":
        return f"|| ( {inner} )"
    return inner if top else f"( {inner} )"


_n = [0]


def observe(cfg):
    """Write cfg to disk, build the real domain and repository, observe the four decisions per package."""
    import types

    from pkgcore.ebuild import domain as domain_mod
    from pkgcore.ebuild import profiles
    from pkgcore.ebuild.atom import atom
    from pkgcore.ebuild.repo_objs import Licenses
    from pkgcore.test.misc import FakePkg, FakeRepo

    _n[0] += 1
    top = mktmp(f"vis{_n[0]}")
    conf, root, base, rdir = (os.path.join(top, x) for x in ("conf", "root", "profiles", "repo"))
    for d in (conf, root, base, os.path.join(rdir, "profiles")):
        os.makedirs(d)
    with open(os.path.join(rdir, "profiles", "license_groups"), "w") as f:
        for g in cfg["repo"]["defs"]:
            f.write(" ".join([g["name"]] + [("@" if m["ref"] else "") + m["name"] for m in g["members"]]) + "\n")
    names = []
    for k, n in enumerate(cfg["nodes"]):
        d = os.path.join(base, f"p{k}")
        os.makedirs(d)
        names.append(f"p{k}")
        md = ""
        if not n["parents"]:
            md += f'ARCH="{cfg["arch"]}"\n'
        else:
            with open(os.path.join(d, "parent"), "w") as f:
                f.write("".join(f"../p{j - 1}\n" for j in n["parents"]))  # parents are 1-based node indices
        if n["akw"]:
            md += f'ACCEPT_KEYWORDS="{" ".join(text(t) for t in n["akw"])}"\n'
        if n["alic"]:
            md += f'ACCEPT_LICENSE="{" ".join(text(t) for t in n["alic"])}"\n'
        with open(os.path.join(d, "make.defaults"), "w") as f:
            f.write(md)
        for fname, key in (("package.mask", "mask"), ("package.unmask", "unmask")):
            if n[key]["neg"] or n[key]["pos"]:
                with open(os.path.join(d, fname), "w") as f:
                    f.write("".join(f"-{SCOPES[s]}\n" for s in n[key]["neg"]) + "".join(f"{SCOPES[s]}\n" for s in n[key]["pos"]))
        if n["pakw"]:
            with open(os.path.join(d, "package.accept_keywords"), "w") as f:
                f.write("".join(" ".join([SCOPES[e["sc"]]] + [text(t) for t in e["toks"]]) + "\n" for e in n["pakw"]))
    u = cfg["user"]
    for fname, scs in (("package.mask", u["mask"]), ("package.unmask", u["unmask"])):
        if scs:
            with open(os.path.join(conf, fname), "w") as f:
                f.write("".join(SCOPES[s] + "\n" for s in scs))
    for fname, ents in (("package.accept_keywords", u["pakw"]), ("package.license", u["plic"])):
        if ents:
            with open(os.path.join(conf, fname), "w") as f:
                f.write("".join(" ".join([SCOPES[e["sc"]]] + [text(t) for t in e["toks"]]) + "\n" for e in ents))
    repo = FakeRepo(repo_id="fake", location=rdir, licenses=Licenses(types.SimpleNamespace(location=rdir)),
                    pkg_masks=frozenset(atom(SCOPES[s]) for s in cfg["repo"]["masks"]), supported=True)
    pkgs = {}
    for p in cfg["pkgs"]:
        pkg = FakePkg(PKGS[p["id"]], data={"LICENSE": lic_text(p["lic"])}, repo=repo)
        object.__setattr__(pkg, "keywords", tuple(p["kws"]))
        pkgs[p["id"]] = pkg
    repo.pkgs = list(pkgs.values())
    dom = domain_mod.domain(profiles.OnDiskProfile(base, names[-1]),
                            [types.SimpleNamespace(instantiate=lambda: repo, name="fake")], [], ROOT=root, config_dir=conf,
                            ACCEPT_KEYWORDS=" ".join(text(t) for t in cfg["conf"]["akw"]),
                            ACCEPT_LICENSE=" ".join(text(t) for t in cfg["conf"]["alic"]))
    visible = {id(x) for x in dom.filter_repo(repo)}
    unmasked = {id(x) for x in dom.filter_repo(repo, pkg_filters=())}
    filters = dom._pkg_filters()
    obs = []
    for pid, pkg in pkgs.items():
        obs.append(dict(pkg=pid, mask=id(pkg) in unmasked, kw=bool(filters[0].match(pkg)),
                        lic=bool(filters[1].match(pkg)) if len(filters) > 1 else True, visible=id(pkg) in visible))
    return obs


# ---- conversion of a TLC-printed configuration into the trace's JSON shape ------------------------
def from_tla(c):
    def np(x):
        return dict(neg=sorted(x["neg"]), pos=sorted(x["pos"]))

    return dict(
        arch=c["arch"],
        nodes=[dict(parents=list(n["parents"]), akw=n["akw"], alic=n["alic"], mask=np(n["mask"]), unmask=np(n["unmask"]), pakw=n["pakw"]) for n in c["nodes"]],
        conf=c["conf"],
        user=dict(mask=sorted(c["user"]["mask"]), unmask=sorted(c["user"]["unmask"]), pakw=c["user"]["pakw"], plic=c["user"]["plic"]),
        repo=dict(masks=sorted(c["repo"]["masks"]),
                  defs=[dict(name=g, members=sorted(m, key=lambda z: (z["ref"], z["name"]))) for g, m in sorted(c["repo"]["defs"].items())]),
        pkgs=[dict(id=p, kws=sorted(v["kws"]), lic=v["lic"]) for p, v in sorted(c["pkgs"].items())],
    )


# ---- random configurations (inputs only) ---------------------------------------------------------
def T(neg, kind, name):
    return dict(neg=neg, kind=kind, name=name)


def M(ref, name):
    return dict(ref=ref, name=name)


LICS = ["l1", "l2", "l3"]


def rand_tree(r_, depth=0):
    def leaf():
        return dict(k="lic", name=r_.choice(LICS), kids=[])

    def node(d):
        if d >= 2 or r_.random() < 0.55:
            return leaf()
        return dict(k=r_.choice(["all", "any"]), name="", kids=[node(d + 1) for _ in range(r_.randint(1, 3))])

    return dict(k="all", name="", kids=[node(0) for _ in range(r_.randint(0, 3))])


def rand_kw_stream(r_, n):
    out = []
    for _ in range(r_.randint(0, n)):
        z = r_.random()
        if z < 0.08:
            out.append(T(True, "star", ""))
        else:
            out.append(T(r_.random() < 0.3, "flag", r_.choice(["amd64", "x86", "~amd64", "~x86"])))
    return out


def rand_lic_tok(r_):
    z = r_.random()
    if z < 0.18:
        return T(r_.random() < 0.5, "star", "")
    if z < 0.50:
        return T(r_.random() < 0.45, "group", r_.choice(["g", "g", "h", "k", "nowhere"]))
    return T(r_.random() < 0.4, "flag", r_.choice(LICS))


def rand_node_alic(r_):
    """A profile node's ACCEPT_LICENSE: often "accept a lot, then take something back"."""
    z = r_.random()
    if z < 0.3:
        return []
    if z < 0.65:
        head = r_.choice([T(False, "star", ""), T(False, "group", "g"), T(False, "group", "h")])
        tail = [r_.choice([T(True, "flag", r_.choice(LICS)), T(True, "group", r_.choice(["g", "h", "k"]))]) for _ in range(r_.randint(1, 2))]
        return [head] + tail
    return [rand_lic_tok(r_) for _ in range(r_.randint(1, 3))]


def rand_kws(r_, arch):
    z = r_.random()
    if z < 0.25:
        return ["~" + arch]
    if z < 0.4:
        return [arch]
    if z < 0.5:
        return []
    return sorted({k for k in ["amd64", "x86", "~amd64", "~x86", "-amd64", "-*"] if r_.random() < 0.3})


def rand_np(r_, p):
    neg, pos = [], []
    for s in ATOMS:
        z = r_.random()
        if z < p:
            neg.append(s)
        elif z < 2.2 * p:
            pos.append(s)
    return dict(neg=neg, pos=pos)


def rand_kw_entry(r_, scopes):
    toks = r_.choice([[], [], [T(False, "flag", "~amd64")], [T(False, "flag", "**")], [T(False, "star", "")], [T(False, "flag", "~*")],
                      [T(False, "flag", "~x86")], [T(False, "flag", "x86"), T(False, "flag", "~x86")], [T(False, "flag", "amd64")]])
    return dict(sc=r_.choice(scopes), toks=toks)


def rand_defs(r_):
    """license_groups: up to three levels of nesting (g -> h -> k), unknown references, lines in any order."""
    later = {"g": ["h", "k", "nowhere"], "h": ["k", "nowhere"], "k": ["nowhere"]}
    defs = []
    for g in ("g", "h", "k"):
        if r_.random() < 0.2:
            continue
        mem = [M(False, x) for x in LICS if r_.random() < 0.3] + [M(True, x) for x in later[g] if r_.random() < 0.45]
        defs.append(dict(name=g, members=mem or [M(False, r_.choice(LICS))]))
    if not defs:
        defs = [dict(name="h", members=[M(False, "l2")])]
    r_.shuffle(defs)
    return defs


def rand_parents(r_, k):
    """Parents (1-based indices of earlier nodes) of node k: chains, forks and diamonds."""
    if k == 1:
        return []
    n = 1 if r_.random() < 0.55 else 2
    return r_.sample(range(1, k), min(n, k - 1))


def rand_cfg(r_):
    defs = rand_defs(r_)
    arch = r_.choice(["amd64", "x86"])
    pkgs = [dict(id=p, kws=rand_kws(r_, arch), lic=rand_tree(r_)) for p in sorted(PKGS)]
    nodes = [dict(parents=rand_parents(r_, k), akw=rand_kw_stream(r_, 2), alic=rand_node_alic(r_), mask=rand_np(r_, 0.12),
                  unmask=rand_np(r_, 0.08), pakw=[rand_kw_entry(r_, ATOMS) for _ in range(r_.randint(0, 2))])
             for k in range(1, r_.randint(1, 4) + 1)]
    scs = sorted(SCOPES)
    return dict(
        arch=arch, nodes=nodes,
        conf=dict(akw=rand_kw_stream(r_, 3), alic=[rand_lic_tok(r_) for _ in range(r_.randint(1, 4))]),
        user=dict(mask=sorted({s for s in scs if r_.random() < 0.12}), unmask=sorted({s for s in scs if r_.random() < 0.12}),
                  pakw=[rand_kw_entry(r_, scs) for _ in range(r_.randint(0, 3))],
                  plic=[dict(sc=r_.choice(scs), toks=[rand_lic_tok(r_) for _ in range(r_.randint(1, 3))]) for _ in range(r_.randint(0, 3))]),
        repo=dict(masks=sorted({s for s in ATOMS if r_.random() < 0.15}), defs=defs), pkgs=pkgs)


def mc_cfg(n, rich, ks, scopes, sim=False):
    sc = "{" + ", ".join(f'"{x}"' for x in scopes) + "}"
    head = (f"SPECIFICATION {'SimSpec' if sim else 'Spec'}\nCONSTANT N = {n}\nCONSTANT Rich = {'TRUE' if rich else 'FALSE'}\n"
            f"CONSTANT Ks = {{{', '.join(map(str, ks))}}}\nCONSTANT MCScopes = {sc}\nCONSTRAINT Bound\n")
    if sim:
        return head + "INVARIANT Emit\n"
    return head + "".join(f"INVARIANT {i}\n" for i in INVS) + "PROPERTY EditLaws\n"


def run(ck):
    use_repo()
    import logging

    logging.getLogger("pkgcore").setLevel(logging.CRITICAL)
    for v in ("ACCEPT_KEYWORDS", "ACCEPT_LICENSE", "USE", "FEATURES"):
        os.environ.pop(v, None)
    ck.rule = ("configurations = repository masks + a profile inheritance graph of 1-4 nodes, forks and diamonds included (ACCEPT_KEYWORDS/ACCEPT_LICENSE, package.mask/unmask, "
               "package.accept_keywords) + make.conf + the user's package.mask/unmask/accept_keywords/license + licence groups, "
               "chosen by TLC simulation of Visibility_MC and by a seeded generator (which also draws keywords and licence trees "
               "of the 4 packages); every package of every configuration is one evaluation; non-trivial = distinct "
               "(configuration, package) where at least one of the three conditions is false or an unmask/entry/group applies")
    ck.assumptions = [
        "scope names are rendered into atoms / globs by the driver; which package a scope matches is the table in Visibility.tla",
        "ARCH is always accepted and accepting ~k accepts k (Gentoo semantics, as domain._pkg_filters does)",
        "packages are FakePkg objects of a FakeRepo carrying a real Licenses manager; the domain is a real ebuild domain over an on-disk profile stack",
    ]
    if ck.replay_case:
        cfgs = [ck.replay_case["detail"]["cfg"]]
    else:
        ck.laws("Visibility_Laws", label="Laws:Visibility_Laws (DNF of licence trees)", timeout=ck.pick(1500, 10800))
        if ck.quick:
            ck.mc("Visibility_MC", cfg_text=mc_cfg(2, False, [2], ["any_a"]), workers=4, timeout=ck.pick(1500, 10800), label="MC:Visibility_MC N=2 1 scope")
        else:
            ck.mc("Visibility_MC", cfg_text=mc_cfg(2, False, [1, 2], ["glob", "any_a", "eq_a1", "cat_dog"]), workers=4, timeout=10800,
                  label="MC:Visibility_MC N=2 4 scopes 2 nodes")
            ck.mc("Visibility_MC", cfg_text=mc_cfg(3, False, [2], ["any_a"]), workers=4, timeout=10800, label="MC:Visibility_MC N=3 1 scope")
        D = ck.pick(7, 10)
        from pylib.common import seed

        sim = tlc.run("Visibility_MC", cfg_text=mc_cfg(D, True, [1, 2], sorted(SCOPES), sim=True), simulate=f"num={ck.pick(6, 60)}",
                      depth=2 * D + 2, seed=seed() + 13, workers=1, timeout=ck.pick(1500, 10800))
        ck.add_mc(f"Simulate:Visibility_MC edits={D}", sim)
        found = [p[1] for p in sim.tagged("CFG")]
        want = ck.pick(100, 1500)
        if len(found) < want // 2:
            raise tlc.MachineryError(f"simulation produced only {len(found)} configurations\n{sim.out[-1500:]}")
        r_ = rng(13)
        r_.shuffle(found)
        cfgs = [from_tla(c) for c in found[:want]]
        ck.sample(dict(direction="spec->code", cfg=cfgs[0]))
        cfgs += [rand_cfg(r_) for _ in range(ck.pick(300, 4000))]
    events = []
    for n, cfg in enumerate(cfgs):
        obs = observe(cfg)
        events.append(dict(tid=n, i=0, cfg=cfg, obs=obs))
        for o in obs:
            ck.count()
            if not (o["mask"] and o["kw"] and o["lic"]) or cfg["user"]["unmask"] or cfg["user"]["pakw"] or cfg["user"]["plic"]:
                ck.nontriv(("v", n, o["pkg"]))
    ck.sample(dict(direction="code->spec", cfg=events[-1]["cfg"], obs=events[-1]["obs"]))
    STEP = 1500
    for lo in range(0, len(events), STEP):
        part = events[lo:lo + STEP]
        for v in ck.trace("Visibility_Trace", part, label=f"Trace:Visibility_Trace[{lo}:{lo + len(part)}]", timeout=ck.pick(1500, 10800)):
            e = events[v["tid"]]
            if v["clause"] == "OutsideDomain":
                raise tlc.MachineryError(f"generator left the property's domain: {e['cfg']}")
            ck.violation(v["clause"], dict(cfg=e["cfg"], observed=e["obs"]))
