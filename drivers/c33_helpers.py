"""C33 — install helpers create exactly the image entries PMS prescribes.

Laws        : Helpers_Laws — RelTarget (reference for `dosym -r`) resolves to the requested target, is
              canonical, shortest and never leaves the image, for ALL path pairs up to MaxLen components over
              {a, b, "..", ".", ""}; Norm idempotent; the repository's own pinned examples.
MC          : Helpers_MC — src_install histories (destination commands + helper calls) over a tiny working
              directory for EAPI 3 and 8: TreeShape, JudgeAcceptsReference (the judge used on the real code
              accepts the reference result), Idempotent, UnderDestination, ModesRequested.
spec -> code: Helpers_Export enumerates the scripts of Helpers_Cases (helper x EAPI x destination state x
              argument vectors x options).  Each script is run for real: a bash process sources the real ebd
              libraries (into/insinto/... are the real functions, defaults come from the real
              __phase_pre_src_install) and calls the real helper executables found through the real
              eapi.helpers PATH; they talk over pipes to the real EbuildProcessor.generic_handler /
              IpcCommand objects driven by the real run_generic_phase.  After every helper the script reports
              its exit status over the same channel and the image directory is listed.
code -> spec: seeded random working directories / destination states / EAPIs / calls (1-4 calls per script).
              Both directions include modes with set-uid/set-gid/sticky bits combined with -o/-g options for
              insopts/exeopts/diropts/libopts, and `dosym -r` pairs whose directory names are string prefixes of
              sibling names (lib/lib64, doc/doc-extra); the families tagged "all-*" are replayed in every tier.
              Further "all-*" families: several calls to the same helper object with identical and with changing
              options incl. symbolic modes (external `install`), a failing call followed by valid ones, doman -i18n
              with suffixed and unsuffixed pages of one base name, and scripts run under umask 077 (the script's
              umask applies to both the bash and the python side; PMS modes are absolute).
Both are judged by Helpers_Trace with the placement functions of Helpers.tla: RejectForbidden, AcceptValid,
Missing, MissingKeepFile, Extra, Kind, ImpliedDir, Mode, Content, LinkText, RelativeLink, HardLink, Frame.

Carve-outs (status "unspec" in Helpers.tla, counted in the evidence, never judged): doins/doexe before
insinto/exeinto was called; symlink arguments to doins before EAPI 4; dodoc -r given only files before EAPI 4;
doman -i18n before EAPI 4; dohtml after docinto; dosym -r with a relative source; dohard of something that is
not in the image; calls that need a non-directory to be a directory (or the reverse) in the current image.
Not modelled: ownership (checks run as root), multi-character man sections (man3pm), compressed man pages,
dohtml -a/-f/-x/-p, libdir other than "lib" (no ABI set), EAPI 9 (disabled on this image: bash < 5.3).
"""
import os
import shlex
import shutil
import stat
import subprocess

import zlib

from pylib import tlc
from pylib.common import rng, use_repo

from drivers import c32_ipcreply as base

SRC_LIBS = ("exit-handling.bash", "ebuild-daemon-lib.bash", "isolated-functions.bash")


def abs_text(comps, trailing=False):
    return "/" + "/".join(comps) + ("/" if trailing and comps else "")


# --------------------------------------------------------------------------- rendering a script
def item_arg(it, slash=False):
    return "/".join(list(it["pre"]) + [it["name"]]) + ("/" if slash else "")


def dir_slash(h, a, it):
    """Rendering variation only (the abstract item is the same directory): every other directory argument of a
    recursive call is written with a trailing slash, `doins -r conf/` (seeded change C33/m5)."""
    return bool(a["rec"]) and it["kind"] == "dir" and zlib.crc32(f"{h}|{it['name']}|{len(a['items'])}".encode()) % 2 == 0


def render_call(h, a):
    argv = [h]
    if h in ("dodir", "keepdir"):
        argv += [abs_text(d) for d in a["dirs"]]
    elif h == "dosym":
        if a["rel"]:
            argv.append("-r")
        argv += [a["srctext"], abs_text(a["tgt"], a["tgtslash"])]
    elif h == "dohard":
        argv += [a["srctext"], abs_text(a["tgt"])]
    else:
        if a["rec"]:
            argv.append("-r")
        if a["i18n"]:
            argv.append("-i18n=" + a["i18n"])
        if a["hx"]:
            argv += ["-A", ",".join(a["hx"])]
        argv += [item_arg(it, dir_slash(h, a, it)) for it in a["items"]]
    return " ".join(shlex.quote(x) for x in argv)


def render_script(case, ebd_path):
    out = [f'source "{ebd_path}/{x}" || exit 97' for x in SRC_LIBS]
    out += [f'source "{ebd_path}/eapi/depend.bash" >&2 || exit 97', f'source "{ebd_path}/eapi/common.bash" >&2 || exit 97',
            f'source "{ebd_path}/eapi/0/src_install.bash" || exit 97',
            "__phase_pre_phase() { :; }",  # (cd ${S} and S/WORKDIR policy: not part of this property)
            "__phase_pre_src_install",
            'cd "${S}" || exit 97',
            "export PKGCORE_NONFATAL=true",
            'vstep() { "$@"; local rc=$? x; __ebd_write_line "verif_step ${rc}"; __ebd_read_line x; }']
    for s in case["steps"]:
        if s["op"] == "call":
            out.append("vstep " + render_call(s["h"], s["a"]))
        elif s["op"] in ("into", "insinto", "exeinto", "docinto"):
            p = s["path"]
            text = "/".join(p) if s["op"] == "docinto" and p else abs_text(p)
            out.append(f"{s['op']} {shlex.quote(text)}")
        else:
            own = s.get("own", "")
            mode = "-m " + shlex.quote(s["text"]) if s.get("text") else f"-m{s['mode']:04o}"
            out.append(f"{s['op']} {mode}" + (" -o0" if "o" in own else "") + (" -g0" if "g" in own else ""))
    return "\n".join(out) + "\n"


# --------------------------------------------------------------------------- the working directory
def materialise(case, cwd, r_=None):
    groups = [case["world"]] if case.get("world") else [s["a"]["items"] for s in case["steps"] if s["op"] == "call"]
    for items in groups:
        for it in items:
            d = os.path.join(cwd, *it["pre"])
            os.makedirs(d, exist_ok=True)
            p = os.path.join(d, it["name"])
            if it["kind"] == "file":
                _write(p, it["cid"], r_)
            elif it["kind"] == "sym":
                if not os.path.lexists(p):
                    os.symlink(it["lnk"], p)
            elif it["kind"] == "dir":
                os.makedirs(p, exist_ok=True)
                for t in it["tree"]:
                    q = os.path.join(p, *t["rel"])
                    os.makedirs(os.path.dirname(q), exist_ok=True)
                    if t["kind"] == "file":
                        _write(q, t["cid"], r_)
                    elif t["kind"] == "dir":
                        os.makedirs(q, exist_ok=True)
                    elif not os.path.lexists(q):
                        os.symlink(t["lnk"], q)


def _write(p, text, r_):
    with open(p, "w") as f:
        f.write(text)
    os.chmod(p, r_.choice([0o644, 0o600, 0o755, 0o444]) if r_ else 0o644)


def list_image(root):
    out = []
    for dp, dn, fn in os.walk(root):
        for n in dn + fn:
            p = os.path.join(dp, n)
            st = os.lstat(p)
            rel = os.path.relpath(p, root).split(os.sep)
            kind = "dir" if stat.S_ISDIR(st.st_mode) else "sym" if stat.S_ISLNK(st.st_mode) else "file" if stat.S_ISREG(st.st_mode) else "other"
            e = dict(path=rel, kind=kind, mode=stat.S_IMODE(st.st_mode), cid="", lnk="", lnkabs=False, lnkc=[], keep=n.startswith(".keep"),
                     ino=str(st.st_ino))
            if kind == "file":
                with open(p, "rb") as f:
                    e["cid"] = f.read(300).decode("utf-8", "replace")
            elif kind == "sym":
                t = os.readlink(p)
                e["lnk"] = t
                e["lnkabs"] = t.startswith("/")
                e["lnkc"] = t.split("/")
            out.append(e)  # (symlinks to directories are reported in dn by os.walk and not followed)
    out.sort(key=lambda e: e["path"])
    return out


# --------------------------------------------------------------------------- running one script for real
class Runner:
    def __init__(self):
        from pkgcore import const as p_const
        from pkgcore.ebuild import const as e_const
        from pkgcore.ebuild.eapi import get_eapi

        self.ebd_path = e_const.EBD_PATH
        self.get_eapi = get_eapi
        self.forced = list(p_const.PATH_FORCED_PREPEND)
        self.n = 0

    def env_for(self, eapi, world):
        E = self.get_eapi(str(eapi))
        path = self.forced + list(E.helpers.get("global", ())) + list(E.helpers.get("src_install", ())) + os.environ.get("PATH", "").split(os.pathsep)
        env = {k: v for k, v in os.environ.items() if k in ("HOME", "LANG", "LC_ALL", "TERM", "USER")}
        env.update(E.ebd_env)
        env.update(PATH=os.pathsep.join(path), PKGCORE_EBD_PATH=self.ebd_path, D=os.path.join(world, "I") + "/", S=os.path.join(world, "S"),
                   WORKDIR=world, T=world, PF="pn-1", P="pn-1", PN="pn", PV="1", PVR="1", CATEGORY="cat", SLOT="0", EBUILD_PHASE="install",
                   PKGCORE_PREFIX_SUPPORT="false", PKGCORE_DEBUG="0", NOCOLOR="true", NO_COLOR="1")
        return env

    def run(self, tid, case, events, r_=None):
        """Execute the script; append one event per executed step."""
        from pkgcore.ebuild import ebd as ebd_mod

        self.n += 1
        world = os.path.join(base.scratch(), f"h{self.n}")
        os.makedirs(os.path.join(world, "S"))
        materialise(case, os.path.join(world, "S"), r_)
        image = os.path.join(world, "I")
        op = base.Op(world, str(case["eapi"]))
        r1, w1 = os.pipe()  # bash -> python
        r2, w2 = os.pipe()  # python -> bash
        env = self.env_for(case["eapi"], world)
        env.update(PKGCORE_EBD_READ_FD=str(r2), PKGCORE_EBD_WRITE_FD=str(w1))
        script = render_script(case, self.ebd_path)
        umask0 = os.umask(case.get("umask", 0o022))  # both sides of the phase run under the script's umask
        proc = subprocess.Popen(["bash", "-c", script], env=env, pass_fds=(r2, w1), stdin=subprocess.DEVNULL, stdout=subprocess.PIPE,
                                stderr=subprocess.STDOUT, cwd=world)
        os.close(r2)
        os.close(w1)
        log = []
        ebp = base.make_processor(log)
        rf = os.fdopen(r1, "rb")
        wf = os.fdopen(w2, "w")

        class Rd:
            def readline(self):
                line = rf.readline()
                return line if line else b"phases succeeded\n"

        class Wr:
            def write(self, s):
                try:
                    wf.write(s)
                except (BrokenPipeError, ValueError):
                    pass

            def flush(self):
                try:
                    wf.flush()
                except (BrokenPipeError, ValueError):
                    pass

        ebp.ebd_read, ebp.ebd_write = Rd(), Wr()
        results = []  # (rc, image listing) per finished call

        def verif_step(e, arg=""):
            results.append((int(arg.strip() or "-1"), list_image(image)))
            e.write("ok")

        handlers = dict(op._ipc_helpers)
        handlers["verif_step"] = verif_step
        saved = ebd_mod.request_ebuild_processor, ebd_mod.release_ebuild_processor
        ebd_mod.request_ebuild_processor = lambda **kw: ebp
        ebd_mod.release_ebuild_processor = lambda e: None
        cwd0 = os.getcwd()
        died = ""
        try:
            ebd_mod.run_generic_phase(op.pkg, "install", {"T": world}, False, False, extra_handlers=handlers)
        except Exception as ex:  # a helper died / internal failure: the phase is over
            died = type(ex).__name__
        finally:
            ebd_mod.request_ebuild_processor, ebd_mod.release_ebuild_processor = saved
            os.chdir(cwd0)
            os.umask(umask0)
            for f in (wf, rf):
                try:
                    f.close()
                except OSError:
                    pass
        try:
            out = proc.communicate(timeout=60)[0]
        except subprocess.TimeoutExpired:
            proc.kill()
            out = proc.communicate()[0]
            raise tlc.MachineryError(f"helper script hung: {case}\n{out[-1500:]}")
        if proc.returncode == 97:
            raise tlc.MachineryError(f"helper script could not be set up:\n{out.decode(errors='replace')[-2000:]}")
        ncall = 0
        i = 0
        for s in case["steps"]:
            i += 1
            ev = dict(tid=tid, i=i, eapi=case["eapi"], pf="pn-1", pn="pn", op=s["op"], path=s["path"], mode=s["mode"], own=s.get("own", ""), text=s.get("text", ""), h=s["h"], a=s["a"],
                      rc=0, img=[], died="")
            if s["op"] == "call":
                if ncall < len(results):
                    ev["rc"], ev["img"] = results[ncall]
                    ncall += 1
                    events.append(ev)
                else:  # this call ended the phase (die / internal failure): status unknown but not success
                    ev["rc"], ev["img"], ev["died"] = -1, list_image(image) if os.path.isdir(image) else [], died or "died"
                    events.append(ev)
                    break
            else:
                events.append(ev)
        shutil.rmtree(world, ignore_errors=True)
        return out


# --------------------------------------------------------------------------- random scripts (code -> spec)
NAMES = ["a.txt", "b.c", "my file", "x+y.so", "lib-1.2.a", "README", "n.html", "p.png", "s.css", "t.xml", "Makefile", "run.sh"]
DIRN = ["sub", "d 1", "inc", "deep", "e"]
COMPS = ["opt", "usr", "etc", "var", "x", "lib", "lib64", "share", "foo-1", "k", "kk", "doc", "doc-extra"]
SYM_MODES = [("a+rx", 0o555), ("u=rwx,g=rx,o=", 0o750), ("u=rw,go=r", 0o644), ("u=rwx,go=", 0o700)]  # = Sym* of Helpers_Cases.tla
MODES = [0o644, 0o600, 0o755, 0o700, 0o640, 0o750, 0o444, 0o555, 0o4755, 0o2755, 0o6711, 0o1755, 0o2750, 0o1777]
A0 = dict(items=[], rec=False, i18n="", dirs=[], src=[], srcabs=True, srctext="", tgt=[], tgtslash=False, rel=False, hx=[])


def _ext(name):
    return name.rsplit(".", 1)[1] if "." in name else ""


def rand_world(r_):
    """A working directory as a list of top-level items (uniform records)."""
    cnt = [0]

    def cid():
        cnt[0] += 1
        return f"c{cnt[0]}"

    def plain(name, pre=()):
        return dict(pre=list(pre), name=name, kind="file", cid=cid(), lnk="", tree=[], stem="", lang="", sec="", ext=_ext(name))

    items = []
    names = r_.sample(NAMES, r_.randint(2, 5))
    for n in names:
        items.append(plain(n))
    for dn in r_.sample(DIRN, r_.randint(1, 2)):
        tree, dirs = [], [[]]
        for _ in range(r_.randint(0, 6)):
            parent = r_.choice(dirs)
            k = r_.random()
            if k < 0.3 and len(parent) < 3:
                nm = r_.choice(DIRN)
                rel = parent + [nm]
                if not any(t["rel"] == rel for t in tree):
                    tree.append(dict(rel=rel, kind="dir", cid="", lnk="", ext=""))
                    dirs.append(rel)
            elif k < 0.9:
                nm = r_.choice(NAMES)
                rel = parent + [nm]
                if not any(t["rel"] == rel for t in tree):
                    tree.append(dict(rel=rel, kind="file", cid=cid(), lnk="", ext=_ext(nm)))
            else:
                subs = [d for d in dirs if d and d[:-1] == parent]
                rel = parent + ["ln"]
                if subs and not any(t["rel"] == rel for t in tree):
                    tree.append(dict(rel=rel, kind="sym", cid="", lnk=r_.choice(subs)[-1], ext=""))
        items.append(dict(pre=[], name=dn, kind="dir", cid="", lnk="", tree=tree, stem="", lang="", sec="", ext=""))
        for t in tree:  # files inside directories can be named directly as well
            if t["kind"] == "file" and r_.random() < 0.3:
                items.append(dict(pre=[dn] + t["rel"][:-1], name=t["rel"][-1], kind="file", cid=t["cid"], lnk="", tree=[], stem="", lang="",
                                  sec="", ext=t["ext"]))
    items.append(dict(pre=[], name="lnk", kind="sym", cid="", lnk=names[0], tree=[], stem="", lang="", sec="", ext=""))
    items.append(dict(pre=[], name="no such", kind="missing", cid="", lnk="", tree=[], stem="", lang="", sec="", ext=""))
    mans = []
    for stem in r_.sample(["foo", "git-log", "x_y", "Zed9"], 3):
        lang = r_.choice(["", "", "de", "fr", "pt_BR", "zh_CN"])
        sec = r_.choice(["1", "3", "5", "8", "n", "0", ""])
        name = ".".join(x for x in (stem, lang, sec) if x)
        mans.append(dict(pre=[], name=name, kind="file", cid=cid(), lnk="", tree=[], stem=stem, lang=lang, sec=sec, ext=""))
    mos = [dict(pre=[], name=l + ".mo", kind="file", cid=cid(), lnk="", tree=[], stem=l, lang="", sec="", ext="mo")
           for l in r_.sample(["de", "fr", "pt_BR", "sr@latin"], 2)]
    return items, mans, mos


def rand_path(r_, lo=1, hi=3):
    return [r_.choice(COMPS) for _ in range(r_.randint(lo, hi))]


def rand_case(r_):
    eapi = r_.choice([0, 1, 2, 3, 4, 5, 6, 7, 8, 8])
    items, mans, mos = rand_world(r_)
    steps = []
    last_h = None

    def dest(op, path):
        steps.append(dict(op=op, path=path, mode=0, own="", text="", h="-", a=A0))

    def mode(op):
        if r_.random() < 0.25:  # written symbolically: served by the external `install`
            text, m = r_.choice(SYM_MODES)
            steps.append(dict(op=op, path=[], mode=m, own="", text=text, h="-", a=A0))
        else:
            steps.append(dict(op=op, path=[], mode=r_.choice(MODES), own=r_.choice(["", "", "o", "g", "og"]), text="", h="-", a=A0))

    def distinct(pool, k):
        out, seen = [], set()
        for it in r_.sample(pool, min(k, len(pool))):
            if it["name"] not in seen:
                seen.add(it["name"])
                out.append(it)
        return out

    if r_.random() < 0.8:
        dest("insinto", r_.choice([[], rand_path(r_)]))
    if r_.random() < 0.8:
        dest("exeinto", rand_path(r_))
    for _ in range(r_.randint(1, 4)):
        for op, pr in (("into", 0.3), ("insinto", 0.2), ("exeinto", 0.1), ("docinto", 0.3)):
            if r_.random() < pr:
                dest(op, r_.choice([[], rand_path(r_, 1, 2)]) if op != "docinto" else rand_path(r_, 1, 2))
        for op in ("insopts", "exeopts", "diropts", "libopts"):
            if r_.random() < 0.2:
                mode(op)
        h = last_h if last_h and r_.random() < 0.35 else r_.choice(["doins", "doins", "dodoc", "dodoc", "doexe", "dobin", "dosbin", "dolib.so", "dolib.a", "dolib", "doman", "doman", "domo",
                       "dohtml", "dodir", "keepdir", "dosym", "dosym", "dohard"])
        a = dict(A0)
        if h in ("dodir", "keepdir"):
            a["dirs"] = [rand_path(r_, 1, 4) for _ in range(r_.randint(1, 3))]
        elif h == "dosym":
            kind = r_.random()
            a["rel"] = r_.random() < 0.5
            if kind < 0.7:
                src = rand_path(r_, 0, 4)
                if r_.random() < 0.3 and src:  # un-normalised absolute source
                    src.insert(r_.randrange(len(src) + 1), r_.choice(["..", ".", ""]))
                a.update(src=src, srcabs=True, srctext="/" + "/".join(src))
            else:
                src = rand_path(r_, 1, 2)
                a.update(src=src, srcabs=False, srctext="/".join(src))
            a["tgt"] = rand_path(r_, 1, 4)
            a["tgtslash"] = r_.random() < 0.1
            if a["srcabs"] and len(a["tgt"]) >= 2 and r_.random() < 0.4:
                # a source next to / below the link's directory whose name merely STARTS like that directory
                d = a["tgt"][:-1]
                src = r_.choice([d[:-1] + [d[-1] + r_.choice(["64", "-extra", "x"])], d, d[:-1] + [d[-1][:-1] or "q"]]) + rand_path(r_, 0, 2)
                a.update(src=src, srctext="/" + "/".join(src))
        elif h == "dohard":
            files = [e for e in steps if e["op"] == "call" and e["h"] == "dobin" and e["a"]["items"] and e["a"]["items"][0]["kind"] == "file"]
            src = ["usr", "bin", files[0]["a"]["items"][0]["name"]] if files and not any(s["op"] == "into" for s in steps) else rand_path(r_, 2, 3)
            a.update(src=src, srctext="/" + "/".join(src), tgt=rand_path(r_, 1, 3))
        elif h == "doman":
            a["items"] = distinct(mans + ([items[-1]] if r_.random() < 0.1 else []), r_.randint(1, 3))
            a["i18n"] = r_.choice(["", "", "", "de", "ja"])
        elif h == "domo":
            a["items"] = distinct(mos, r_.randint(1, 2))
        else:
            pool = [it for it in items if it["kind"] in ("file", "dir")] * 3 + items
            a["items"] = distinct(pool, r_.randint(1, 3))
            a["rec"] = r_.random() < 0.5 if h in ("doins", "dodoc", "dohtml") else False
            if h == "dohtml":
                a["hx"] = r_.choice([[], [], ["txt"], ["xml", "sh"]])
        steps.append(dict(op="call", path=[], mode=0, own="", text="", h=h, a=a))
        last_h = h
        from_eapi = dict(dohard=4, dohtml=7, dolib=7).get(h)
        if from_eapi is not None and eapi >= from_eapi:
            break  # banned there: the helper dies and ends the phase
    return dict(eapi=eapi, tag="random", steps=steps, world=items + mans + mos, umask=r_.choice([0o022, 0o022, 0o077, 0o027, 0o002]))


# --------------------------------------------------------------------------- the check
def run(ck):
    use_repo()
    os.umask(0o022)
    ck.rule = ("src_install scripts (destination commands + helper calls) enumerated by Helpers_Export and seeded random ones, run "
               "through the real helper executables / ebd bash libraries / IpcCommand classes; one judged case per helper call; "
               "non-trivial = distinct (helper, EAPI, destination state, arguments) call whose outcome PMS prescribes "
               "(accepted with at least one entry, or rejected)")
    ck.assumptions = [
        "PMS 8 install-helper rules as transcribed in specs/Helpers.tla (EAPI table included)",
        "no ABI/LIBDIR_* set: libdir is lib; umask 022; checks run as root, ownership is not judged",
        "file identity = file content (every source file has a distinct content)",
    ]
    # ---- 1. laws and design model
    ck.laws("Helpers_Laws", cfg_text='CONSTANTS\n  Comps = {"a", "ab", "..", ".", ""}\n  MaxLen = 3\n',
            label="Laws:RelTarget, all path pairs <= 3 components over {a,ab,..,.,empty}", timeout=ck.pick(300, 1500))
    if not ck.quick:
        ck.laws("Helpers_Laws", cfg_text='CONSTANTS\n  Comps = {"a", "ab", "..", "."}\n  MaxLen = 4\n',
                label="Laws:RelTarget, all path pairs <= 4 components over {a,ab,..,.}", timeout=3000)
    invs = "TreeShape OnePerPath JudgeAcceptsReference Idempotent UnderDestination ModesRequested".split()
    ck.mc("Helpers_MC", cfg_text=f"SPECIFICATION Spec\nCONSTANT MaxSteps = {ck.pick(2, 3)}\n" + "".join(f"INVARIANT {i}\n" for i in invs),
          workers=4, timeout=ck.pick(300, 3000), label=f"MC:Helpers_MC MaxSteps={ck.pick(2, 3)}")
    res = ck.mc("Helpers_MC", cfg_text="SPECIFICATION Spec\nCONSTANT MaxSteps = 1\nINVARIANT SeenLangDir\n", workers=1, timeout=300,
                label="MC:Helpers_MC reachability guard (must violate SeenLangDir)", expect_ok=False)
    if res.violated != "SeenLangDir":
        raise tlc.MachineryError("vacuity guard: the design model never places a language man page")
    # ---- 2./3. real executions
    runner = Runner()
    events, cases_by_tid = [], {}
    r_ = rng(33)

    def do(case, tid, rnd=None):
        cases_by_tid[tid] = case
        runner.run(tid, case, events, rnd)

    if ck.replay_case:
        do(ck.replay_case["detail"]["case"], 0)
    else:
        cases = ck.export("Helpers_Export", timeout=600)
        cases.sort(key=lambda c: repr(c))
        if ck.quick:
            by_tag = {}
            for c in cases:
                by_tag.setdefault(c["tag"], []).append(c)
            # tags "all-*" are small families that are replayed completely in every tier
            cases = [c for tag in sorted(by_tag)
                     for c in (by_tag[tag] if tag.startswith("all-") else r_.sample(by_tag[tag], min(len(by_tag[tag]), 3)))]
        else:
            ck.exhaustive = True
        tid = 0
        for c in cases:
            do(c, tid)
            tid += 1
        ck.sample(dict(direction="spec->code", eapi=cases[0]["eapi"], script=render_script(cases[0], "$EBD").splitlines()[11:]))
        for _ in range(ck.pick(15, 500)):
            c = rand_case(r_)
            do(c, tid, r_)
            tid += 1
        ck.sample(dict(direction="code->spec", eapi=c["eapi"], script=render_script(c, "$EBD").splitlines()[11:]))
    verdicts = []
    chunk = 4000
    start = 0
    while start < len(events):  # keep whole scripts together
        end = min(len(events), start + chunk)
        while end < len(events) and events[end]["tid"] == events[end - 1]["tid"]:
            end += 1
        verdicts += ck.trace("Helpers_Trace", events[start:end], timeout=ck.pick(600, 3000), label=f"Trace:Helpers_Trace[{start}:{end}]")
        start = end
    by = {(e["tid"], e["i"]): e for e in events}
    unjudged = {}
    flagged = set()
    for v in verdicts:
        e = by[(v["tid"], v["i"])]
        if v["clause"].startswith("Unjudged_"):
            unjudged[v["clause"]] = unjudged.get(v["clause"], 0) + 1
            flagged.add((v["tid"], v["i"]))
            continue
        case = cases_by_tid[e["tid"]]
        upto = dict(case, steps=case["steps"][: e["i"]])
        a = e["a"]
        ck.violation(v["clause"], dict(helper=e["h"], eapi=e["eapi"], rc=e["rc"], died=e["died"], umask=oct(case.get("umask", 0o022)), rec=a["rec"], i18n=a["i18n"], rel=a["rel"],
                                       kinds=sorted({it["kind"] for it in a["items"]}), tag=case["tag"],
                                       call=render_call(e["h"], a), script=render_script(upto, "$EBD").splitlines()[11:],
                                       image=[["/".join(o["path"]), o["kind"], oct(o["mode"]), o["lnk"]] for o in e["img"]][:40], case=upto))
    for e in events:
        if e["op"] == "call":
            ck.count()
            if (e["tid"], e["i"]) not in flagged:
                ck.nontriv((e["h"], e["eapi"], repr(e["a"]), repr([(s["op"], s["path"], s["mode"], s.get("own", "")) for s in cases_by_tid[e["tid"]]["steps"][: e["i"] - 1] if s["op"] != "call"])))
    ck.extra["unjudged_calls"] = unjudged
