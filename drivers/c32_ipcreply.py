"""C32 — every IPC helper request gets exactly one truthful single-line reply.

MC          : IpcReply_MC — bash helper process + python handler over two pipes; every stream of N
              requests (nonfatal / fatal, native / external `install`, success / failure with 1..MaxMsg
              message lines), every interleaving; invariants InvSync, InvTruthful, InvOneReply,
              InvFraming, InvBuild, InvDied, InvQuiescent, InvNonfatal.  Three deliberately broken
              variants (raw multi-line message, inverted external status, silent fatal path) must be
              rejected by TLC (vacuity guards).
spec -> code: IpcReply_Export enumerates the request catalogue of IpcReply_Cases (template x nonfatal x
              injected fault) as streams <<a, canary>> and <<a, b, canary>>.  Each stream is written
              into the line queue of a fake daemon; the REAL pkgcore code serves it:
              ebd.run_generic_phase (IpcError reply + build failure) -> EbuildProcessor.generic_handler
              (dispatch) / .read / .write (framing) -> the real IpcCommand objects.  Only the two pipe
              ends, run_phase (= "the phase runs, the daemon sends these lines") and shutdown are fake.
              Streams <<a, b, canary>> with a = nonfatal request hit by an injected fault and b = a valid request
              to the same helper object are all replayed in every tier (state left behind by a half-done request).
code -> spec: seeded random longer streams over the same catalogue.
bash side   : the nonfatal fault-free requests again, this time made by the REAL bash function
              __ebd_ipc_cmd over real pipes (run_bash_phase); the status bash ends up with is recorded.
All are judged by IpcReply_Trace: OneReply, SingleLine, Truthful, FailureMessage, FatalFailsBuild,
SuccessKeepsBuild, NonfatalContinues, RequestFraming, Payload, BashSeesStatus.

"Did the action succeed" is OBSERVED (probes of the template evaluated on the image / working
directory / helper state after the request), never derived from the reply.

Carve-outs (not generated): arguments containing a newline (the protocol is line based on the request
side too); eapply_user (needs a user patch tree); EAPI 9 (disabled on this image: bash < 5.3); faults
are injected into os.makedirs / shutil.copyfile / os.chmod / os.lchown / os.symlink / open(…, "w") only,
first call on a path inside the scratch world.
"""
import builtins
import errno
import os
import shutil
import stat
import subprocess
import tempfile

from pylib import tlc
from pylib.common import mktmp, rng, use_repo

REQLINES = 6

_scratch = []


def scratch():
    """Scratch root for the per-stream worlds: tmpfs when there is one (an order of magnitude faster)."""
    if not _scratch:
        import atexit

        base = "/dev/shm" if os.path.isdir("/dev/shm") and os.access("/dev/shm", os.W_OK) else mktmp("worlds")
        d = tempfile.mkdtemp(prefix="verif-ipc-", dir=base)
        atexit.register(shutil.rmtree, d, True)
        _scratch.append(d)
    return _scratch[0]


# --------------------------------------------------------------------------- world
def build_world_template(root):
    """The world described in IpcReply_Cases.tla."""
    src = os.path.join(root, "S")
    img = os.path.join(root, "I")
    os.makedirs(os.path.join(src, "sub", "deep"))
    os.makedirs(img)

    def w(rel, text):
        with open(os.path.join(src, rel), "w") as f:
            f.write(text)

    for n in ("a.txt", "b.txt", "foo.1", "bar", "de.mo", "idx.html"):
        w(n, "content of " + n + "\n")
    w("sub/x.txt", "x\n")
    w("sub/deep/z.txt", "z\n")
    os.symlink("a.txt", os.path.join(src, "lnk"))
    w("t.txt", "one\ntwo\n")
    w("t.want", "one\n2\n")
    w("p.patch", "--- a/t.txt\n+++ b/t.txt\n@@ -1,2 +1,2 @@\n one\n-two\n+2\n")
    w("bad.patch", "--- a/t.txt\n+++ b/t.txt\n@@ -1,2 +1,2 @@\n uno\n-dos\n+2\n")
    os.makedirs(os.path.join(src, "arc"))
    w("arc/file", "f\n")
    subprocess.run(["tar", "cf", "arc.tar", "arc"], cwd=src, check=True)
    shutil.rmtree(os.path.join(src, "arc"))
    w("junk.tar", "this is not a tar archive\n" * 40)
    w("env.in", "FOO=1\nBAR=2\nf() { :; }\n")
    with open(os.path.join(img, "blk"), "w") as f:
        f.write("blk\n")
    for dp, dn, fn in os.walk(root):
        for d in dn:
            os.chmod(os.path.join(dp, d), 0o755)
        for f in fn:
            p = os.path.join(dp, f)
            if not os.path.islink(p):
                os.chmod(p, 0o644)


# --------------------------------------------------------------------------- fake daemon
class LineQueue:
    """The daemon's write end as the processor sees it: readline() -> bytes."""

    def __init__(self, log):
        self.lines = []  # (tag, text)
        self.log = log

    def readline(self):
        if self.lines:
            tag, text = self.lines.pop(0)
        else:
            tag, text = [0, 0], "phases succeeded\n"
        self.log.append(("r", tag, text))
        return text.encode()


class Sink:
    def __init__(self, log):
        self.log = log

    def write(self, s):
        self.log.append(("w", s))

    def flush(self):
        pass


def make_processor(log):
    from pkgcore.ebuild import processor

    class ScriptedDaemon(processor.EbuildProcessor):
        """A processor bound to a scripted daemon; read/write/generic_handler are the real ones."""

        def run_phase(self, phase, env, tmpdir=None, logging=None, additional_commands=None, sandbox=True):
            return self.generic_handler(additional_commands=additional_commands)

        def shutdown_processor(self, force=False, ignore_keyboard_interrupt=False):
            log.append(("shutdown", bool(force)))

    e = ScriptedDaemon.__new__(ScriptedDaemon)
    e.ebd_read = LineQueue(log)
    e.ebd_write = Sink(log)
    e._outstanding_expects = []
    e.pid = None
    e.processing_lock = False
    return e


class Observer:
    def __init__(self):
        self.msgs = []

    def warn(self, m, *a, **k):
        self.msgs.append(m)

    def info(self, m, *a, **k):
        self.msgs.append(m)

    def write(self, m, *a, **k):
        self.msgs.append(m)

    def error(self, m, *a, **k):
        self.msgs.append(m)

    def flush(self):
        pass


class FakeDomain:
    def __init__(self, installed):
        from pkgcore.test.misc import FakeRepo

        self.all_installed_repos = FakeRepo(installed)
        self.root = "/"


class Op:
    """What an IpcCommand needs from the build operation (DESIGN.md 10)."""

    def __init__(self, world, eapi):
        from pkgcore.ebuild import ebd_ipc
        from pkgcore.test.misc import FakePkg

        self.pkg = FakePkg("cat/pn-1", eapi=eapi, slot="0")
        self.ED = os.path.join(world, "I") + "/"
        self.cwd = os.path.join(world, "S")
        self.observer = Observer()
        self.env = {"DISTDIR": self.cwd, "T": world, "ROOT": "/", "EROOT": "/", "EPREFIX": "", "SYSROOT": "/",
                    "ESYSROOT": "/"}
        self.domain = FakeDomain([FakePkg("cat/inst-1"), FakePkg("cat/inst-2")])
        self.userpriv = False
        I = ebd_ipc
        self._ipc_helpers = {
            "doins": I.Doins(self), "dodoc": I.Dodoc(self), "dohtml": I.Dohtml(self), "doinfo": I.Doinfo(self),
            "dodir": I.Dodir(self), "doexe": I.Doexe(self), "dobin": I.Dobin(self), "dosbin": I.Dosbin(self),
            "dolib": I.Dolib(self), "dolib.so": I.Dolib_so(self), "dolib.a": I.Dolib_a(self), "doman": I.Doman(self),
            "domo": I.Domo(self), "dosym": I.Dosym(self), "dohard": I.Dohard(self), "keepdir": I.Keepdir(self),
            "has_version": I.Has_Version(self), "best_version": I.Best_Version(self), "unpack": I.Unpack(self),
            "eapply": I.Eapply(self), "docompress": I.Docompress(self), "dostrip": I.Dostrip(self),
            "filter_env": I.FilterEnv(self),
        }


# --------------------------------------------------------------------------- fault injection
class Fault:
    """First call of the named operation on a path inside `root` raises ENOSPC."""

    TARGETS = {
        "makedirs": (os, "makedirs", 0), "copyfile": (shutil, "copyfile", 1), "chmod": (os, "chmod", 0),
        "lchown": (os, "lchown", 0), "symlink": (os, "symlink", 1), "open": (builtins, "open", 0),
    }

    def __init__(self, name, root):
        self.name, self.root, self.fired = name, root, False

    def __enter__(self):
        if not self.name:
            return self
        mod, attr, idx = self.TARGETS[self.name]
        self.mod, self.attr = mod, attr
        self.orig = orig = getattr(mod, attr)

        def wrapper(*a, **k):
            if not self.fired and len(a) > idx and isinstance(a[idx], (str, bytes, os.PathLike)):
                p = os.path.abspath(os.fspath(a[idx]))
                hit = isinstance(p, str) and p.startswith(self.root)
                if hit and self.name == "open":
                    mode = a[1] if len(a) > 1 else k.get("mode", "r")
                    hit = "w" in mode
                if hit:
                    self.fired = True
                    raise OSError(errno.ENOSPC, os.strerror(errno.ENOSPC), p)
            return orig(*a, **k)

        setattr(mod, attr, wrapper)
        return self

    def __exit__(self, *exc):
        if self.name:
            setattr(self.mod, self.attr, self.orig)
        return False


# --------------------------------------------------------------------------- probes (observation)
def _resolve(world, p):
    if p.startswith("I/") or p.startswith("S/"):
        return os.path.join(world, p)
    return p


def probe_holds(world, op, helper_name, pr):
    k = pr["k"]
    if k in ("incl", "excl"):
        h = op._ipc_helpers[helper_name]
        return pr["p"] in (h.includes if k == "incl" else h.excludes)
    path = _resolve(world, pr["p"])
    try:
        st = os.lstat(path)
    except OSError:
        return False
    if k == "file":
        return stat.S_ISREG(st.st_mode) and stat.S_IMODE(st.st_mode) == pr["m"]
    if k == "dir":
        return stat.S_ISDIR(st.st_mode) and stat.S_IMODE(st.st_mode) == pr["m"]
    if k == "sym":
        return stat.S_ISLNK(st.st_mode)
    if k == "sameas":
        try:
            with open(path, "rb") as a, open(_resolve(world, pr["ref"]), "rb") as b:
                return a.read() == b.read()
        except OSError:
            return False
    raise tlc.MachineryError(f"unknown probe kind {k}")


def project_write(data):
    head, bel, rest = data.partition("\x07")
    first = head.split("\n", 1)[0]
    try:
        code = int(first)
    except ValueError:
        code = -1
    text = rest[:-1] if rest.endswith("\n") else rest
    return dict(nl=data.count("\n"), code=code, hasmsg=bool(bel) and text.strip() != ""), text


# --------------------------------------------------------------------------- a real bash side
def phase_env(eapi, world, extra=None):
    """Environment of a src_install phase as the real code computes it (helper PATH, EAPI switches)."""
    from pkgcore import const as p_const
    from pkgcore.ebuild import const as e_const
    from pkgcore.ebuild.eapi import get_eapi

    E = get_eapi(str(eapi))
    path = (list(p_const.PATH_FORCED_PREPEND) + list(E.helpers.get("global", ())) + list(E.helpers.get("src_install", ()))
            + os.environ.get("PATH", "").split(os.pathsep))
    env = {k: v for k, v in os.environ.items() if k in ("HOME", "LANG", "LC_ALL", "TERM", "USER")}
    env.update(E.ebd_env)
    env.update(PATH=os.pathsep.join(path), PKGCORE_EBD_PATH=e_const.EBD_PATH, D=os.path.join(world, "I") + "/", S=os.path.join(world, "S"),
               WORKDIR=world, T=world, PF="pn-1", P="pn-1", PN="pn", PV="1", PVR="1", CATEGORY="cat", SLOT="0", EBUILD_PHASE="install",
               PKGCORE_PREFIX_SUPPORT="false", PKGCORE_DEBUG="0", NOCOLOR="true", NO_COLOR="1")
    if extra:
        env.update(extra)
    return env


def run_bash_phase(script, env, op, handlers, world):
    """Run `script` in bash with the ebd pipes attached to a real EbuildProcessor served by the real
    run_generic_phase (handlers = additional commands).  Returns (exception name or "", bash output)."""
    from pkgcore.ebuild import ebd as ebd_mod

    r1, w1 = os.pipe()  # bash -> python
    r2, w2 = os.pipe()  # python -> bash
    env = dict(env, PKGCORE_EBD_READ_FD=str(r2), PKGCORE_EBD_WRITE_FD=str(w1))
    proc = subprocess.Popen(["bash", "-c", script], env=env, pass_fds=(r2, w1), stdin=subprocess.DEVNULL, stdout=subprocess.PIPE,
                            stderr=subprocess.STDOUT, cwd=world)
    os.close(r2)
    os.close(w1)
    ebp = make_processor([])
    rf = os.fdopen(r1, "rb")
    wf = os.fdopen(w2, "w")

    class Rd:
        def readline(self):
            line = rf.readline()
            return line if line else b"phases succeeded\n"  # the script ended: so does the phase

    class Wr:
        def write(self, s):
            try:
                wf.write(s)
            except (BrokenPipeError, ValueError):
                pass

        def flush(self):
            try:
                wf.flush()
            except (BrokenPipeError, ValueError):
                pass

    ebp.ebd_read, ebp.ebd_write = Rd(), Wr()
    saved = ebd_mod.request_ebuild_processor, ebd_mod.release_ebuild_processor
    ebd_mod.request_ebuild_processor = lambda **kw: ebp
    ebd_mod.release_ebuild_processor = lambda e: None
    cwd0 = os.getcwd()
    died = ""
    try:
        ebd_mod.run_generic_phase(op.pkg, "install", {"T": world}, False, False, extra_handlers=handlers)
    except Exception as ex:  # a helper died / internal failure: the phase is over
        died = type(ex).__name__
    finally:
        ebd_mod.request_ebuild_processor, ebd_mod.release_ebuild_processor = saved
        os.chdir(cwd0)
        for f in (wf, rf):
            try:
                f.close()
            except OSError:
                pass
    try:
        out = proc.communicate(timeout=60)[0]
    except subprocess.TimeoutExpired:
        proc.kill()
        out = proc.communicate()[0]
        raise tlc.MachineryError(f"bash side hung:\n{script[-600:]}\n{out[-1500:]}")
    if proc.returncode == 97:
        raise tlc.MachineryError(f"bash side could not be set up:\n{out.decode(errors='replace')[-2000:]}")
    return died, out


BASH_LIBS = ("exit-handling.bash", "ebuild-daemon-lib.bash", "isolated-functions.bash")


def run_stream_bash(tid, reqs, template_root, events):
    """The same stream, but the requests are made by the real bash function __ebd_ipc_cmd and the status the
    bash side ends up with (what `dobin ... || die` would see) is recorded as `shrc`."""
    import shlex

    from pkgcore.ebuild import const as e_const

    world = os.path.join(scratch(), f"b{tid}")
    shutil.copytree(template_root, world, symlinks=True)
    op = Op(world, reqs[0]["t"]["eapi"])
    ebd_path = e_const.EBD_PATH
    lines = [f'source "{ebd_path}/{x}" || exit 97' for x in BASH_LIBS]
    lines += ['cd "${S}" || exit 97', "export PKGCORE_NONFATAL=true"]
    for r in reqs:
        t = r["t"]
        argv = " ".join(shlex.quote(a) for a in t["args"])
        lines.append(f'( __ebd_ipc_cmd {shlex.quote(t["helper"])} {shlex.quote(t["opts"])} {argv} ) >/dev/null 2>&1; '
                     '__ebd_write_line "verif_step $?"; __ebd_read_line x')
    state = dict(n=0, rcs=[], probes=[], stale=[])

    def verif_step(e, arg=""):
        state["rcs"].append(int(arg.strip() or "-1"))
        e.write("ok")

    handlers = {"verif_step": verif_step}
    for name, h in op._ipc_helpers.items():
        def serve(e, _h=h):
            n = state["n"]
            state["n"] += 1
            t = reqs[n]["t"] if n < len(reqs) else None
            if t:
                state["stale"].append(bool(t["probes"]) and all(probe_holds(world, op, t["helper"], pr) for pr in t["probes"]))
            try:
                _h(e)
            finally:
                if t:
                    state["probes"].append(all(probe_holds(world, op, t["helper"], pr) for pr in t["probes"]))
        handlers[name] = serve
    died, _out = run_bash_phase("\n".join(lines) + "\n", phase_env(reqs[0]["t"]["eapi"], world), op, handlers, world)
    for n, r in enumerate(reqs):
        if n >= len(state["rcs"]) or n >= len(state["probes"]):
            break
        t = r["t"]
        events.append(dict(side="sh", tid=tid, i=n + 1, tmpl=t["id"], helper=t["helper"], nonfatal=True, feasible=bool(t["feasible"]),
                           probes_ok=bool(state["probes"][n]), stale=bool(state["stale"][n]), payload="-", text="", fault="", fired=False,
                           reads=[[n + 1, p] for p in range(1, REQLINES + 1)], writes=[dict(nl=1, code=state["rcs"][n], hasmsg=True)],
                           failed=False, next_served=True, exc="", shrc=state["rcs"][n]))
    if died and len(state["rcs"]) < len(reqs):
        n = len(state["rcs"])
        t = reqs[n]["t"]
        events.append(dict(side="sh", tid=tid, i=n + 1, tmpl=t["id"], helper=t["helper"], nonfatal=True, feasible=bool(t["feasible"]), probes_ok=False,
                           stale=False, payload="-", text="", fault="", fired=False, reads=[[n + 1, p] for p in range(1, REQLINES + 1)],
                           writes=[dict(nl=1, code=1, hasmsg=True)], failed=True, next_served=False, exc=died, shrc=-1))
    shutil.rmtree(world, ignore_errors=True)


# --------------------------------------------------------------------------- one stream
def run_stream(tid, reqs, template_root, events):
    """Serve one scripted stream with the real code; append one event per request."""
    from pkgcore.ebuild import ebd as ebd_mod

    world = os.path.join(scratch(), f"w{tid}")
    shutil.copytree(template_root, world, symlinks=True)
    eapi = reqs[0]["t"]["eapi"]
    op = Op(world, eapi)
    log = []
    ebp = make_processor(log)
    for n, r in enumerate(reqs, 1):
        t = r["t"]
        if t["eapi"] != eapi:
            raise tlc.MachineryError("stream mixes EAPIs")
        lines = [t["helper"], "true" if r["nonfatal"] else "false", op.cwd, "install", t["opts"],
                 "".join(a + "\0" for a in t["args"])]
        for p, text in enumerate(lines, 1):
            if "\n" in text:
                raise tlc.MachineryError("newline in a request line: outside the domain")
            ebp.ebd_read.lines.append(([n, p], text + "\n"))

    state = dict(n=0, fired={}, probes={}, stale={})
    handlers = {}
    for name, h in op._ipc_helpers.items():
        def serve(e, _h=h, _name=name):
            state["n"] += 1
            n = state["n"]
            log.append(("enter", n, _name))
            fault = reqs[n - 1]["fault"] if n <= len(reqs) else ""
            if n <= len(reqs):
                t0 = reqs[n - 1]["t"]
                state["stale"][n] = bool(t0["probes"]) and all(probe_holds(world, op, t0["helper"], pr) for pr in t0["probes"])
            with Fault(fault, world) as f:
                try:
                    _h(e)
                finally:
                    state["fired"][n] = f.fired
                    log.append(("exit", n))
                    if n <= len(reqs):  # observe the effect now: later requests may touch the same paths
                        t = reqs[n - 1]["t"]
                        state["probes"][n] = all(probe_holds(world, op, t["helper"], pr) for pr in t["probes"])
        handlers[name] = serve

    saved = ebd_mod.request_ebuild_processor, ebd_mod.release_ebuild_processor
    ebd_mod.request_ebuild_processor = lambda **kw: ebp
    ebd_mod.release_ebuild_processor = lambda e: log.append(("release",))
    cwd0 = os.getcwd()
    raised = None
    try:
        ebd_mod.run_generic_phase(op.pkg, "install", {"T": world}, False, False, extra_handlers=handlers)
    except Exception as ex:  # the build failed; which request caused it is read from the log
        raised = ex
    finally:
        ebd_mod.request_ebuild_processor, ebd_mod.release_ebuild_processor = saved
        os.chdir(cwd0)

    # ---- segment the log: request n owns the command-line read before its dispatch and everything up to
    # the command-line read of the next dispatch
    starts = []
    for idx, item in enumerate(log):
        if item[0] == "enter":
            j = idx - 1
            while j >= 0 and log[j][0] != "r":
                j -= 1
            starts.append(max(j, 0))
    served = len(starts)
    for n in range(1, served + 1):
        seg = log[starts[n - 1]: starts[n] if n < served else len(log)]
        r = reqs[n - 1]
        t = r["t"]
        reads = [x[1] for x in seg if x[0] == "r" and x[1] != [0, 0]]
        writes, text = [], ""
        for x in seg:
            if x[0] == "w":
                pw, tx = project_write(x[1])
                writes.append(pw)
                if len(writes) == 1:
                    text = tx
        last = n == served
        failed = bool(last and raised is not None)
        probes_ok = state["probes"].get(n, False)
        events.append(dict(side="py", shrc=-2, tid=tid, i=n, tmpl=t["id"], helper=t["helper"], nonfatal=bool(r["nonfatal"]), feasible=bool(t["feasible"]),
                           probes_ok=bool(probes_ok), stale=bool(state["stale"].get(n, False)), payload=t["payload"], text=text, fault=r["fault"],
                           fired=bool(state["fired"].get(n, False)), reads=reads, writes=writes, failed=failed,
                           next_served=not last, exc=type(raised).__name__ if failed else ""))
    if served < len(reqs) and raised is None:
        # the stream ended although nobody failed: lines were swallowed -> report on the first unserved request
        n = served + 1
        r = reqs[n - 1]
        events.append(dict(side="py", shrc=-2, tid=tid, i=n, tmpl=r["t"]["id"], helper=r["t"]["helper"], nonfatal=bool(r["nonfatal"]),
                           feasible=bool(r["t"]["feasible"]), probes_ok=False, stale=False, payload=r["t"]["payload"], text="", fault=r["fault"],
                           fired=False, reads=[], writes=[], failed=False, next_served=False, exc="unserved"))
    shutil.rmtree(world, ignore_errors=True)
    return served


def stream_key(reqs):
    return tuple((r["t"]["id"], r["nonfatal"], r["fault"]) for r in reqs)


MC_INV = ("INVARIANT TypeOK\nINVARIANT InvSync\nINVARIANT InvTruthful\nINVARIANT InvOneReply\nINVARIANT InvFraming\n"
          "INVARIANT InvBuild\nINVARIANT InvDied\nINVARIANT InvQuiescent\nINVARIANT InvNonfatal\n")


def mc_cfg(n, maxmsg, variant, inv=MC_INV):
    return f'SPECIFICATION Spec\nCONSTANTS\n  N = {n}\n  MaxMsg = {maxmsg}\n  Variant = "{variant}"\n{inv}'


def run(ck):
    use_repo()
    os.umask(0o022)
    ck.rule = ("request streams (template x nonfatal x injected fault, + canary) enumerated by IpcReply_Export and seeded "
               "random longer streams, served by the real run_generic_phase/generic_handler/IpcCommand code through a scripted "
               "daemon; non-trivial = distinct stream in which at least one request failed, ran the external install "
               "command or had a fault fire")
    ck.assumptions = [
        "request lines contain no newline (the request side of the protocol is line based as well)",
        "did-the-action-succeed is observed through the template's probes on the image / cwd / helper state",
        "external commands install, patch, tar behave as GNU coreutils/patch/tar on this image; checks run as root, umask 022",
    ]
    # ---- 1. design
    n = ck.pick(2, 3)
    ck.mc("IpcReply_MC", cfg_text=mc_cfg(n, 2, "design"), workers=4, timeout=ck.pick(120, 800), label=f"MC:IpcReply_MC design N={n}")
    guards = (("rawmsg", "InvSync"), ("inverted", "InvTruthful"), ("silentfatal", "InvOneReply"))
    for variant, inv in guards[: ck.pick(1, 3)]:  # (quick: one JVM start less costs more than it tells)
        res = ck.mc("IpcReply_MC", cfg_text=mc_cfg(2, 2, variant, f"INVARIANT {inv}\n"), workers=2, timeout=300,
                    label=f"MC:IpcReply_MC broken variant {variant} (must violate {inv})", expect_ok=False)
        if res.violated != inv:
            raise tlc.MachineryError(f"vacuity guard: variant {variant} should violate {inv}, TLC says {res.violated}")
    # ---- 2. spec -> code
    template_root = os.path.join(scratch(), "template")
    os.makedirs(template_root)
    build_world_template(template_root)
    events, streams = [], {}

    def do(reqs, tid):
        streams[tid] = reqs
        before = len(events)
        run_stream(tid, reqs, template_root, events)
        ck.count(len(events) - before)
        if any((not e["probes_ok"]) or e["fired"] or "-ext" in e["tmpl"] for e in events[before:]):
            ck.nontriv(stream_key(reqs))

    if ck.replay_case:
        det = ck.replay_case["detail"]
        if det.get("side") == "sh":
            streams[0] = det["stream"]
            run_stream_bash(0, det["stream"], template_root, events)
            ck.count(len(events))
        else:
            do(det["stream"], 0)
    else:
        cases = ck.export("IpcReply_Export", timeout=300)
        atom = {c["n"]: c["a"] for c in cases if c["kind"] == "atom"}

        def build(idx):
            first = atom[idx[0]]
            out = []
            for n in idx:
                a = atom[n]
                if n == 0:  # the canary takes the stream's EAPI
                    a = dict(a, t=dict(a["t"], eapi=first["t"]["eapi"]))
                out.append(a)
            return out

        singles = [build(c["idx"]) for c in cases if c["kind"] == "single"]
        pairs = [build(c["idx"]) for c in cases if c["kind"] == "pair"]
        same = [build(c["idx"]) for c in cases if c["kind"] == "same"]
        same.sort(key=stream_key)
        singles.sort(key=stream_key)
        pairs.sort(key=stream_key)
        r_ = rng(32)
        pairs = r_.sample(pairs, min(len(pairs), ck.pick(40, 1200)))
        ck.exhaustive = False  # every atom is replayed (singles); pairs are sampled
        tid = 0
        for reqs in singles + same + pairs:
            do(reqs, tid)
            tid += 1
        ck.sample(dict(direction="spec->code", stream=[list(k) for k in stream_key(singles[0])]))
        # ---- 3. code -> spec: random longer streams
        atoms = {}
        for s in singles:
            atoms.setdefault(s[0]["t"]["eapi"], []).append(s[0])
        for _ in range(ck.pick(20, 600)):
            eapi = r_.choice(["8", "8", "8", "8", "7", "6", "3"])
            pool = atoms[eapi]
            reqs = [r_.choice(pool) for _ in range(r_.randint(3, 8))]
            do(reqs, tid)
            tid += 1
        ck.sample(dict(direction="code->spec", stream=[list(k) for k in stream_key(streams[tid - 1])]))
        # ---- 4. the same protocol with the REAL bash side (__ebd_ipc_cmd): nonfatal fault-free requests
        plain = [s[0] for s in singles if s[0]["nonfatal"] and not s[0]["fault"] and s[0]["t"]["eapi"] == "8"]
        canary = singles[0][-1]
        bash_streams = [[a, dict(canary, nonfatal=True)] for a in plain]
        for _ in range(ck.pick(10, 120)):
            bash_streams.append([r_.choice(plain) for _ in range(r_.randint(3, 6))])
        if ck.quick:
            bash_streams = bash_streams[::4]
        for reqs in bash_streams:
            streams[tid] = reqs
            before = len(events)
            run_stream_bash(tid, reqs, template_root, events)
            ck.count(len(events) - before)
            tid += 1
    verdicts = ck.trace("IpcReply_Trace", events, timeout=ck.pick(300, 1500))
    by = {(e["tid"], e["i"]): e for e in events}
    for v in verdicts:
        e = by[(v["tid"], v["i"])]
        reqs = streams[e["tid"]]
        ck.violation(v["clause"], dict(template=e["tmpl"], helper=e["helper"], nonfatal=e["nonfatal"], fault=e["fault"],
                                       fired=e["fired"], position=e["i"], side=e["side"], shrc=e["shrc"], via_external="-ext" in e["tmpl"],
                                       before=[r["t"]["id"] for r in reqs[: e["i"] - 1]],
                                       observed=dict(writes=e["writes"], text=e["text"], probes_ok=e["probes_ok"], failed=e["failed"],
                                                     exc=e["exc"], reads=e["reads"]),
                                       stream=reqs if e["side"] == "sh" else reqs[: e["i"]]))
