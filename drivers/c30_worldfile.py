"""C30 — world-file updates record exactly the requested entries (pkgsets/filelist.py WorldFile,
scripts/pmerge.py update_worldset).

Spec        : WorldFile.tla — the file as a set of entries; a request [key, slot] stands for exactly one
              entry Target = key, or key:slot when a slot other than "0" is given (ANY slot string);
              clauses Recorded / OthersIntact / RefusalOk.
MC          : WorldFile_Laws (Apply meets the clauses and is determined by them, Target injective, the
              character-wise reading differs for every slot longer than one character);
              WorldFile_MC (memory set + file as atomic register, update = modify + flush, crash during
              flush; action properties UpdateExact, FlushInstallsMem; the "charwise" variant — what the
              unpatched _modify does — must be rejected by TLC);
              AtomicFile_MC (temp + rename keeps OldOrNew at every crash point; in-place must violate).
spec -> code: WorldFile_Export enumerates every initial file x every history of update_worldset calls
              over slots {none, 0, 1, 12, 1.2, a_b, 10}; each is executed on a real WorldFile.
code -> spec: random world files and random atoms (slots drawn from the PMS slot grammar, decorated with
              versions / subslots / slot operators / use deps) in add/remove histories.  After every call
              the text of the world file is read back; WorldFile_Trace judges Recorded, OthersIntact,
              Refusal, FlushedIsMemory, Completes.  flush() is recorded by fsrec and replayed through
              FsModel by FsTrace (Watch world old-or-new after every syscall, Frame, FinalState) and re-run
              with a power cut / half write / EIO at every mutation with a fresh WorldFile as reader
              (ReaderOldOrNew).
Carve-outs  : comment and @set lines of an existing file are not "entries" (pinned by the repo tests: they
              are dropped on rewrite); comment lines are generated (also comment-only files) and ignored when the
              file is read back, @set lines are not generated.  A removal of an entry that is not recorded is
              a refusal (the call ends without flushing; KeyError swallowed by update_worldset).
"""
import os
import time
from concurrent.futures import ThreadPoolExecutor

from pylib import atomic, tlc
from pylib.common import mktmp, rng, use_repo

FIRST = "abcxyzABZ0123456789_"
REST = FIRST + "+.-"
FIXED_SLOTS = ["0", "1", "2", "12", "10", "00", "0.1", "1.2", "1.2.3", "a_b", "3.11", "2+", "stable", "5-r1", "_x", "01"]
KEYS = ["a/b", "a/c", "dev-lang/python", "sys-libs/glibc", "x11-libs/gtk+"]


class bounded_buffer:
    """fsrec's write proxy buffers like a file object with an unbounded buffer: data reaches the disk at close().  A
    real file object flushes inside write() once its (8 KiB) buffer is full, so an I/O error or a cut can also strike
    INSIDE write(), before the writer's own close()/discard() logic runs.  With this context manager the proxy's buffer
    holds at most `limit` bytes, so both shapes of a write are crash points (scenarios alternate)."""

    def __init__(self, limit):
        self.limit = limit

    def __enter__(self):
        from pylib import fsrec
        self.cls, self.orig = fsrec._FileProxy, fsrec._FileProxy.write
        orig, limit = self.orig, self.limit

        def write(p, data):
            r = orig(p, data)
            if getattr(p, "_buffered", False) and limit is not None and sum(len(x) for x in p._pending) > limit:
                p.flush()
            return r
        self.cls.write = write
        return self

    def __exit__(self, *a):
        self.cls.write = self.orig
        return False


def mc_cfg(variant, small):
    s = "Small" if small else "Full"
    return (f'SPECIFICATION Spec\nCONSTANTS\n Variant = "{variant}"\n SlotChars <- Slots{s}\n InitialEntries <- Entries{s}\n'
            "PROPERTY UpdateExact\nPROPERTY FlushInstallsMem\n")


def read_lines(path):
    """The entries of the file: non-empty stripped lines; comment lines are not entries."""
    try:
        with open(path) as f:
            return sorted({x.strip() for x in f.read().split("\n") if x.strip() and not x.strip().startswith("#")})
    except FileNotFoundError:
        return []


class Runner:
    """Executes histories on the real WorldFile and logs WorldFile_Trace events."""

    def __init__(self, ck, root):
        from pkgcore.ebuild.atom import atom
        from pkgcore.pkgsets.filelist import WorldFile
        from pkgcore.scripts.pmerge import update_worldset

        self.ck, self.root, self.atom, self.WorldFile, self.update = ck, root, atom, WorldFile, update_worldset
        self.events, self.cases = [], {}
        self.n = 0

    def render(self, op, r_=None):
        """request -> atom text; decorations never change key / slot (checked)."""
        s = op["key"] if op["slot"] == "-" else f'{op["key"]}:{op["slot"]}'
        if r_ is not None:
            d = r_.randrange(6)
            if d == 1:
                s = "=" + op["key"] + "-1.2" + s[len(op["key"]):]
            elif d == 2:
                s = ">=" + op["key"] + "-3_p1-r2" + s[len(op["key"]):]
            elif d == 3 and op["slot"] != "-":
                s += "/7.1"
            elif d == 4 and op["slot"] != "-":
                s += "="
            elif d == 5:
                s += "[foo,-bar]"
        a = self.atom(s)
        if a.key != op["key"] or (a.slot or "-") != op["slot"]:
            raise tlc.MachineryError(f"renderer: {s!r} parsed as key={a.key!r} slot={a.slot!r}, wanted {op}")
        return a, s

    def history(self, init, ops, r_=None, label="", comments=None):
        tid = self.n
        self.n += 1
        comments = (tid % 3 == 1) if comments is None else comments
        path = os.path.join(self.root, f"world{tid}")
        with open(path, "w") as f:
            # every third file carries comment lines (not entries): also "comments only" and "nothing at all"
            lines = (["# world set", "#a/b:12"] if comments else []) + list(init)
            f.write("\n".join(lines) + ("\n" if lines and tid % 2 else ""))
        seen = []
        base = self.WorldFile

        class Observed(base):
            # a refusal = a removal that ends without flushing the file; observed on the real object
            def remove(s, x):
                try:
                    return base.remove(s, x)
                except KeyError:
                    seen.append("KeyError")
                    raise

            def flush(s):
                seen.append("flush")
                return base.flush(s)

        ws = Observed(path)
        self.events.append(dict(tid=tid, i=0, ev="init", file=read_lines(path)))
        texts = []
        for i, op in enumerate(ops, 1):
            a, text = self.render(op, r_)
            texts.append(text)
            del seen[:]
            err = ""
            try:
                self.update(ws, a, remove=op["remove"])
            except Exception as e:  # noqa
                err = type(e).__name__
            self.events.append(dict(tid=tid, i=i, ev="update", key=op["key"], slot=op["slot"], remove=bool(op["remove"]),
                                    refused=(bool(op["remove"]) and not err and "flush" not in seen), error=err, file=read_lines(path),
                                    mem=sorted(str(x) for x in ws)))
            self.ck.count()
            if len(op["slot"]) > 1 or init:
                self.ck.nontriv((tuple(init), op["key"], op["slot"], op["remove"], i))
        self.cases[tid] = dict(init=list(init), ops=[dict(o) for o in ops], atoms=texts, source=label, comments=comments)
        os.unlink(path)
        return tid


def gen_slot(r_):
    x = r_.random()
    if x < 0.15:
        return "-"
    if x < 0.55:
        return r_.choice(FIXED_SLOTS)
    return r_.choice(FIRST) + "".join(r_.choice(REST) for _ in range(r_.randint(0, 5)))


def gen_world(r_, atom, key):
    """Existing entries: bare names, name:slot (also of the package about to be updated, with the
    one-character slots a character-wise walk would hit), versioned / use-dep atoms."""
    pool = [key, f"{key}:1", f"{key}:2", f"{key}:0", f"{key}:a", f"{key}:12", f"{key}:1.2", f"{key}:3"]
    for k in KEYS:
        pool += [k, f"{k}:{r_.choice(FIXED_SLOTS)}", f"={k}-1.0", f">={k}-2.1-r1:4", f"{k}[ssl]", f"<{k}-9:2/2.1"]
    out = []
    for s in r_.sample(pool, r_.randint(0, 9)):
        if str(atom(s)) != s:
            raise tlc.MachineryError(f"generator: world entry {s!r} is not canonical ({str(atom(s))!r})")
        out.append(s)
    return sorted(set(out))


def run(ck):
    use_repo()
    from pkgcore.ebuild.atom import atom
    from pkgcore.ebuild.errors import MalformedAtom
    from pkgcore.pkgsets.filelist import WorldFile
    from pkgcore.scripts.pmerge import update_worldset

    ck.rule = ("update_worldset(world, atom, remove) histories on a real WorldFile: (a) every initial file x history "
               "enumerated by TLC over slots {none,0,1,12,1.2,a_b,10}, (b) random files and atoms with slots from the PMS "
               "slot grammar; non-trivial = distinct (initial file, key, slot, remove, position) with a multi-character slot "
               "or a non-empty file; every mutation of flush() is a crash point (+ half writes, + EIO)")
    ck.assumptions = ["entries are compared as the set of non-empty stripped lines of the world file",
                      "a power cut is a stop before a Python-level mutation (or after half a write); no fsync/reordering model",
                      "comment / @set lines are not entries (dropped on rewrite by design); comments are generated and ignored on read-back"]
    small = ck.quick
    pool = ThreadPoolExecutor(6)
    jobs = []

    def bg(fn, *a, **kw):
        jobs.append(pool.submit(fn, *a, **kw))
        time.sleep(0.15)  # tlc.run numbers its scratch directories with an unlocked counter

    export_job = None
    if not ck.replay_case:
        sfx = "Small" if small else "Full"
        export_job = pool.submit(ck.export, "WorldFile_Export", label="Export:WorldFile histories",
                                 cfg_text=f"CONSTANTS\n SlotChars <- Slots{sfx}\n InitialEntries <- Entries{sfx}\n MaxLen = 2\n")
        time.sleep(0.15)
        bg(ck.laws, "WorldFile_Laws", label="Laws:WorldFile (Apply = clauses, Target injective, charwise differs)")
        bg(ck.mc, "WorldFile_MC", cfg_text=mc_cfg("exact", small), workers=2, label="MC:WorldFile exact", timeout=800)
        bad_job = pool.submit(ck.mc, "WorldFile_MC", cfg_text=mc_cfg("charwise", True), label="MC:WorldFile charwise (must violate)",
                              expect_ok=False)
        time.sleep(0.15)
        for old in (("TRUE",) if small else ("TRUE", "FALSE")):
            bg(ck.mc, "AtomicFile_MC", cfg_text=f'SPECIFICATION Spec\nCONSTANTS\n Variant = "temp"\n NChunks = {ck.pick(2, 5)}\n OldExists = {old}\n'
               "INVARIANT OldOrNew\nINVARIANT Completes\n", label=f"MC:AtomicFile temp old={old}")
        inplace_job = pool.submit(ck.mc, "AtomicFile_MC", cfg_text='SPECIFICATION Spec\nCONSTANTS\n Variant = "inplace"\n NChunks = 2\n OldExists = TRUE\nINVARIANT OldOrNew\n',
                                  label="MC:AtomicFile inplace (must violate)", expect_ok=False)

    root = mktmp("c30")
    rn = Runner(ck, root)
    r_ = rng(30)
    if ck.replay_case:
        d = ck.replay_case["detail"]
        rn.history(d["init"], d["ops"], label="replay", comments=bool(d.get("comments")))
        crash_inputs = [(d["init"], d["ops"][min(d.get("at", 1), len(d["ops"])) - 1])]
    else:
        # ---- code -> spec: random histories ----
        bad_slots = 0
        for _ in range(ck.pick(400, 6000)):
            key = r_.choice(KEYS)
            init = gen_world(r_, atom, key)
            ops = []
            for _k in range(r_.randint(1, 4)):
                slot = gen_slot(r_)
                if slot != "-":
                    try:
                        atom(f"{key}:{slot}")
                    except MalformedAtom:
                        bad_slots += 1  # the atom parser's notion of a valid slot is another property
                        continue
                rm = r_.random() < 0.45
                if rm and init and r_.random() < 0.5:
                    # aim at something that is recorded
                    cand = [e for e in init if e.split(":")[0] == key and not e.startswith(("=", ">", "<")) and "[" not in e and "/" not in e.split(":")[-1]]
                    if cand:
                        e = r_.choice(cand)
                        slot = e.split(":")[1] if ":" in e else r_.choice(["-", "0"])
                ops.append(dict(key=key, slot=slot, remove=rm))
            if ops:
                rn.history(init, ops, r_, label="random")
        ck.extra["generated_slots_rejected_by_atom_parser"] = bad_slots
        ck.sample(dict(rn.cases[rn.n - 1]))
        # ---- spec -> code: the histories enumerated by TLC (the export ran while the random ones were executed) ----
        cases = export_job.result()
        ck.exhaustive = True
        for c in cases:
            rn.history(sorted(c["init"]), [dict(key=o["key"], slot=o["slot"], remove=o["remove"]) for o in c["ops"]], label="export")
        ck.sample(dict(rn.cases[rn.n - 1 - len(cases) // 2]))
        crash_inputs = []
        for _ in range(ck.pick(6, 80)):
            key = r_.choice(KEYS)
            init = gen_world(r_, atom, key) if r_.random() < 0.85 else []  # the world file always exists (property: "existing world files")
            slot = r_.choice(["-", "0", "12", "1.2", "a_b", "3"])
            crash_inputs.append((init, dict(key=key, slot=slot, remove=False)))

    if not ck.replay_case:
        for init, op in crash_inputs:  # the same inputs are judged as plain updates too (an update that raises is reported there)
            rn.history(init or [], [op], label="crash-input")
    trace_job = pool.submit(ck.trace, "WorldFile_Trace", rn.events, timeout=1200)  # judged while the crash scenarios run

    # ---- persistence: atomic replacement of the file ----
    fs_events, inputs = [], {}
    for tid, (init, op) in enumerate(crash_inputs):
        a, text = rn.render(op, None)

        def setup(rt, init=init):
            os.mkdir(os.path.join(rt, "var"))
            if init is not None:
                with open(os.path.join(rt, "var", "world"), "w") as f:
                    f.write("\n".join(init))

        def op_(rt, a=a, op=op):
            update_worldset(WorldFile(os.path.join(rt, "var", "world")), a, remove=op["remove"])

        def reader(rt):
            p = os.path.join(rt, "var", "world")
            if not os.path.lexists(p):
                return {"absent": True}
            return {"entries": sorted(str(x) for x in WorldFile(p))}

        try:
            with bounded_buffer(8 if tid % 2 else None):  # odd scenarios: the write hits the disk inside write()
                evs, info = atomic.scenario(tid, os.path.join(root, f"r{tid}"), setup, op_, reader=reader, watch_paths=["var/world"],
                                            frame=["var/world", "var/.update.world"], faults=True, label="world.flush")
        except (MalformedAtom, KeyError):
            # the update itself fails on this input: reported as Completes by WorldFile_Trace, nothing to interrupt
            ck.extra["crash_scenarios_skipped_update_raises"] = ck.extra.get("crash_scenarios_skipped_update_raises", 0) + 1
            continue
        fs_events += evs
        inputs[tid] = dict(init=init if init is not None else [], ops=[op], atoms=[text], absent=init is None, write_through=bool(tid % 2))
        ck.count()
        ck.extra["crash_points"] = ck.extra.get("crash_points", 0) + info["crash_points"]
        if tid == 0:
            ck.sample(dict(inputs[tid], syscalls=info["ops"], crash_points=info["crash_points"]))
    by = {(e["tid"], e["i"]): e for e in rn.events}
    for v in trace_job.result():
        e, c = by[(v["tid"], v["i"])], rn.cases[v["tid"]]
        prev = by[(v["tid"], v["i"] - 1)]
        ck.violation(v["clause"], dict(init=c["init"], comments=c["comments"], empty_before=not prev["file"], ops=c["ops"], atoms=c["atoms"], at=v["i"], key=e["key"], slot=e["slot"],
                                       remove=e["remove"], slot_len=len(e["slot"]), file_before=prev["file"], file_after=e["file"],
                                       refused=e["refused"], error=e["error"], source=c["source"]))
    for v, e in (atomic.judge(ck, fs_events) if fs_events else []):
        ck.violation(v["clause"], dict(inputs[e["tid"]], event=e.get("ev"), k=e.get("k"), kind=e.get("kind", e.get("op")),
                                       at_op=e.get("at_op", e.get("op")), view=e.get("view")))

    if not ck.replay_case:
        for j in jobs:
            j.result()
        if bad_job.result().violated != "UpdateExact":
            raise tlc.MachineryError("WorldFile_MC: the character-wise variant no longer violates UpdateExact (vacuous model?)")
        if inplace_job.result().violated != "OldOrNew":
            raise tlc.MachineryError("AtomicFile_MC: the in-place variant no longer violates OldOrNew (vacuous model?)")
    pool.shutdown()
