"""C49 — generated metadata accumulates eclass values as PMS requires.

Spec        : specs/EclassAccum.tla — declarative PMS meaning of a small "program" (ebuild body +
              eclass bodies made of VAR=.. / VAR+=.. / unset VAR / inherit .. / phase function /
              EXPORT_FUNCTIONS statements): accumulating keys (IUSE, REQUIRED_USE (EAPI>=4), DEPEND,
              RDEPEND, PDEPEND, BDEPEND (>=7), IDEPEND, PROPERTIES, RESTRICT (>=8)) = the ebuild's own
              final value + the own value of every eclass load; other keys = plain shell final value;
              INHERITED = every eclass sourced; DEFINED_PHASES = defined functions that are phases of
              the EAPI, '-' when none; EAPI 0-3 RDEPEND defaulting from the ebuild's DEPEND.
MC          : specs/EclassAccum_MC.tla — operational model of the bash mechanism (inherit() locals,
              unset -v, E_* accumulators, dynamic scoping); TLC runs every program of a bounded space
              and checks it implements the declarative meaning (Implements, InheritedIsReachability,
              EbuildValueSurvives, Terminates).  Vacuity guard: with bash's default "unset reveals the
              shadowed variable" semantics (Reveal=TRUE) TLC must find a counterexample.
spec -> code: EclassAccum_Export lets TLC pick programs from a bounded family (or enumerate it);
              rendered to real files in an EbuildRepo, regenerated through the real ebuild daemon with
              caching disabled.
code -> spec: seeded random richer programs (3 nested eclasses, several variables, multi-token values,
              EAPIs 0-8) generated here, executed the same way.
All observations are judged by EclassAccum_Trace (clauses Accumulate_<KEY>, EbuildFinal_<KEY>,
Inherited, DefinedPhases, DefinedPhasesDash, RegenFailed).

Carve-outs: token ORDER inside a key is not prescribed (bags are compared); keys that do not exist in
the package's EAPI (e.g. BDEPEND before EAPI 7) are not judged; eclass names are ranked a > b > c and an
eclass inherits only lower ranked ones (no cycles); values are plain words (no quoting/globbing).
Trusted: bash itself, the renderer below (statement -> one line of bash).
"""
import os
import time
from os.path import join as pjoin

from pylib import tlc
from pylib.common import mktmp, rng, seed, use_repo

DEPVARS = ("DEPEND", "RDEPEND", "PDEPEND", "BDEPEND", "IDEPEND")
ALLKEYS = ("IUSE", "REQUIRED_USE", "PROPERTIES", "RESTRICT", "LICENSE", "KEYWORDS") + DEPVARS
PHASE_FUNCS = ("pkg_pretend pkg_setup pkg_config pkg_info pkg_nofetch pkg_prerm pkg_postrm pkg_preinst pkg_postinst "
               "src_unpack src_prepare src_configure src_compile src_test src_install").split()
SHORT2FUNC = {f.split("_", 1)[1]: f for f in PHASE_FUNCS}


# ---------------------------------------------------------------- rendering (spec structure -> bash)
def _tok(var, t):
    return f"cat/{t}" if var in DEPVARS else t


def _untok(var, t):
    return t[4:] if var in DEPVARS and t.startswith("cat/") else t


def render_file(stmts, idx):
    out = []
    for s in stmts:
        op = s["op"]
        if op == "set":
            out.append('%s="%s"' % (s["var"], " ".join(_tok(s["var"], t) for t in s["toks"])))
        elif op == "app":
            out.append('%s+=" %s"' % (s["var"], " ".join(_tok(s["var"], t) for t in s["toks"])))
        elif op == "unset":
            out.append("unset %s" % s["var"])
        elif op == "inherit":
            out.append("inherit " + " ".join(f"{n}{idx}" for n in s["names"]))
        elif op == "phase":
            out.append("%s() { :; }" % s["f"])
        elif op == "export":
            out.append("${ECLASS}_%s() { :; }\nEXPORT_FUNCTIONS %s" % (s["f"], s["f"]))
        else:
            raise tlc.MachineryError(f"unknown statement {s}")
    return "\n".join(out) + "\n"


def full_prog(prog):
    ecl = {n: list(prog["ecl"].get(n, [])) for n in ("a", "b", "c")}
    return dict(eb=list(prog["eb"]), ecl=ecl)


class Lab:
    """One EbuildRepo holding every case of a batch (eclass names carry the case index)."""

    def __init__(self, name):
        from pkgcore.pytest.plugin import EbuildRepo

        self.root = mktmp(name)
        self.er = EbuildRepo(pjoin(self.root, "repo"), repo_id="c49")
        self.cases = []

    def add(self, eapi, prog):
        idx = len(self.cases)
        prog = full_prog(prog)
        for n, body in prog["ecl"].items():
            with open(pjoin(self.er.path, "eclass", f"{n}{idx}.eclass"), "w") as f:
                f.write(render_file(body, idx))
        self.er.create_ebuild(f"cat/p{idx}-1", eapi=str(eapi), license="", data=render_file(prog["eb"], idx))
        self.cases.append((eapi, prog))
        return idx

    def open(self):
        from pkgcore.ebuild import repo_objs, repository

        # caching disabled: no cache backends at all
        self.repo = repository.UnconfiguredTree(self.er.path, cache=(), repo_config=repo_objs.RepoConfig(location=self.er.path))

    def _timed(self, idx, limit=40):
        """pkg.data under a watchdog: a wedged daemon conversation must not hang the check"""
        import signal

        from pkgcore.ebuild import processor

        def on_alarm(_s, _f):
            raise TimeoutError(f"metadata regeneration did not finish within {limit}s (daemon conversation wedged)")

        old = signal.signal(signal.SIGALRM, on_alarm)
        signal.setitimer(signal.ITIMER_REAL, limit)
        try:
            pkg = self.repo.package_class("cat", f"p{idx}", "1")
            return dict(pkg.data)
        except TimeoutError:
            for lst in (processor.active_ebp_list, processor.inactive_ebp_list):
                while lst:
                    try:
                        lst.pop().shutdown_processor(force=True)
                    except Exception:
                        pass
            raise
        finally:
            signal.setitimer(signal.ITIMER_REAL, 0)
            signal.signal(signal.SIGALRM, old)

    def regen(self, idx):
        """-> observation dict (projection of the raw metadata into the spec's vocabulary)"""
        eapi, prog = self.cases[idx]
        obs = dict(eapi=eapi, prog=prog, failed=False, err="", keys=[], inherited=[], phases=[], dash=False)
        try:
            data = self._timed(idx)
        except Exception as e:  # judged by the trace spec (RegenFailed)
            obs["failed"] = True
            obs["err"] = f"{type(e).__name__}: {e}"[:300]
            return obs
        for k in ALLKEYS:
            if k in data:
                obs["keys"].append(dict(k=k, toks=[_untok(k, t) for t in data[k].split()]))
        sfx = str(idx)
        obs["inherited"] = sorted(n[: -len(sfx)] if n.endswith(sfx) else n for n in data.get("_eclasses_", {}))
        dp = data.get("DEFINED_PHASES", "")
        obs["dash"] = dp.strip() == "-"
        if not obs["dash"]:
            obs["phases"] = sorted(SHORT2FUNC.get(x, "?" + x) for x in dp.split())
        return obs


# ---------------------------------------------------------------- random programs (code -> spec)
def S(op, var="-", toks=(), names=(), f="-"):
    return dict(op=op, var=var, toks=list(toks), names=list(names), f=f)


def random_prog(r_, eapi):
    pool = ["IUSE", "DEPEND", "RDEPEND", "PDEPEND", "RESTRICT", "PROPERTIES", "LICENSE", "KEYWORDS"]
    if eapi >= 4:
        pool.append("REQUIRED_USE")
    if eapi >= 7:
        pool.append("BDEPEND")
    if eapi >= 8:
        pool.append("IDEPEND")
    vs = r_.sample(pool, r_.randint(1, 3))
    if "RDEPEND" in vs and "DEPEND" not in vs and r_.random() < 0.7:
        vs.append("DEPEND")
    counter = [0]
    shared = ["s1", "s2"]

    def toks(v=None):
        out = []
        if v == "IUSE" and r_.random() < 0.3:
            # IUSE defaults: +flag / -flag (PMS 7.2), including one letter flag names
            out.append(r_.choice(["+", "-"]) + r_.choice(["n", "e", "E", "x", "flag"]))
        for _ in range(r_.randint(1, 3)):
            if r_.random() < 0.2:
                out.append(r_.choice(shared))
            else:
                counter[0] += 1
                out.append(f"t{counter[0]}")
        return out

    allow_unset = r_.random() < 0.5

    def varstmt():
        v = r_.choice(vs)
        x = r_.random()
        if x < 0.5:
            return S("set", v, toks(v) if r_.random() < 0.9 else [])
        if x < 0.85 or not allow_unset:
            return S("app", v, toks())
        return S("unset", v)

    def body(name, lower):
        out = []
        for _ in range(r_.randint(0, 4)):
            x = r_.random()
            if x < 0.6:
                out.append(varstmt())
            elif x < 0.8 and lower:
                out.append(S("inherit", names=r_.sample(lower, r_.randint(1, len(lower)))))
            elif x < 0.9:
                out.append(S("phase", f=r_.choice(PHASE_FUNCS + ["src_frobnicate", "pkg_foo"])))
            elif name != "eb":
                out.append(S("export", f=r_.choice(PHASE_FUNCS)))
        return out

    prog = dict(eb=body("eb", ["a", "b", "c"]), ecl=dict(a=body("a", ["b", "c"]), b=body("b", ["c"]), c=body("c", [])))
    if not any(s["op"] == "inherit" for s in prog["eb"]):
        prog["eb"].insert(r_.randint(0, len(prog["eb"])), S("inherit", names=r_.sample(["a", "b", "c"], r_.randint(1, 2))))
    return prog


# ---------------------------------------------------------------- model checking configs
def mc_cfg(vars_, eapis, meb, ma, mb, phases, reveal, invariants=True):
    inv = ("INVARIANT Implements\nINVARIANT InheritedIsReachability\nINVARIANT EbuildValueSurvives\n"
           "INVARIANT AllWellFormed\nINVARIANT Terminates\n") if invariants else "INVARIANT Implements\n"
    return ("SPECIFICATION Spec\nCONSTANTS\n  MCVars = {%s}\n  MCEapis = {%s}\n  MaxEb = %d\n  MaxA = %d\n  MaxB = %d\n"
            "  WithPhases = %s\n  Reveal = %s\n%s" % (", ".join('"%s"' % v for v in vars_), ", ".join(map(str, eapis)), meb, ma, mb,
                                                     "TRUE" if phases else "FALSE", "TRUE" if reveal else "FALSE", inv))


def export_cfg(vars_, eapis, ma, mb, n):
    return ("CONSTANTS\n  XVars = {%s}\n  XEapis = {%s}\n  MaxA = %d\n  MaxB = %d\n  NSample = %d\n"
            % (", ".join('"%s"' % v for v in vars_), ", ".join(map(str, eapis)), ma, mb, n))


def tlc_export(ck, module, cfg_text, label, tlc_seed, timeout):
    """ck.export with a TLC -seed (RandomElement must be reproducible); same contract as tlc.export_cases."""
    import json

    out = pjoin(mktmp("export49"), f"{module}.{len(ck.mc_runs)}.ndjson")
    res = tlc.run(module, cfg_text=cfg_text, env={"OUT": out}, timeout=timeout, allow_violation=False, assume_only=True,
                  seed=tlc_seed)
    if not os.path.exists(out):
        raise tlc.MachineryError(f"export {module}: no output file\n{res.out[-2000:]}")
    with open(out) as f:
        cases = [json.loads(line) for line in f if line.strip()]
    ck.add_mc(label, res)
    return cases


def nontrivial(prog):
    """the ebuild inherits an eclass that (transitively) contains at least one statement"""
    return any(prog["ecl"][n] for n in prog["ecl"])


def run(ck):
    use_repo()
    from pkgcore.ebuild import processor

    ck.rule = ("programs (ebuild + eclasses a>b>c of assignment/append/unset/inherit/phase/EXPORT_FUNCTIONS statements) "
               "chosen by TLC from the EclassAccum_Export family and by a seeded random generator, each regenerated through "
               "the real daemon without cache; non-trivial = distinct (eapi, program) whose inherited eclasses contain at "
               "least one statement")
    ck.assumptions = [
        "bash executes one rendered line per statement as written (VAR=\"..\", VAR+=\" ..\", unset VAR, inherit .., f() { :; }, EXPORT_FUNCTIONS f)",
        "token order inside a metadata value is not prescribed: values are compared as bags of words",
        "keys that do not exist in the package's EAPI are not judged; EAPI 9 is disabled on this image (bash 5.2)",
    ]
    try:
        _run(ck, processor)
    finally:
        processor.shutdown_all_processors()


def _run(ck, processor):
    t_start = time.time()
    replay = None
    if ck.replay_case:
        replay = ck.replay_case["detail"]["case"]
    # ---- 1. model checking of the mechanism against the declarative meaning
    if not replay:
        if ck.quick:
            ck.mc("EclassAccum_MC", cfg_text=mc_cfg(["IUSE", "LICENSE"], [8], 2, 1, 1, False, False), workers=4, timeout=300,
                  label="MC:EclassAccum_MC IUSE+LICENSE eapi8 (2,1,1)")
        else:
            for vars_, eapis, sizes, ph in ((["IUSE", "LICENSE"], [8], (3, 1, 1), False),
                                            (["IUSE", "LICENSE"], [8], (2, 2, 1), False),
                                            (["DEPEND", "RDEPEND"], [3, 4], (2, 1, 1), False),
                                            (["RESTRICT"], [7, 8], (3, 1, 1), False),
                                            (["IUSE"], [1, 2, 4], (2, 1, 1), True)):
                ck.mc("EclassAccum_MC", cfg_text=mc_cfg(vars_, eapis, *sizes, ph, False), workers=8, timeout=2400, heap="6g",
                      label=f"MC:EclassAccum_MC {'+'.join(vars_)} eapi{','.join(map(str, eapis))} {sizes}{' phases' if ph else ''}")
        # vacuity guard: bash's default previous-scope unset semantics must break the law
        res = ck.mc("EclassAccum_MC", cfg_text=mc_cfg(["IUSE"], [8], 2, 1, 0, False, True, invariants=False), workers=2, timeout=300,
                    label="MC:EclassAccum_MC Reveal=TRUE (must fail)", expect_ok=False)
        if res.violated != "Implements":
            raise tlc.MachineryError(f"vacuity guard: Reveal=TRUE should violate Implements, got {res.violated}")
        ck.extra["design_note"] = ("EclassAccum_MC with Reveal=TRUE (bash default: unset from a deeper function scope removes the "
                                   "local and reveals the caller's variable) violates Implements; Reveal=FALSE satisfies it")
    # ---- 2. cases
    cases = []  # (origin, eapi, prog)
    if replay:
        cases.append(("replay", replay["eapi"], replay["prog"]))
    else:
        n_exp = ck.pick(16, 700)
        exp = tlc_export(ck, "EclassAccum_Export",
                         export_cfg(["IUSE", "DEPEND", "RDEPEND", "RESTRICT", "PROPERTIES", "LICENSE", "REQUIRED_USE"],
                                    [0, 1, 2, 3, 4, 5, 6, 7, 8], 2, 1, n_exp),
                         f"Export:EclassAccum_Export EAPI-boundary cases + {n_exp} random members", seed() + 49, 600)
        exp.sort(key=lambda c: c["tag"] != "boundary")  # the boundary cases first: never cut by the time box
        for c in exp:
            cases.append(("tlc-" + c["tag"], c["eapi"], c["prog"]))
        if not ck.quick:
            # one (variable, EAPI) pair of the family completely
            ex2 = tlc_export(ck, "EclassAccum_Export", export_cfg(["IUSE"], [8], 1, 1, 0),
                             "Export:EclassAccum_Export whole family IUSE/eapi8 (MaxA=1,MaxB=1)", seed() + 49, 900)
            r2 = rng(4902)
            r2.shuffle(ex2)
            for c in ex2[:500]:
                cases.append(("tlc-family", c["eapi"], c["prog"]))
        r_ = rng(49)
        for _ in range(ck.pick(16, 600)):
            eapi = r_.randint(0, 8)
            cases.append(("random", eapi, random_prog(r_, eapi)))
    # ---- 3. execute on the real daemon
    lab = Lab("c49lab")
    for _o, eapi, prog in cases:
        lab.add(eapi, prog)
    lab.open()
    # time box of the daemon phase (loaded machine: VERIF_TIME_SCALE > 1)
    budget = ck.pick(30, 500) * float(os.environ.get("VERIF_TIME_SCALE", "1"))
    t_phase = time.time()
    events = []
    skipped = 0
    for idx, (origin, eapi, prog) in enumerate(cases):
        if time.time() - t_phase > budget and not replay and len(events) >= 12:
            skipped += 1
            continue
        obs = lab.regen(idx)
        ev = dict(tid=idx, i=0, origin=origin)
        ev.update(obs)
        events.append(ev)
        ck.count()
        if nontrivial(obs["prog"]):
            ck.nontriv(("p", eapi, repr(obs["prog"])))
    if skipped:
        ck.extra["cases_skipped_time_budget"] = skipped
    if events:
        ck.sample(dict(origin=events[0]["origin"], eapi=events[0]["eapi"], ebuild=render_file(events[0]["prog"]["eb"], 0),
                       eclass_a=render_file(events[0]["prog"]["ecl"]["a"], 0), observed=events[0]["keys"]))
        ck.sample(dict(origin=events[-1]["origin"], eapi=events[-1]["eapi"], ebuild=render_file(events[-1]["prog"]["eb"], 0),
                       eclass_a=render_file(events[-1]["prog"]["ecl"]["a"], 0), observed=events[-1]["keys"]))
    # ---- 4. judge
    tr = [{k: v for k, v in e.items() if k not in ("origin", "err")} for e in events]
    verdicts = ck.trace("EclassAccum_Trace", tr, timeout=900)
    by = {e["tid"]: e for e in events}
    for v in verdicts:
        e = by[v["tid"]]
        if v["clause"] == "OutsideDomain":
            raise tlc.MachineryError(f"generator left the property's domain: {e['prog']}")
        prog = e["prog"]
        ops_in_eclasses = sorted({s["op"] for n in prog["ecl"] for s in prog["ecl"][n]})
        unset_vars = sorted({s["var"] for n in prog["ecl"] for s in prog["ecl"][n] if s["op"] == "unset"})
        ck.violation(v["clause"], dict(case=dict(eapi=e["eapi"], prog=prog), eapi=e["eapi"], origin=e["origin"],
                                       eclass_unsets=unset_vars, eclass_ops=ops_in_eclasses, has_eclass_unset=bool(unset_vars),
                                       echo_option_word=any(t in ("-n", "-e", "-E") for f in [prog["eb"]] + list(prog["ecl"].values())
                                                            for s in f for t in s["toks"]),
                                       observed=dict(keys=e["keys"], inherited=e["inherited"], phases=e["phases"], dash=e["dash"]),
                                       error=e.get("err", ""),
                                       ebuild=render_file(prog["eb"], 0),
                                       eclasses={n: render_file(prog["ecl"][n], 0) for n in prog["ecl"]}))
