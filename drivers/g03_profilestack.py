"""G03 (growth area) - the profile stack: linearisation, incremental folding, make.defaults, caching.

Code under test: src/pkgcore/ebuild/profiles.py (ProfileNode, ProfileStack, OnDiskProfile) and the parts of
ebuild/misc.py it uses (IncrementalsDict, incremental_expansion).

Spec        : specs/ProfileStack.tla - the stack of a profile is ROOT followed by the depth-first, parent-order,
              parents-before-child linearisation of the `parent` graph (a shared ancestor once PER PATH, parent
              lines naming nothing skipped and reported); system / profile_set / masks / unmasks / package.provided
              are folds of per-node (neg, pos, -*) triples over it; default_env is the recursion over parents with
              incremental variables appended, the others overwritten, ${VAR} seeing inherited + own values;
              every (node instance, file) is read at most once while a profile object lives, lazily; a failed read is
              a ProfileError naming node and file and caches nothing.
MC          : ProfileStack_MC - Open / Get / Edit / DropAll over a diamond whose files are rewritten between the
              calls; invariants InvCoherent (all values of all live objects describe ONE virtual tree: each file as
              first read), InvFresh, InvReadable, InvReleased; action properties StableRead, ReadOnce,
              FailedGetCachesNoValue; the laws LawEnv (default_env == make.defaults folded over the linearisation),
              LawPairs (domain.py's fold of _incremental_masks == masks), LawOrder, LawPaths over every tree reachable
              by edits.  Vacuity guards TLC must refute: NodeCache=FALSE, WeakCache=FALSE, PerPath=FALSE.
spec -> code: ProfileStack_Sim (TLC -simulate) chooses repository format + histories; plus directed histories.
code -> spec: seeded random DAGs (2-5 nodes, repeated / missing parents, EAPI 0/7 nodes, all four profile-format
              combinations, files / directories-of-files / unparsable files, hidden and backup files inside
              directories) with random histories over up to three live OnDiskProfile objects.
Every history is executed on real OnDiskProfile objects over a tree built in a temporary directory; after every call
the driver records the projected return value or exception, the "bad profile parent" log records and which parsed
files every live node instance holds (ProfileNode.__instance_cache__); ProfileStack_Trace judges every call.

Domain / carve-outs (modelled as what the code does, not flagged):
  * one file is one unordered (neg, pos, -*) triple (tests/ebuild/test_profiles.py pins it);
  * `parent` is a plain file naming directories of the same repository, the graph is acyclic, the leaf exists;
  * ACCEPT_LICENSE is not assigned (its finalisation differs with fixes/C13-*), USE_EXPAND names only PY / ABI,
    no bare "-" token;
  * profile objects are only released all together (what an instance holds when SOME of its users go away depends on
    which reference chains exist);
  * node instances of a non-pms repository: the default_env recursion uses ProfileNode(path) (strict) instances, the
    stack uses _autodetect_and_create ones - both read `parent` separately (modelled by the instance key);
  * logs of missing parents are judged for the call that builds the stack (ProfileNode.parents reports them once
    per instance instead of once per path).
"""
import gc
import logging
import os
import re
import shutil

from pylib import tlc
from pylib.common import mktmp, rng, seed, use_repo

FILES = {"P": "parent", "K": "packages", "M": "package.mask", "U": "package.unmask", "V": "package.provided",
         "E": "make.defaults", "A": "package.accept_keywords"}
FNAME = {v: k for k, v in FILES.items()}
CACHE_ATTR = {"P": "_parent_paths", "K": "_packages", "M": "_masks", "U": "_unmasks", "V": "_pkg_provided",
              "E": "_default_env", "A": "_accept_keywords"}
ATTRS = ["stack", "system", "profile_set", "masks", "unmasks", "incr_masks", "incr_unmasks", "provided",
         "accept_keywords", "default_env", "use_expand", "use"]
PY_ATTR = {"incr_masks": "_incremental_masks", "incr_unmasks": "_incremental_unmasks", "provided": "provides_repo"}
NOC = dict(st="file", v=[])

BAD_PARENT = re.compile(r"'(?P<node>[^']*)/parent' \(line (?P<line>\d+)\), bad profile parent '(?P<text>[^']*)'")


# --------------------------------------------------------------------------------------------
# rendering of the abstract tree into a repository on disk
def tok_text(t):
    if t["kind"] == "ref":
        return "${%s}" % t["name"]
    body = "*" if t["kind"] == "star" else t["name"]
    return ("-" if t["neg"] else "") + body


def lines_of(file, c):
    v = c["v"]
    if file == "P":
        out = ["../" + x for x in v]
    elif file == "K":
        pre = {"sys": "*cat/", "nsys": "-*cat/", "set": "cat/", "nset": "-cat/"}
        out = ["-*" if x["k"] == "wild" else pre[x["k"]] + x["a"] for x in v]
    elif file in ("M", "U"):
        out = [("-" if x["neg"] else "") + "cat/" + x["a"] for x in v]
    elif file == "V":
        out = [("-" if x["neg"] else "") + "cat/" + x["a"] + "-1" for x in v]
    elif file == "A":
        out = [" ".join(["cat/" + x["a"]] + list(x["kws"])) for x in v]
    else:
        out = ['%s="%s"' % (x["var"], " ".join(tok_text(t) for t in x["toks"])) for x in v]
    if c["st"] == "syntax":
        out = out + (['USE="unterminated'] if file == "E" else ["-"])
    return out


class World:
    """One repository in a scratch directory + the live OnDiskProfile objects of one history."""

    def __init__(self, root, tree, r_):
        from pkgcore.ebuild import profiles

        self.profiles = profiles
        self.r = r_
        self.root = root
        self.base = os.path.join(root, "repo", "profiles")
        os.makedirs(self.base)
        os.makedirs(os.path.join(root, "repo", "metadata"))
        fmts = (["pms"] if tree["strict"] else ["portage-1"]) + (["profile-set"] if tree["pset"] else [])
        with open(os.path.join(root, "repo", "metadata", "layout.conf"), "w") as f:
            f.write("masters =\nprofile-formats = %s\n" % " ".join(fmts))
        with open(os.path.join(self.base, "repo_name"), "w") as f:
            f.write("g03\n")
        self.names = sorted(tree["nodes"])
        for n in self.names:
            os.makedirs(self.dir(n), exist_ok=True)
            if tree["nodes"][n]["eapi"] != "0" or self.r.random() < 0.3:
                with open(os.path.join(self.dir(n), "eapi"), "w") as f:
                    f.write(tree["nodes"][n]["eapi"] + "\n")
            for file in FILES:
                self.write(n, file, tree["nodes"][n]["f"][file])
        self.objs = {}

    def dir(self, n):
        return self.base if n == "ROOT" else os.path.join(self.base, n)

    def name_of(self, path):
        path = os.path.abspath(path)
        if path == self.base:
            return "ROOT"
        if os.path.dirname(path) == self.base:
            return os.path.basename(path)
        return "?" + path

    def write(self, n, file, c):
        path = os.path.join(self.dir(n), FILES[file])
        if os.path.isdir(path) and not os.path.islink(path):
            shutil.rmtree(path)
        elif os.path.lexists(path):
            os.unlink(path)
        lines = lines_of(file, c)
        if c["st"] == "dir":
            os.mkdir(path)
            # the lines are spread over files read in sorted order; hidden and backup files are not read
            k = 0
            idx = 0
            while k < len(lines):
                step = self.r.randint(1, 2)
                with open(os.path.join(path, "%02d" % idx), "w") as f:
                    f.write("".join(x + "\n" for x in lines[k:k + step]))
                k += step
                idx += 1
            if self.r.random() < 0.5:
                with open(os.path.join(path, ".hidden"), "w") as f:
                    f.write("cat/hidden\n" if file != "V" else "cat/hidden-1\n")
                with open(os.path.join(path, "99backup~"), "w") as f:
                    f.write("-cat/a\n" if file != "V" else "-cat/a-1\n")
            return
        if not lines and self.r.random() < 0.5:
            return  # an absent file and an empty file mean the same
        with open(path, "w") as f:
            if file != "P" and self.r.random() < 0.3:  # (the reported line of a parent entry is its file line)
                f.write("# a comment\n\n")
            f.write("".join(x + "\n" for x in lines))

    # ---- observation ----
    def loaded(self):
        out = []
        for kls in (self.profiles.ProfileNode, self.profiles.EmptyRootNode):
            for inst in list((kls.__instance_cache__ or {}).values()):
                p = getattr(inst, "path", "")
                if not (p == self.base or p.startswith(self.base + os.sep)):
                    continue
                if (kls is self.profiles.EmptyRootNode) != (p == self.base):
                    continue
                for file, attr in CACHE_ATTR.items():
                    if attr in inst.__dict__:
                        out.append(dict(n=self.name_of(p), s=bool(inst.pms_strict), f=file))
        return sorted(out, key=lambda d: (d["n"], d["s"], d["f"]))

    def atom(self, a):
        s = str(a)
        return s[4:] if s.startswith("cat/") else "?" + s

    def project(self, attr, val):
        if attr == "stack":
            return [self.name_of(x.path) for x in val]
        if attr in ("system", "profile_set", "masks", "unmasks"):
            return sorted(self.atom(a) for a in val)
        if attr in ("incr_masks", "incr_unmasks"):
            return [dict(neg=sorted({self.atom(a) for a in neg}), pos=sorted({self.atom(a) for a in pos})) for neg, pos in val]
        if attr == "accept_keywords":
            return [dict(a=self.atom(a), kws=list(kws)) for a, kws in val]
        if attr == "provided":
            out = []
            for pkg in val:
                s = pkg.cpvstr
                out.append(s[4:-2] if s.startswith("cat/") and s.endswith("-1") else "?" + s)
            return sorted(out)
        if attr == "default_env":
            return [dict(var=k, toks=(list(v) if isinstance(v, tuple) else v.split()), tuple=isinstance(v, tuple))
                    for k, v in sorted(val.items())]
        if attr == "use_expand":
            return sorted(val)
        if attr == "use":
            return list(val)
        raise ValueError(attr)

    # ---- the calls ----
    def open(self, o, leaf):
        self.objs[o] = self.profiles.OnDiskProfile(self.base, leaf)

    def get(self, o, attr, cap):
        ev = dict(raised=False, exc=dict(cls="-", node="-", file="-"), val=[], logs=[])
        cap.records = []
        try:
            val = getattr(self.objs[o], PY_ATTR.get(attr, attr))
            ev["val"] = self.project(attr, val)
            del val
        except Exception as e:  # judged by the trace spec
            ev["raised"] = True
            ev["exc"]["cls"] = type(e).__name__
            if isinstance(e, self.profiles.ProfileError):
                ev["exc"]["node"] = self.name_of(e.path)
                ev["exc"]["file"] = FNAME.get(e.filename, "?" + str(e.filename))
            else:
                ev["exc"]["msg"] = str(e)[:200]
        for msg in cap.records:
            m = BAD_PARENT.search(msg)
            if m:
                node = m.group("node")
                text = m.group("text")
                ev["logs"].append(dict(node=node if node else "ROOT", line=int(m.group("line")),
                                       text=text[3:] if text.startswith("../") else "?" + text))
        cap.records = []
        ev["loaded"] = self.loaded()
        return ev

    def dropall(self):
        self.objs.clear()
        gc.collect()
        return self.loaded()


class Capture(logging.Handler):
    def __init__(self):
        super().__init__(level=logging.ERROR)
        self.records = []

    def emit(self, record):
        try:
            self.records.append(record.getMessage())
        except Exception:
            self.records.append(str(record.msg))


# --------------------------------------------------------------------------------------------
def run_history(tid, tree, hist, scratch, r_, cap, events, objs=("o1", "o2", "o3")):
    """Execute the inputs of one history on the real code; append the observed events."""
    root = os.path.join(scratch, "w%d" % tid)
    w = World(root, tree, r_)
    i = 0
    events.append(dict(tid=tid, i=i, ev="init", tree=tree, objs=list(objs)))
    try:
        for h in hist:
            i += 1
            ev = dict(tid=tid, i=i, ev=h["ev"])
            if h["ev"] == "open":
                w.open(h["o"], h["x"])
                ev.update(o=h["o"], leaf=h["x"])
            elif h["ev"] == "get":
                ev.update(o=h["o"], attr=h["x"])
                ev.update(w.get(h["o"], h["x"], cap))
            elif h["ev"] == "edit":
                w.write(h["node"], h["file"], h["c"])
                ev.update(node=h["node"], file=h["file"], c=h["c"])
            elif h["ev"] == "dropall":
                ev.update(loaded=w.dropall())
            else:
                raise tlc.MachineryError(f"unknown history entry {h}")
            events.append(ev)
    finally:
        w.dropall()
        shutil.rmtree(root, ignore_errors=True)


def H(ev, o="-", x="-", node="-", file="-", c=None):
    return dict(ev=ev, o=o, x=x, node=node, file=file, c=c or NOC)


# --------------------------------------------------------------------------------------------
# code -> spec: random trees and histories (inputs only; nothing here says what the answer is)
ATOMS = ["a", "b", "c", "d"]
FLAGS = ["x", "y", "z"]
PLAIN = ["one", "two", "three"]
KWS = ["amd64", "~amd64", "**", "-*", "~x86"]


def rnd_content(r_, file, lower, strict, for_edit=False):
    x = r_.random()
    if file == "P":
        k = r_.choice([0, 1, 1, 2, 2, 3]) if lower else r_.choice([0, 0, 1])
        cand = lower + ["zz", "yy"] if r_.random() < 0.3 else (lower or ["zz"])
        return dict(st="file", v=[r_.choice(cand) for _ in range(k)])
    n = r_.choice([0, 1, 1, 2, 3])
    if file == "K":
        v = [dict(k=r_.choice(["sys", "sys", "nsys", "set", "nset"]), a=r_.choice(ATOMS)) for _ in range(n)]
        if r_.random() < 0.25:
            v.insert(r_.randint(0, len(v)), dict(k="wild", a="-"))
    elif file in ("M", "U", "V"):
        v = [dict(neg=r_.random() < 0.4, a=r_.choice(ATOMS)) for _ in range(n)]
    elif file == "A":
        v = [dict(a=r_.choice(ATOMS), kws=[r_.choice(KWS) for _ in range(r_.choice([0, 1, 2, 3]))]) for _ in range(n)]
    else:
        v = []
        for _ in range(n):
            var = r_.choice(["USE", "USE", "FEATURES", "USE_EXPAND", "PY", "ABI", "FOO", "ARCH", "CONFIG_PROTECT"])
            toks = []
            for _ in range(r_.choice([0, 1, 1, 2, 3])):
                y = r_.random()
                if y < 0.12:
                    toks.append(dict(neg=False, kind="ref", name=r_.choice(["USE", "FEATURES", "PY", "FOO", "ARCH", var])))
                elif var == "USE_EXPAND":
                    toks.append(dict(neg=r_.random() < 0.3, kind="flag", name=r_.choice(["PY", "ABI"])))
                elif var in ("PY", "ABI", "FOO", "ARCH"):
                    toks.append(dict(neg=False, kind="flag", name=r_.choice(PLAIN)))
                elif y < 0.22:
                    toks.append(dict(neg=True, kind="star", name=""))
                else:
                    toks.append(dict(neg=r_.random() < 0.35, kind="flag", name=r_.choice(FLAGS)))
            v.append(dict(var=var, toks=toks))
    st = "file"
    if x < 0.10 and file in ("K", "V", "E"):
        st = "syntax"
    elif x < 0.30 and file in ("M", "U", "V", "A"):
        st = "dir"
    elif x < 0.14 and file in ("K", "E"):
        st = "dir"
    return dict(st=st, v=v)


def rnd_tree(r_):
    k = r_.randint(2, 5)
    names = ["n%d" % (j + 1) for j in range(k)]
    strict = r_.random() < 0.5
    nodes = {}
    for j, n in enumerate(["ROOT"] + names):
        lower = names[: j - 1] if j else []
        f = {file: rnd_content(r_, file, lower, strict) for file in FILES}
        if n == "ROOT":
            f["P"] = dict(st="file", v=[])
        nodes[n] = dict(eapi=r_.choice(["0", "0", "7"]), f=f)
    return dict(strict=strict, pset=r_.random() < 0.5, nodes=nodes), names


def rnd_history(r_, tree, names, steps):
    hist = []
    opened = []
    objs = ["o1", "o2", "o3"]
    for _ in range(steps):
        x = r_.random()
        free = [o for o in objs if o not in opened]
        if not opened or (x < 0.12 and free):
            o = r_.choice(free)
            leaf = r_.choice(names[-2:] if r_.random() < 0.7 else names)
            hist.append(H("open", o=o, x=leaf))
            opened.append(o)
        elif x < 0.62:
            hist.append(H("get", o=r_.choice(opened), x=r_.choice(ATTRS)))
        elif x < 0.92:
            n = r_.choice(["ROOT"] + names)
            file = r_.choice(list(FILES))
            if n == "ROOT" and file == "P":
                continue
            j = names.index(n) if n != "ROOT" else 0
            hist.append(H("edit", node=n, file=file, c=rnd_content(r_, file, names[:j] if n != "ROOT" else [], tree["strict"])))
        else:
            hist.append(H("dropall"))
            opened = []
    return hist


# directed histories (inputs only) over the MC diamond: the corner cases the model singles out
def directed(t0):
    from copy import deepcopy

    def F(x):
        return dict(neg=False, kind="flag", name=x)

    pos_a = dict(st="file", v=[dict(neg=False, a="c")])
    broken = dict(st="syntax", v=[])
    out = []
    # shared ancestor edited while one object is alive: the second object sees what the first one read
    out.append((t0, [H("open", "o1", "n4"), H("get", "o1", "masks"), H("edit", node="n1", file="M", c=pos_a),
                     H("open", "o2", "n2"), H("get", "o2", "masks"), H("get", "o2", "incr_masks"), H("get", "o1", "masks"),
                     H("dropall"), H("open", "o1", "n2"), H("get", "o1", "masks")]))
    # failure, what survives it, repair, retry
    out.append((t0, [H("edit", node="n2", file="E", c=broken), H("open", "o1", "n4"), H("get", "o1", "use"),
                     H("get", "o1", "default_env"), H("get", "o1", "masks"),
                     H("edit", node="n2", file="E", c=dict(st="file", v=[dict(var="USE", toks=[F("y")])])),
                     H("edit", node="n1", file="E", c=dict(st="file", v=[dict(var="USE", toks=[F("late")])])),
                     H("get", "o1", "default_env"), H("get", "o1", "use")]))
    # a directory where the repository format does not allow one / allows one
    for strict in (True, False):
        t = deepcopy(t0)
        t["strict"] = strict
        out.append((t, [H("edit", node="n2", file="M", c=dict(st="dir", v=[dict(neg=True, a="a"), dict(neg=False, a="d")])),
                        H("edit", node="n1", file="P", c=dict(st="file", v=["zz"])),
                        H("open", "o1", "n4"), H("get", "o1", "system"), H("get", "o1", "masks"), H("get", "o1", "unmasks"),
                        H("get", "o1", "incr_masks"), H("get", "o1", "stack"), H("get", "o1", "default_env")]))
    return out


# --------------------------------------------------------------------------------------------
MC_BASE = dict(Objs='{"o1", "o2"}', GetAttrs='{"masks"}', OpenLeaves='{"n4", "n2"}', EditSet="EditsQ1",
               StrictChoices="{TRUE}", PSetChoices="{TRUE}", WithObjects="TRUE", NodeCache="TRUE", WeakCache="TRUE",
               PerPath="TRUE")
OBJ_INVS = ["InvCoherent", "InvFresh", "InvReadable", "InvReleased"]
OBJ_PROPS = ["StableRead", "ReadOnce", "FailedGetCachesNoValue"]
LAW_INVS = ["LawEnv", "LawPairs", "LawOrder", "LawPaths"]


def mc_cfg(consts, invs, props, spec="Spec", extra=""):
    c = dict(MC_BASE)
    c.update(consts)
    edits = c.pop("EditSet")
    return (f"SPECIFICATION {spec}\nCONSTANTS\n" + "".join(f"  {k} = {v}\n" for k, v in c.items())
            + f"  EditSet <- {edits}\n" + "".join(f"INVARIANT {x}\n" for x in invs)
            + "".join(f"PROPERTY {x}\n" for x in props) + extra)


def mc_runs(ck):
    q = ck.quick
    runs = [
        # (label, constants, invariants, properties)
        ("shared masks", dict(EditSet="EditsQ0" if q else "EditsQ1"), OBJ_INVS, OBJ_PROPS),
        ("env, non-pms instances", dict(Objs='{"o1"}' if q else '{"o1", "o2"}', GetAttrs='{"default_env", "use"}',
                                        OpenLeaves='{"n4"}' if q else '{"n4", "n2"}', EditSet="EditsQ2a",
                                        StrictChoices="{FALSE}"), OBJ_INVS, OBJ_PROPS),
        ("failures", dict(Objs='{"o1"}', GetAttrs='{"system", "provided"}' if q else '{"system", "provided", "profile_set"}',
                          OpenLeaves='{"n4"}', EditSet="EditsQ3", PSetChoices="{TRUE}" if q else "{TRUE, FALSE}"),
         OBJ_INVS, OBJ_PROPS),
        ("laws: env", dict(WithObjects="FALSE", EditSet="EditsLawEnvQ" if q else "EditsLawEnv"), LAW_INVS, []),
        ("laws: masks", dict(WithObjects="FALSE", EditSet="EditsLawMaskQ" if q else "EditsLawMask"), LAW_INVS, []),
    ]
    if not q:
        runs += [
            ("masks + parents", dict(GetAttrs='{"masks", "stack"}', EditSet="EditsMasks", OpenLeaves='{"n4", "n3"}'),
             OBJ_INVS, OBJ_PROPS),
            ("env, two files", dict(Objs='{"o1"}', GetAttrs='{"default_env", "use"}', OpenLeaves='{"n4", "n2"}',
                                    EditSet="EditsQ2", StrictChoices="{TRUE, FALSE}"), OBJ_INVS, OBJ_PROPS),
            ("mixed", dict(Objs='{"o1"}', GetAttrs='{"masks", "system", "default_env"}', OpenLeaves='{"n4"}',
                           EditSet="EditsMixed", StrictChoices="{FALSE}"), OBJ_INVS, OBJ_PROPS),
        ]
    return runs


GUARDS = [  # (constants of the broken design, what TLC must report)
    (dict(NodeCache="FALSE", Objs='{"o1"}', OpenLeaves='{"n4"}', EditSet="EditsQ0"), ["InvCoherent"], "InvCoherent"),
    (dict(WeakCache="FALSE", Objs='{"o1"}', OpenLeaves='{"n4"}', EditSet="EditsQ0"), ["InvFresh"], "InvFresh"),
    (dict(PerPath="FALSE", WithObjects="FALSE", EditSet="EditsLawEnvQ"), ["LawEnv"], "LawEnv"),
]


TRACE_ENV = {"JAVA_TOOL_OPTIONS": "-Xss256m"}


def report(ck, label, events, hists, verdicts, res):
    """Turn the verdicts of one judged batch into violations (called in the main thread)."""
    ck.add_mc(label, res)
    ck.traces += len({e["tid"] for e in events})
    by = {(e["tid"], e["i"]): e for e in events}
    for v in verdicts:
        e = by[(v["tid"], v["i"])]
        tree, hist = hists[v["tid"]]
        if v["clause"] == "OutsideDomain":
            raise tlc.MachineryError(f"generator left the domain: {e}")
        detail = dict(call=e["ev"], attr=e.get("attr", "-"), exc=e.get("exc", {}).get("cls", "-"),
                      exc_file=e.get("exc", {}).get("file", "-"), strict=tree["strict"], pset=tree["pset"],
                      tree=tree, history=hist[: v["i"]],
                      observed={k: e[k] for k in ("raised", "exc", "val", "logs", "loaded") if k in e})
        ck.violation(v["clause"], detail)


def judge(ck, events, hists, label):
    verdicts, res = tlc.trace_check("ProfileStack_Trace", events, timeout=2400, env=TRACE_ENV)
    report(ck, label, events, hists, verdicts, res)


def run(ck):
    use_repo()
    ck.rule = ("histories of Open / Get(attribute) / Edit(file) / DropAll on real OnDiskProfile objects over profile trees "
               "built in a temporary directory (TLC-simulated over the model's diamond, directed, and seeded random DAGs); "
               "non-trivial = distinct (tree, history) in which an attribute is read after an edit made while a profile "
               "object was alive, or a read fails")
    ck.assumptions = [
        "a file is one unordered (neg, pos, -*) triple; parent graphs are acyclic, parents are plain `../name` lines",
        "profile objects are released all together; ACCEPT_LICENSE is not assigned; USE_EXPAND names PY / ABI only",
        "projection: atoms cat/<a>, package.provided entries cat/<a>-1, node = directory name under profiles/",
        "ProfileNode.__instance_cache__ and the jit attribute names (_masks, _packages, ...) are used to observe what "
        "live node instances hold",
    ]
    cap = Capture()
    plog = logging.getLogger("pkgcore")
    plog.addHandler(cap)
    keep_prop = plog.propagate
    plog.propagate = False
    scratch = mktmp("g03")
    try:
        _run(ck, scratch, cap)
    finally:
        plog.removeHandler(cap)
        plog.propagate = keep_prop


def _run(ck, scratch, cap):
    r_ = rng(3)
    if ck.replay_case:
        d = ck.replay_case["detail"]
        events = []
        run_history(0, d["tree"], d["history"], scratch, r_, cap, events)
        judge(ck, events, {0: (d["tree"], d["history"])}, "Trace:replay")
        ck.count()
        ck.sample(d["history"])
        ck.nontriv("replay")
        return
    from concurrent.futures import ThreadPoolExecutor

    # every TLC run is an independent process: they are started from a small pool of threads while the main
    # thread executes histories on the real code (JVM starts are slow on a loaded box)
    pool = ThreadPoolExecutor(ck.pick(6, 4))
    try:
        # 1. the design: model checking + vacuity guards (collected at the end)
        mc = []
        if True:
            for label, c, invs, props in mc_runs(ck):
                mc.append((f"MC:{label}", None, pool.submit(tlc.run, "ProfileStack_MC", cfg_text=mc_cfg(c, invs, props),
                                                            workers=ck.pick(2, 4), timeout=ck.pick(900, 3000))))
            for c, invs, want in GUARDS:
                mc.append((f"MC:guard {next(k for k in c if k in ('NodeCache', 'WeakCache', 'PerPath'))}=FALSE must violate {want}", want, pool.submit(tlc.run, "ProfileStack_MC", cfg_text=mc_cfg(c, invs, []),
                                                              workers=1, timeout=900)))
        # 2. spec -> code: the simulation runs while the random histories are executed
        D = ck.pick(12, 18)
        nsim = ck.pick(50, 200)
        sim_consts = dict(Objs='{"o1", "o2"}', GetAttrs="AllAttrs", OpenLeaves='{"n4", "n3", "n2"}', EditSet="EditsQ1",
                          StrictChoices="{TRUE, FALSE}", PSetChoices="{TRUE, FALSE}")
        sim_cfg = mc_cfg(sim_consts, ["Emit"], [], spec="SimSpec", extra=f"CONSTANT D = {D}\n").replace(
            "GetAttrs = AllAttrs", "GetAttrs <- AllAttrs")
        sim_f = pool.submit(tlc.run, "ProfileStack_Sim", cfg_text=sim_cfg, simulate=f"num={nsim}", depth=D + 2,
                            seed=seed() + 3, workers=1, timeout=2400)
        # 3. code -> spec
        pending = []  # (label, events, hists, future)
        events, hists = [], {}
        tid = 0
        nrand = ck.pick(180, 1600)
        batch = 400
        for b0 in range(0, nrand, batch):
            for k in range(b0, min(nrand, b0 + batch)):
                tree, names = rnd_tree(r_)
                hist = rnd_history(r_, tree, names, r_.randint(6, ck.pick(16, 26)))
                run_history(tid, tree, hist, scratch, r_, cap, events)
                hists[tid] = (tree, hist)
                account(ck, "rnd", tree, hist, events, tid)
                tid += 1
            if b0 == 0:
                ck.sample(dict(direction="code->spec", tree=tree, history=hist))
            if not ck.quick:
                pending.append((f"Trace:random histories {b0}..", events, hists,
                                pool.submit(tlc.trace_check, "ProfileStack_Trace", events, timeout=2400, env=TRACE_ENV)))
                events, hists = [], {}
        sim = sim_f.result()
        ck.add_mc(f"Simulate:ProfileStack_Sim num={nsim} depth={D}", sim)
        behs = [(p[1], p[2]) for p in sim.tagged("BEH")]
        if len(behs) < nsim // 2:
            raise tlc.MachineryError(f"simulation produced only {len(behs)} behaviours\n{sim.out[-2000:]}")
        behs = directed(behs[0][0]) + behs
        for tree, hist in behs:
            run_history(tid, tree, hist, scratch, r_, cap, events)
            hists[tid] = (tree, hist)
            account(ck, "sim", tree, hist, events, tid)
            tid += 1
        ck.sample(dict(direction="spec->code", history=behs[len(behs) // 2][1]))
        # (the quick tier judges everything in one TLC run)
        judge(ck, events, hists, "Trace:simulated+directed" + ("+random histories" if ck.quick else " histories"))
        for label, evs, hs, fut in pending:
            verdicts, res = fut.result()
            report(ck, label, evs, hs, verdicts, res)
        for label, want, fut in mc:
            res = fut.result()
            ck.add_mc(label, res)
            if want is None and res.violated:
                raise tlc.MachineryError(f"{label}: the model violates {res.violated}\n{res.out[-3000:]}")
            if want is not None and res.violated != want:
                raise tlc.MachineryError(f"vacuity guard {label}: TLC should refute {want}, got {res.violated}\n{res.out[-2000:]}")
        if mc:
            ck.extra["vacuity_guards_refuted"] = [g[2] for g in GUARDS]
    finally:
        pool.shutdown(wait=True, cancel_futures=True)


def account(ck, kind, tree, hist, events, tid):
    ck.count()
    alive, dirty, nontriv = False, False, False
    mine = [e for e in events[-(len(hist) + 1):] if e["tid"] == tid]
    for e in mine:
        if e["ev"] == "open":
            alive = True
        elif e["ev"] == "dropall":
            alive = dirty = False
        elif e["ev"] == "edit" and alive:
            dirty = True
        elif e["ev"] == "get" and (dirty or e["raised"]):
            nontriv = True
    if nontriv:
        ck.nontriv((kind, repr(tree), repr(hist)))
