"""C25 — binary package tarballs round-trip their contents (fs/tar.py).

Spec        : TarRoundTrip.tla — contents sets as path-keyed entry sets, inode groups as partitions;
              Resolve = where a live merge puts each entry (directory part walked through the set's own
              symlinks like the kernel: chains, nested, absolute, "../"); archive model (members, "lnk"
              members naming an earlier member), WriteSeq, ReadArchive; Expected(s) = Resolve(s) + parents.
Laws / MC   : TarRoundTrip_Laws (Read(Write(s)) ~ Expected(s) for EVERY in-domain subset of the pool, with
              and without directories first; Resolve idempotent, nothing left below a link; empty archive)
              and TarRoundTrip_MC (writer and reader as processes over the member sequence, all orders:
              the reader's name->inode cache never misses, result ~ Expected, reader == ReadArchive; the
              "nolink" writer and the writer keying its table by inode NUMBER only ("inokey") must violate
              RoundTrip — vacuity guards).
spec -> code: TarRoundTrip_Export: (a) in-domain subsets of the pool are BUILT ON DISK (hard links, symlinks,
              fifos, owners, mtimes), written with the real write_set / add_contents_to_tarfile and read with
              generate_contents / convert_archive; (b) member sequences of a foreign writer (any order, hard
              link stars and chains x->y->z) rendered with the stdlib tarfile and read by the real reader.
              Files carry the device / inode number the set states (fsFile dev/inode): groups on several
              devices whose inode numbers collide; such sets are run in both set orders.
code -> spec: seeded random trees (hard link groups on up to three devices with colliding numbers, symlink chains, entries named through symlinked
              directories, fifos, devices, awkward names, big ids, sub-second mtimes), bzip2 / plain (xz only
              for reading foreign archives: writing at xz -9 costs seconds per archive);
              archives without members (written from the empty set; a compressed zero-length stream).
Everything is judged by TarRoundTrip_Trace: RT_* / Read_* (Paths, Type, Mode, Owner, Mtime, Target, Data,
Device, HardlinkGroups, MissingDirs, PathKeyed, Raised), Arch_* (the tarball the writer produced, listed
with the stdlib: one member per entry, links only backwards inside one inode group, one data-bearing
member per group), Empty_*.

Carve-outs ("Unspecified", counted, never judged): symlink loops (convert_archive does not even terminate on
some of them, e.g. /usr -> /usr/x with another link below /usr: the generator never points a link below
itself, and every case runs under a 20 s limit — a case that does not come back is recorded as
raised=Timeout and judged like any other exception); two entries that land on the same place after
resolution; entries below a non-directory.  Generator restrictions: ".." only leading in link
targets (textual vs physical ".." differ otherwise); hard links share attributes (one inode on disk);
ids/mtimes < 2^31; attributes of directories supplied for missing parents are not specified; member ORDER
of the result is not part of the property.  write_set(compressor=None) is not supported by
snakeoil.compression: "uncompressed" goes through add_contents_to_tarfile / convert_archive on a plain
TarFile (the anchored mechanism functions).
"""
import bz2
import contextlib
import hashlib
import lzma
import os
import shutil
import signal
import stat
import tarfile as std_tarfile

from pylib import tlc
from pylib.common import mktmp, rng, use_repo

TYPES = {"dir", "file", "sym", "fifo", "dev"}


def blank(path, typ):
    return dict(path=list(path), type=typ, mode=0o644, uid=0, gid=0, msec=1400000000, musec=0, target="", tabs=False,
                tcomps=[], cid=0, major=0, minor=0, devkind="-", dev=0, ino=0)


class CaseTimeout(BaseException):
    pass


@contextlib.contextmanager
def time_limit(seconds=20):
    """a case normally takes ~20 ms; a case that does not come back is recorded as raised=Timeout and judged."""
    def _h(*a):
        raise CaseTimeout()
    old = signal.signal(signal.SIGALRM, _h)
    signal.alarm(seconds)
    try:
        yield
    finally:
        signal.alarm(0)
        signal.signal(signal.SIGALRM, old)


class Cids:
    """content ids: small ints for byte strings (identity only)."""

    def __init__(self):
        self.by_hash = {}
        self.bytes_of = {}

    def data(self, cid):
        if cid not in self.bytes_of:
            b = (f"content-{cid}\n" * (1 + (cid * 37) % 150)).encode() if cid % 7 else b""
            self.bytes_of[cid] = b
            self.by_hash.setdefault(hashlib.sha1(b).digest(), cid)
        return self.bytes_of[cid]

    def cid(self, b):
        h = hashlib.sha1(b).digest()
        if h not in self.by_hash:
            self.by_hash[h] = 100000 + len(self.by_hash)
        return self.by_hash[h]


def split_mtime(m):
    sec = int(m // 1)
    usec = int(round((m - sec) * 1e6))
    if usec >= 1000000:
        sec, usec = sec + 1, 0
    return sec, usec


def project(cset, cids, structure=None):
    """pkgcore fs objects -> abstract entries (shared by both directions)."""
    # dev / ino: small ints for the device and for the inode NUMBER (numbers that collide across devices
    # keep colliding); identity of an inode is the pair, as in the specification
    devs, inos, out = {}, {}, []
    for o in cset:
        e = blank([c for c in o.location.split("/") if c], "?")
        e["mode"] = stat.S_IMODE(o.mode)
        e["uid"], e["gid"] = int(o.uid), int(o.gid)
        e["msec"], e["musec"] = split_mtime(o.mtime)
        if o.is_reg:
            e["type"] = "file"
            with o.data.bytes_fileobj() as f:
                e["cid"] = cids.cid(f.read())
            if None not in (o.dev, o.inode):
                e["dev"] = devs.setdefault(o.dev, len(devs) + 1)
                e["ino"] = inos.setdefault(o.inode, len(inos) + 1)
        elif o.is_dir:
            e["type"] = "dir"
        elif o.is_sym:
            e["type"] = "sym"
            e["target"] = o.target
            if structure and tuple(e["path"]) in structure:
                e["tabs"], e["tcomps"] = structure[tuple(e["path"])]
        elif o.is_fifo:
            e["type"] = "fifo"
        elif o.is_dev:
            e["type"] = "dev"
            e["major"], e["minor"] = int(o.major), int(o.minor)
            e["devkind"] = "c" if stat.S_ISCHR(o.mode) else "b" if stat.S_ISBLK(o.mode) else "?"
        out.append(e)
    return out


class Builder:
    """Realises abstract entries as objects on disk and as a pkgcore contents set."""

    def __init__(self, root, cids):
        self.root, self.cids, self.n = root, cids, 0

    def build(self, ents):
        from pkgcore.fs import contents, livefs
        from snakeoil.chksum import get_handlers

        # only the size is needed by the writer: do not compute every known checksum per file
        size_only = get_handlers(("size",))
        self.n += 1
        base = os.path.join(self.root, f"t{self.n}")
        os.mkdir(base)
        first = {}
        objs = []
        for k, e in enumerate(ents):
            phys = os.path.join(base, f"o{k}")
            t = e["type"]
            over = {}
            if t == "file":
                grp = (e["dev"], e["ino"])
                if e["ino"] and grp in first:
                    os.link(first[grp], phys)
                else:
                    with open(phys, "wb") as f:
                        f.write(self.cids.data(e["cid"]))
                    if e["ino"]:
                        first[grp] = phys
                over = dict(chksum_handlers=size_only)
                if not e["ino"]:
                    over.update(inode=None, dev=None)
                else:
                    # the entry's device / inode NUMBER as the set states them (a contents set may span
                    # several filesystems of the build host: inode numbers are unique per device only)
                    over.update(dev=0x800 + e["dev"], inode=4000 + e["ino"])
            elif t == "dir":
                os.mkdir(phys)
            elif t == "sym":
                os.symlink(e["target"], phys)
            elif t == "fifo":
                os.mkfifo(phys)
            elif t == "dev":
                os.mknod(phys, (stat.S_IFCHR if e["devkind"] == "c" else stat.S_IFBLK) | 0o600, os.makedev(e["major"], e["minor"]))
            else:
                raise tlc.MachineryError(f"unknown entry type {t}")
            os.lchown(phys, e["uid"], e["gid"])
            if t != "sym":
                os.chmod(phys, e["mode"])
            ns = e["msec"] * 10**9 + e["musec"] * 1000
            os.utime(phys, ns=(ns, ns), follow_symlinks=False)
            objs.append(livefs.gen_obj("/" + "/".join(e["path"]), real_location=phys, **over))
        return contents.contentsSet(objs), base


def list_archive(path, comp):
    """members of a tarball as the stdlib sees them: [{name, kind, link}]"""
    mode = {"bz2": "r:bz2", "xz": "r:xz", "plain": "r:"}[comp]
    out = []
    with std_tarfile.open(path, mode) as tf:
        for m in tf:
            kind = ("dir" if m.isdir() else "reg" if m.isreg() else "lnk" if m.islnk() else "sym" if m.issym()
                    else "fifo" if m.isfifo() else "dev" if m.isdev() else "?")
            out.append(dict(name=[c for c in m.name.split("/") if c not in ("", ".")], kind=kind,
                            link=[c for c in m.linkname.split("/") if c not in ("", ".")] if kind == "lnk" else []))
    return out


class Tar:
    def __init__(self, root, cids):
        from pkgcore.fs import tar

        self.tar, self.root, self.cids, self.n = tar, root, cids, 0

    def path(self):
        self.n += 1
        return os.path.join(self.root, f"a{self.n}.tar")

    def write(self, cset, path, comp):
        if comp == "plain":
            th = self.tar.tarfile.TarFile(name=path, mode="w")
            try:
                self.tar.add_contents_to_tarfile(cset, th)
            finally:
                th.close()
        else:
            self.tar.write_set(cset, path, compressor=comp)

    def read(self, path, comp):
        if comp == "plain":
            return self.tar.convert_archive(self.tar.tarfile.TarFile(name=path, mode="r"))
        return self.tar.generate_contents(path, compressor=comp)

    def roundtrip(self, tid, builder, ents, comp):
        ev = dict(tid=tid, i=0, ev="roundtrip", comp=comp, src=[], arch=[], got=[], raised="")
        cset, base = builder.build(ents)
        structure = {tuple(e["path"]): (e["tabs"], e["tcomps"]) for e in ents if e["type"] == "sym"}
        ev["src"] = project(cset, self.cids, structure)
        path = self.path()
        try:
            with time_limit():
                self.write(cset, path, comp)
                try:
                    ev["arch"] = list_archive(path, comp)
                except Exception as e:  # a tarball the stdlib cannot list: left to the RT clauses
                    ev["arch"] = []
                    ev["arch_error"] = type(e).__name__
                ev["got"] = project(self.read(path, comp), self.cids)
        except CaseTimeout:
            ev["raised"], ev["got"] = "Timeout: no result after 20 s", []
        except Exception as e:
            ev["raised"] = f"{type(e).__name__}: {str(e)[:100]}"
        finally:
            shutil.rmtree(base, ignore_errors=True)
            if os.path.exists(path):
                os.unlink(path)
        return ev

    def foreign(self, tid, members, comp, style):
        """render a spec-chosen member sequence with the stdlib tarfile, read it with pkgcore."""
        ev = dict(tid=tid, i=0, ev="read", comp=comp, arch=members, got=[], raised="")
        path = self.path()
        pre = {0: "./", 1: "", 2: "/"}[style]
        with std_tarfile.open(path, {"bz2": "w:bz2", "xz": "w:xz", "plain": "w:"}[comp]) as tf:
            for m in members:
                e = m["ent"]
                ti = std_tarfile.TarInfo(pre + "/".join(e["path"]))
                ti.mode, ti.uid, ti.gid = e["mode"], e["uid"], e["gid"]
                ti.mtime = e["msec"] + e["musec"] / 1e6 if e["musec"] else e["msec"]
                data = None
                k = m["kind"]
                if k == "reg":
                    ti.type = std_tarfile.REGTYPE
                    b = self.cids.data(e["cid"])
                    ti.size = len(b)
                    import io

                    data = io.BytesIO(b)
                elif k == "lnk":
                    ti.type = std_tarfile.LNKTYPE
                    ti.linkname = pre + "/".join(m["link"])
                elif k == "dir":
                    ti.type = std_tarfile.DIRTYPE
                elif k == "sym":
                    ti.type = std_tarfile.SYMTYPE
                    ti.linkname = e["target"]
                elif k == "fifo":
                    ti.type = std_tarfile.FIFOTYPE
                else:
                    raise tlc.MachineryError(f"member kind {k}")
                tf.addfile(ti, data)
        try:
            with time_limit():
                ev["got"] = project(self.read(path, comp), self.cids)
        except CaseTimeout:
            ev["raised"], ev["got"] = "Timeout: no result after 20 s", []
        except Exception as e:
            ev["raised"] = f"{type(e).__name__}: {str(e)[:100]}"
        finally:
            os.unlink(path)
        return ev

    def empty(self, tid, how, comp):
        from pkgcore.fs import contents

        ev = dict(tid=tid, i=0, ev="empty", how=how, comp=comp, got=[], raised="")
        path = self.path()
        try:
            if how == "written":
                self.write(contents.contentsSet(), path, comp)
            else:  # a compressed stream of zero bytes: a tar archive without a single block
                with open(path, "wb") as f:
                    f.write(bz2.compress(b"") if comp == "bz2" else lzma.compress(b""))
            ev["got"] = project(self.read(path, comp), self.cids)
        except Exception as e:
            ev["raised"] = f"{type(e).__name__}: {str(e)[:100]}"
        finally:
            if os.path.exists(path):
                os.unlink(path)
        return ev


# ---- random trees (code -> spec) ----------------------------------------------------------------
# names are opaque path components; awkward ones: leading / trailing / only dots (".x", "..x", "...", "x."), blanks,
# a leading dash, long and non-ASCII names.  ("." and ".." themselves are not names.)
NAMES = ["a", "b", "c", "d e", "été", "f.txt", "-x", "~", "L" * 120, "lib", "lib64", "usr", "中",
         ".hidden", "..data", "...", "....", ".a.", "a.", ".-", " x", "y ", ".config"]
MODES = [0o644, 0o755, 0o600, 0o4755, 0o2750, 0o1777, 0, 0o7777, 0o444]
IDS = [0, 0, 1, 250, 1000, 65534, 2097151, 2097152, 3000000]
SECS = [0, 1, 999999999, 1000000000, 1700000000, 2147483647]
USECS = [0, 0, 1, 250000, 999999]


def attrs(r_, e):
    e["mode"] = r_.choice(MODES) if e["type"] != "sym" else 0o777
    e["uid"], e["gid"] = r_.choice(IDS), r_.choice(IDS)
    e["msec"], e["musec"] = r_.choice(SECS), r_.choice(USECS)
    return e


def rand_tree(r_):
    ents = {}

    def fresh(parent):
        for _ in range(20):
            p = parent + (r_.choice(NAMES),)
            if p not in ents:
                return p
        return None

    dirs = [()]
    for _ in range(r_.randint(0, 4)):
        p = fresh(r_.choice(dirs))
        if p and len(p) <= 3:
            ents[p] = attrs(r_, blank(p, "dir"))
            dirs.append(p)
    # files in hard link groups; groups live on up to three devices and draw their inode numbers from a
    # small range, so that numbers collide ACROSS devices (never within one)
    grid = [(dv, nr) for dv in (1, 2, 3) for nr in (1, 2, 3)]
    r_.shuffle(grid)
    for _ in range(r_.randint(0, 4)):
        dev, ino = grid.pop()
        cid = r_.randint(1, 30)
        proto = attrs(r_, blank((), "file"))
        noino = r_.random() < 0.12
        for _ in range(r_.choice([1, 1, 2, 3, 4])):
            p = fresh(r_.choice(dirs))
            if p:
                e = dict(proto, path=list(p), cid=cid, dev=0 if noino else dev, ino=0 if noino else ino)
                if noino:  # separate inodes: own attributes
                    e = attrs(r_, e)
                ents[p] = e
    # symlinks: to directories (relative, ../, absolute), to files, to other links (chains), dangling
    links = []
    for _ in range(r_.randint(0, 4)):
        p = fresh(r_.choice(dirs))
        if not p:
            continue
        # destinations: entries that already exist, earlier links (chains) or names nothing has (dangling);
        # never something below the link itself: loops are outside the property (and the reader does not
        # terminate on some of them)
        cands = [q for q in ents if q != p] + [("nowhere",), ("nowhere", "deeper")]
        dest = r_.choice(links) if links and r_.random() < 0.4 else r_.choice(cands)
        how = r_.random()
        here = p[:-1]
        if how < 0.35:
            tabs, comps = True, list(dest)
        else:
            k = 0
            while k < len(here) and k < len(dest) and here[k] == dest[k]:
                k += 1
            comps = [".."] * (len(here) - k) + list(dest[k:])
            tabs = False
            if not comps:
                comps = ["."]
            elif how > 0.9 and comps[0] != "..":
                comps = ["."] + comps
        e = attrs(r_, blank(p, "sym"))
        e["tabs"], e["tcomps"] = tabs, comps
        e["target"] = ("/" if tabs else "") + "/".join(comps)
        ents[p] = e
        links.append(p)
    # entries NAMED through symlinked directories
    for _ in range(r_.choice([0, 0, 1, 2, 3])):
        if not links:
            break
        via = r_.choice(links)
        p = fresh(via)
        if not p:
            continue
        kind = r_.choice(["file", "file", "dir", "sym", "fifo"])
        e = attrs(r_, blank(p, kind))
        if kind == "file":
            grp = [x for x in ents.values() if x["type"] == "file" and x["ino"]]
            if grp and r_.random() < 0.5:
                g = r_.choice(grp)
                e = dict(g, path=list(p))
            else:
                e["cid"] = r_.randint(1, 30)
                e["dev"], e["ino"] = grid.pop()
        elif kind == "sym":
            e["tabs"], e["tcomps"], e["target"] = False, ["..", "z"], "../z"
            links.append(p)
        elif kind == "dir":
            dirs.append(p)
        ents[p] = e
    for _ in range(r_.choice([0, 0, 1])):
        p = fresh(r_.choice(dirs))
        if p:
            ents[p] = attrs(r_, blank(p, "fifo"))
    for _ in range(r_.choice([0, 0, 1, 2])):
        p = fresh(r_.choice(dirs))
        if p:
            e = attrs(r_, blank(p, "dev"))
            e["devkind"] = r_.choice("cb")
            e["major"], e["minor"] = r_.choice([1, 7, 8, 255]), r_.choice([0, 3, 129, 255])
            ents[p] = e
    out = list(ents.values())
    r_.shuffle(out)
    return out


def features(ents):
    """coarse description of a case (for evidence and for narrow known-finding signatures)."""
    paths = {tuple(e["path"]) for e in ents}
    syms = {tuple(e["path"]) for e in ents if e["type"] == "sym"}
    below = sorted(p for p in paths if any(p[:k] in syms for k in range(1, len(p))))
    inodes = [(e["dev"], e["ino"]) for e in ents if e["type"] == "file" and e["ino"]]
    f = dict(devices=any(e["type"] == "dev" for e in ents), below_link=len(below),
             no_inode_files=sum(1 for e in ents if e["type"] == "file" and not e["ino"]),
             hardlinks=len(set(inodes)) < len(inodes),
             # the same inode number in use on different devices
             ino_collision=len({i for _d, i in set(inodes)}) < len(set(inodes)))
    return f


def run(ck):
    use_repo()
    ck.rule = ("contents sets built on disk and pushed through write_set/generate_contents (bzip2, xz) or "
               "add_contents_to_tarfile/convert_archive (plain): every in-domain subset of the TarRoundTrip_Universe pool up to "
               "the tier's size (TLC-enumerated) + seeded random trees; foreign member sequences (all orders, hard link stars and "
               "chains) read by the real reader; empty archives.  non-trivial = distinct case with a hard link group, an entry "
               "named through a symlinked directory, a device/fifo, or a foreign archive with a link member")
    ck.assumptions = ["stdlib tarfile / bz2 / lzma are trusted decoders (used to list the written tarball and to render foreign archives)",
                      "hard links share their attributes; '..' only leading in symlink targets; ids and mtimes < 2^31",
                      "checks run as root (chown, mknod)"]
    if os.geteuid() != 0:
        raise tlc.MachineryError("C25 needs root (chown/mknod)")
    root = mktmp("c25")
    cids = Cids()
    builder = Builder(root, cids)
    tr = Tar(root, cids)
    events, meta = [], {}

    def add(ev, case):
        events.append(ev)
        meta[ev["tid"]] = case
        ck.count()

    if ck.replay_case:
        c = ck.replay_case["detail"]["case"]
        if c["op"] == "roundtrip":
            add(tr.roundtrip(0, builder, c["ents"], c["comp"]), c)
        elif c["op"] == "read":
            add(tr.foreign(0, c["members"], c["comp"], c["style"]), c)
        else:
            add(tr.empty(0, c["how"], c["comp"]), c)
        ck.sample(c)
        ck.nontriv("replay")
        ck.nontriv("replay2")
        _judge(ck, events, meta)
        return

    # 1. the design
    # (the constant-level laws of TarRoundTrip_Laws are evaluated in the same TLC run as the export below)
    mc_cfg = ("SPECIFICATION Spec\nCONSTANTS\n Variant = \"{v}\"\n MaxEntries = {n}\nINVARIANT LinkTargetKnown\nINVARIANT RoundTrip\n"
              "INVARIANT ReaderIsReadArchive\nINVARIANT ArchiveShape\n")
    nmc = ck.pick(3, 4)
    ck.mc("TarRoundTrip_MC", cfg_text=mc_cfg.format(v="link", n=nmc), workers=ck.pick(2, 4), timeout=ck.pick(200, 840),
          label=f"MC:TarRoundTrip_MC link MaxEntries={nmc}")
    for variant, n in (("nolink", 2), ("inokey", 3)):
        guard_cfg = mc_cfg.format(v=variant, n=n) + ("CONSTRAINT SecondDevicePair\n" if variant == "inokey" else "")
        bad = ck.mc("TarRoundTrip_MC", cfg_text=guard_cfg, workers=2, timeout=300, expect_ok=False,
                    label=f"MC:TarRoundTrip_MC {variant} (must violate)")
        if bad.violated != "RoundTrip":
            raise tlc.MachineryError(f"TarRoundTrip_MC: the '{variant}' writer no longer violates RoundTrip ({bad.violated})")

    # 2. spec -> code
    cases = ck.export("TarRoundTrip_Export", timeout=ck.pick(200, 840), label="Laws+Export:TarRoundTrip_Laws/_Export",
                      cfg_text=f"CONSTANTS\n MaxLaw = {ck.pick(3, 4)}\n MaxExp = {ck.pick(3, 4)}\n MaxArch = {ck.pick(3, 4)}\n")
    sets = sorted((c for c in cases if c["kind"] == "set"), key=lambda c: repr(c["ents"]))
    archs = sorted((c for c in cases if c["kind"] == "arch"), key=lambda c: repr(c["members"]))
    r_ = rng(25)
    def _both(c):
        f = features(c["ents"])
        return f["ino_collision"] and f["hardlinks"]

    if ck.quick:
        # stratified: every set with a hard link group AND an inode number shared across devices is kept
        must = [c for c in sets if _both(c)]
        rest = [c for c in sets if not _both(c)]
        sets = must + r_.sample(rest, min(len(rest), max(0, 170 - 2 * len(must))))
        archs = r_.sample(archs, min(len(archs), 80))
    else:
        ck.exhaustive = True
    # which device the writer meets first is a matter of set order: those sets are run in both orders
    sets = sets + [dict(c, ents=list(reversed(c["ents"]))) for c in sets if _both(c)]
    tid = 0
    for n, c in enumerate(sets):
        comp = "bz2" if n % 4 else "plain"
        case = dict(op="roundtrip", comp=comp, ents=c["ents"], direction="spec->code", **features(c["ents"]))
        add(tr.roundtrip(tid, builder, c["ents"], comp), case)
        f = features(c["ents"])
        if f["hardlinks"] or f["below_link"]:
            ck.nontriv(("set", repr(c["ents"])))
        tid += 1
    ck.sample(dict(direction="spec->code", ents=[(e["path"], e["type"], e["ino"]) for e in sets[len(sets) // 2]["ents"]]))
    for n, c in enumerate(archs):
        comp, style = ("bz2", "plain", "xz")[n % 3], n % 3 if n % 5 else 2
        case = dict(op="read", comp=comp, style=style, members=c["members"], direction="spec->code",
                    chain=any(m["kind"] == "lnk" and any(x["kind"] == "lnk" and x["ent"]["path"] == m["link"] for x in c["members"])
                              for m in c["members"]))
        add(tr.foreign(tid, c["members"], comp, style), case)
        ck.nontriv(("arch", repr(c["members"])))
        tid += 1
    if archs:
        ck.sample(dict(direction="spec->code (foreign archive)", members=[(m["ent"]["path"], m["kind"], m["link"]) for m in archs[0]["members"]]))

    # 3. empty archives
    for comp in ("bz2", "plain"):
        add(tr.empty(tid, "written", comp), dict(op="empty", how="written", comp=comp))
        tid += 1
    for comp in ("bz2", "xz"):
        add(tr.empty(tid, "zero-stream", comp), dict(op="empty", how="zero-stream", comp=comp))
        tid += 1

    # 4. code -> spec
    for n in range(ck.pick(260, 3000)):
        ents = rand_tree(r_)
        comp = ("bz2", "bz2", "plain")[n % 3]
        f = features(ents)
        case = dict(op="roundtrip", comp=comp, ents=ents, direction="code->spec", **f)
        add(tr.roundtrip(tid, builder, ents, comp), case)
        if f["hardlinks"] or f["below_link"] or f["devices"]:
            ck.nontriv(("rnd", n))
        if f["hardlinks"] and f["ino_collision"]:
            ck.extra["cases_with_colliding_inode_numbers"] = ck.extra.get("cases_with_colliding_inode_numbers", 0) + 1
        if n == 0:
            ck.sample(dict(direction="code->spec", ents=[(e["path"], e["type"], e["ino"], e["target"]) for e in ents]))
        tid += 1
    _judge(ck, events, meta)


def _judge(ck, events, meta):
    unspec = 0
    for k in range(0, len(events), 1500):
        b = events[k:k + 1500]
        for v in ck.trace("TarRoundTrip_Trace", b, label=f"Trace:TarRoundTrip #{k // 1500}", timeout=840):
            if v["clause"] == "Unspecified":
                unspec += 1
                continue
            if v["clause"] == "UnknownEvent":
                raise tlc.MachineryError("trace spec met an unknown event")
            ev = next(e for e in b if e["tid"] == v["tid"])
            case = meta[v["tid"]]
            d = dict(case=case, op=case["op"], comp=case.get("comp"), how=case.get("how", ""), raised=ev.get("raised", ""),
                     got_paths=sorted("/".join(e["path"]) for e in ev.get("got", [])))
            for f in ("devices", "below_link", "no_inode_files", "hardlinks", "ino_collision", "chain"):
                if f in case:
                    d[f] = case[f]
            ck.violation(v["clause"], d)
            if os.environ.get("VERIF_DEBUG"):
                print("DEBUG", v["clause"], d["op"], d["comp"], d["how"], d["raised"][:60],
                      {f: d[f] for f in ("devices", "below_link", "no_inode_files", "hardlinks", "ino_collision", "chain") if f in d})
    ck.extra["unspecified_inputs"] = unspec
    if unspec > 0.4 * len(events):
        raise tlc.MachineryError(f"{unspec} of {len(events)} generated inputs are outside the property's domain")
