"""C46 — distfile cleaning never deletes a distfile that must be kept (scripts/pclean.py, `pclean dist`).

MC          : Pclean_MC — every run description over a small universe (files with size/age classes, every relation
              to installed / existing / fetch-restricted / excluded packages, every option combination) cleaned by ANY
              cleaner that removes one permitted file at a time: no clause is ever violated, every refusal is
              justified by a clause, the documented reference cleaner stays within the permission.
spec -> code: Pclean_Export enumerates concrete scenarios over one world with overlapping distfile names
              (repository content x installed set x the three exclusion flags x target x exclusion pattern x filters).
code -> spec: seeded random worlds (package names that are prefixes of each other, shared and stale distfiles,
              sizes/ages on both sides of and exactly at the thresholds) with random options.
Each scenario is materialised in a scratch directory and rendered as a COMMAND LINE (targets, -x/--exclude csv,
-X/--exclude-file with a real file, -I/-E/-f or their long forms, -m TIME, -s SIZE); the real `pclean` argument
parser parses `dist <argv>` (every bound parse-priority / final-check function of the script runs as in production,
against a config whose default domain is a stub), then the main function the parser selected (_remove) runs with a
tty stdout; the files left in the distdir are compared with the files before.  Exclusion patterns reach the tool
from -x, from an -X file, or from both at once.  "selected" is what the tool itself lists for the targets alone
(no exclusions, no filters; non-tty listing mode).
Judged by Pclean_Trace (clauses OnlySelected, PassesAge, PassesSize, KeepsInstalled, KeepsExisting,
KeepsFetchRestricted, KeepsExcluded, RemovedUnknownFile, OutsideUntouched).  Which packages an exclusion pattern
matches is decided by the TLA+ query-string spec (QueryGlob!Selects), not by the driver.

Carve-outs: the target-name heuristics (regexes) are observed, not specified (DESIGN C46); a file exactly at a
filter threshold may go either way; --pretend and the non-tty listing mode are not part of the property; exclusion
files are written without a trailing newline (an empty line makes the option parser fail before anything is
removed -- not a deletion, so outside this property); a command line the parser refuses removes nothing and is
counted in extra.refused.
"""
import io
import json
import os
import shutil
import sys
import time

from pylib import tlc
from pylib.common import mktmp, rng, use_repo

DAY = 86400
AGE_DAYS = 10  # --modified is given as '10d'; a file of age class mrel is modified (mrel - T) days after that point
INV = "INVARIANT SafeAlways\nINVARIANT RefusalsJustified\nINVARIANT ReferenceIsSafe\nINVARIANT FlagsMatter\n"


class _Stream(io.BytesIO):
    def __init__(self, tty):
        super().__init__()
        self._tty = tty

    def isatty(self):
        return self._tty


class World:
    def __init__(self):
        from pkgcore.config import basics
        from pkgcore.config.hint import ConfigHint
        from pkgcore.scripts import pclean
        from pkgcore.ebuild.cpv import VersionedCPV
        from pkgcore.repository import prototype
        from pkgcore.test.scripts.helpers import ArgParseMixin
        from snakeoil.formatters import PlainTextFormatter


        class Tree(prototype.tree):
            """in-memory, non-virtual repository: the stock prototype.tree (candidate pruning, itermatch) over a dict
            (repository.util.SimpleTree does the same but counts as a virtual repo, which pclean skips)"""

            def __init__(s, cpv_dict, pkg_klass, repo_id, livefs=False):
                s.cpv_dict, s.package_class, s.repo_id, s.livefs = cpv_dict, pkg_klass, repo_id, livefs
                super().__init__(frozen=True)

            def _get_categories(s):
                return tuple(s.cpv_dict.keys())

            def _get_packages(s, category):
                return tuple(s.cpv_dict[category].keys())

            def _get_versions(s, cp_key):
                return tuple(s.cpv_dict[cp_key[0]][cp_key[1]])

        self.CPV, self.Tree, self.Fmt = VersionedCPV, Tree, PlainTextFormatter
        self.root = mktmp("pclean")
        self.distdir = os.path.join(self.root, "distfiles")
        self.xfile = os.path.join(self.root, "exclude.list")
        self.repo = self.installed = None
        self.selected_cache = {}
        world = self

        class stub_domain:
            pkgcore_config_type = ConfigHint(typename="domain")

            def __init__(self):
                self.distdir = world.distdir
                self.all_installed_repos = world.installed
                self.all_source_repos_raw = world.repo
                self.source_repos = [world.repo]

        class Parser(ArgParseMixin):
            _argparser = pclean.argparser

        self.parser = Parser()
        self.section = basics.HardCodedConfigSection({"class": stub_domain, "default": True})

    def _tree(self, pkgs, repo_id, livefs=False):
        """a real in-memory repository (prototype.tree with its candidate pruning and itermatch) whose packages carry
        the distfiles / RESTRICT of the scenario"""
        meta = {f"{d['cat']}/{d['pkg']}-{d['ver']}": d for d in pkgs}

        class Pkg(self.CPV):
            __slots__ = ()

            @property
            def distfiles(s):
                return tuple(meta[s.cpvstr]["dist"])

            @property
            def restrict(s):
                return ("fetch",) if meta[s.cpvstr]["restricted"] else ()

            @property
            def slot(s):
                return meta[s.cpvstr]["slot"]

            subslot = slot

        cpv_dict = {}
        for d in pkgs:
            vers = cpv_dict.setdefault(d["cat"], {}).setdefault(d["pkg"], [])
            if d["ver"] not in vers:
                vers.append(d["ver"])
        return self.Tree(cpv_dict, Pkg, repo_id, livefs=livefs)

    def build(self, case):
        shutil.rmtree(self.root, ignore_errors=True)
        os.makedirs(os.path.join(self.distdir, "subdir"))
        os.makedirs(os.path.join(self.root, "outside"))
        for path in (os.path.join(self.distdir, "subdir", "foo-1.tar.gz"), os.path.join(self.root, "outside", "foo-1.tar.gz"),
                     os.path.join(self.root, "foo-2.tar.gz")):
            with open(path, "wb") as f:
                f.write(b"keep")
        base = int(time.time()) - AGE_DAYS * DAY
        for fl in case["files"]:
            path = os.path.join(self.distdir, fl["name"])
            with open(path, "wb") as f:
                f.write(b"x" * fl["size"])
            t = base + (fl["mrel"] - case["opts"]["T"]) * DAY
            os.utime(path, (t, t))
        if case["xfile"]:
            with open(self.xfile, "w") as f:
                f.write("\n".join(case["xfile"]))  # (no trailing newline, see the module docstring)
        self.repo = self._tree(case["repo"], "fake")
        self.installed = self._tree(case["installed"], "vdb", livefs=True)

    def argv(self, case, r_=None):
        """the command line of the scenario (short or long option spellings)"""
        o = case["opts"]
        pick = (lambda a, b: a) if r_ is None else (lambda a, b: r_.choice([a, b]))
        args = []
        if case["excludes"]:
            args += [pick("-x", "--exclude"), ",".join(case["excludes"])]
        if case["xfile"]:
            args += [pick("-X", "--exclude-file"), self.xfile]
        if o["exclInstalled"]:
            args.append(pick("-I", "--installed"))
        if o["exclExists"]:
            args.append(pick("-E", "--exists"))
        if o["exclFetch"]:
            args.append(pick("-f", "--fetch-restricted"))
        if o["useM"]:
            args += [pick("-m", "--modified"), f"{AGE_DAYS}d"]
        if o["useS"]:
            args += [pick("-s", "--size"), f"{o['S']}B"]
        if r_ is not None and r_.random() < 0.5:
            return list(case["targets"]) + args
        return args + list(case["targets"])

    def snapshot_outside(self):
        out = []
        for base, dirs, names in os.walk(self.root):
            for n in sorted(dirs + names):
                p = os.path.join(base, n)
                if os.path.dirname(p) == self.distdir and os.path.isfile(p):
                    continue
                st = os.lstat(p)
                out.append((os.path.relpath(p, self.root), st.st_mode, st.st_size if os.path.isfile(p) else 0))
        return sorted(out)

    def listing(self):
        return sorted(n for n in os.listdir(self.distdir) if os.path.isfile(os.path.join(self.distdir, n)))

    def invoke(self, args, tty):
        """parse `pclean dist <args>` with the real parser, run the selected main function; returns (refused, stdout)"""
        try:
            ns = self.parser.parse("dist", *args, default_domain=self.section)
        except (SystemExit, Exception) as e:  # usage errors of the parser: nothing has been removed
            return f"{type(e).__name__}: {str(e)[:120]}", ""
        out, err = _Stream(tty), _Stream(False)
        old = sys.stdout
        sys.stdout = out
        try:
            ns.main_func(ns, self.Fmt(out), self.Fmt(err))
        finally:
            sys.stdout = old
        return "", out.getvalue().decode()

    def observe(self, case, r_=None):
        self.build(case)
        cwd = os.getcwd()
        os.chdir(self.root)
        try:
            key = repr((case["files"], case["repo"], case["targets"]))
            if key not in self.selected_cache:
                refused, listed = self.invoke(list(case["targets"]), tty=False)
                self.selected_cache[key] = None if refused else sorted(os.path.basename(x) for x in listed.split("\n") if x.strip())
            selected = self.selected_cache[key]
            before, outside0 = self.listing(), self.snapshot_outside()
            args = self.argv(case, r_)
            refused, _ = self.invoke(args, tty=True)
            after, outside1 = self.listing(), self.snapshot_outside()
        finally:
            os.chdir(cwd)
        removed = sorted(set(before) - set(after))
        if selected is None:  # the targets themselves are refused by the parser
            selected = []
        return selected, removed, outside0 != outside1 or bool(set(after) - set(before)), refused, args


def event(tid, case, selected, removed, outside):
    return dict(tid=tid, i=0, ev="clean", files=case["files"], removed=removed, selected=selected,
                installed=[dict(dist=list(d["dist"])) for d in case["installed"]],
                repo=[dict(cat=list(d["cat"]), pkg=list(d["pkg"]), ver=list(d["ver"]), slot=list(d["slot"]), sub=list(d["slot"]),
                           repo=list("r"), dist=list(d["dist"]), restricted=d["restricted"]) for d in case["repo"]],
                excludes=[list(x) for x in case["excludes"]], xfile=[list(x) for x in case["xfile"]], opts=case["opts"], outside=outside)


# ---------------------------------------------------------------- random generation (inputs only)
PNAMES = ["foo", "foo-bar", "foobar", "bar", "libfoo", "foo-bar-baz", "qux"]
CATS = ["a", "b"]
PVERS = ["1", "2", "0.5", "1.1", "3"]


def rand_case(r_):
    def mkpkg():
        pn, v = r_.choice(PNAMES), r_.choice(PVERS)
        dist = [r_.choice([f"{pn}-{v}.tar.gz", f"{pn}_{v}.zip", f"{pn.title()}-{v}.tar.bz2", f"{pn}-{v}-data.tar.xz", f"{pn}-src-{v}.tgz"])]
        if r_.random() < 0.4:
            dist.append(r_.choice(["shared-1.patch", "common.tar.gz", f"{r_.choice(PNAMES)}-{r_.choice(PVERS)}.tar.gz"]))
        return dict(cat=r_.choice(CATS), pkg=pn, ver=v, slot="0", dist=dist, restricted=r_.random() < 0.25)

    repo = [mkpkg() for _ in range(r_.randint(0, 6))]
    seen = set()
    repo = [d for d in repo if (d["cat"], d["pkg"], d["ver"]) not in seen and not seen.add((d["cat"], d["pkg"], d["ver"]))]
    installed = [mkpkg() for _ in range(r_.randint(0, 3))]
    seen = set()
    installed = [d for d in installed if (d["cat"], d["pkg"], d["ver"]) not in seen and not seen.add((d["cat"], d["pkg"], d["ver"]))]
    names = {n for d in repo + installed for n in d["dist"] if r_.random() < 0.85}
    for _ in range(r_.randint(1, 5)):  # stale / unrelated files
        names.add(r_.choice([f"{r_.choice(PNAMES)}-{r_.choice(['0.1', '0.9', '7'])}.tar.gz", "unrelated.bin", "README", f"{r_.choice(PNAMES)}.tar"]))
    files = [dict(name=n, size=r_.choice([50, 100, 200, 300]), mrel=r_.choice([1, 2, 3])) for n in sorted(names)]
    pat = lambda: r_.choice([r_.choice(PNAMES), r_.choice(CATS) + "/" + r_.choice(PNAMES), r_.choice(CATS) + "/*", r_.choice(PNAMES)[:3] + "*",
                             "*" + r_.choice(PNAMES)[-3:], "*/" + r_.choice(PNAMES)])
    targets = sorted({pat() for _ in range(r_.choice([0, 0, 1, 1, 2]))})
    excludes = sorted({pat() for _ in range(r_.choice([0, 0, 1, 2, 2, 3]))})
    xfile = sorted({pat() for _ in range(r_.choice([0, 0, 1, 1, 2]))})
    opts = dict(exclInstalled=r_.random() < 0.4, exclExists=r_.random() < 0.4, exclFetch=r_.random() < 0.4,
                useM=r_.random() < 0.3, useS=r_.random() < 0.3, T=2, S=200)
    return dict(files=files, repo=repo, installed=installed, targets=targets, excludes=excludes, xfile=xfile, opts=opts)


def run(ck):
    use_repo()
    ck.rule = ("cleaning scenarios enumerated by TLC and seeded random ones, each materialised in a scratch distdir and cleaned by the "
               "real `pclean dist` argument parser + main function; non-trivial = distinct scenario in which at least one file was removed and at least one "
               "file selected by the targets was kept")
    ck.assumptions = [
        "repositories are real in-memory trees (a dict-backed subclass of repository.prototype.tree: candidate pruning, itermatch, "
        "multiplexing as in production) whose packages are VersionedCPV objects carrying distfiles / RESTRICT=fetch; the default domain "
        "of the config handed to the real argument parser is a stub exposing distdir / all_installed_repos / source_repos",
        "the target-name heuristics are observed (tool's own listing for the targets alone), not specified",
        "stdout is presented as a tty (the script only lists when it is not)",
    ]
    w = World()
    events, cases = [], {}

    def record(case, r_=None):
        case.setdefault("xfile", [])
        selected, removed, outside, refused, args = w.observe(case, r_)
        tid = len(events)
        events.append(event(tid, case, selected, removed, outside))
        cases[tid] = (case, args, refused)
        ck.count()
        if refused:
            ck.extra["refused"] = ck.extra.get("refused", 0) + 1
        if case["excludes"] and case["xfile"]:
            ck.extra["exclusions_from_both_x_and_X"] = ck.extra.get("exclusions_from_both_x_and_X", 0) + 1
        if removed and set(selected) - set(removed):
            ck.nontriv(repr(case))
        return events[-1]

    def judge(label):
        verdicts = ck.trace("Pclean_Trace", events, label=label, timeout=ck.pick(400, 3000))
        for v in verdicts:
            e, (case, args, refused) = events[v["tid"]], cases[v["tid"]]
            if v["clause"] == "OutsideDomain":
                raise tlc.MachineryError(f"generated case leaves the domain: {case}")
            o = case["opts"]
            ck.violation(v["clause"], dict(case=case, argv=[a if a != w.xfile else "<exclusion file>" for a in args],
                                           removed=e["removed"], selected=e["selected"], targets=case["targets"],
                                           excludes=case["excludes"], xfile=case["xfile"],
                                           flags="".join(k for k, f in (("I", o["exclInstalled"]), ("E", o["exclExists"]), ("f", o["exclFetch"])) if f)))

    def unchars(c):
        tx = lambda x: "".join(x)
        pk = lambda d: dict(cat=tx(d["cat"]), pkg=tx(d["pkg"]), ver=tx(d["ver"]), slot=tx(d["slot"]), dist=list(d["dist"]), restricted=d["restricted"])
        return dict(files=c["files"], repo=[pk(d) for d in c["repo"]], installed=[pk(d) for d in c["installed"]],
                    targets=[tx(t) for t in c["targets"]], excludes=[tx(t) for t in c["excludes"]],
                    xfile=[tx(t) for t in c["xfile"]], opts=c["opts"])

    if ck.replay_case:
        e = record(ck.replay_case["detail"]["case"])
        judge("Trace:replay")
        ck.sample(dict(removed=e["removed"], selected=e["selected"]))
        ck.nontriv("replay-a")
        ck.nontriv("replay-b")
        return

    # 1. the design
    out = os.path.join(mktmp("export"), "c46-cases.ndjson")
    res = tlc.run("Pclean_MC", cfg_text=f"SPECIFICATION Spec\nCONSTANTS Size = {ck.pick(1, 2)}\n AgeVals = " + ck.pick("{1}", "{1, 3}")
                  + "\n SizeVals = {1, 3}\n UseFilters = " + ck.pick("{TRUE}", "{TRUE, FALSE}") + "\n" + INV, workers=4,
                  timeout=ck.pick(300, 3000), env={"OUT": out}, allow_violation=False)
    ck.add_mc("MC+Export:Pclean_MC (Pclean_Export scenarios written by the same run)", res)
    ck.exhaustive = False
    # 2. spec -> code
    with open(out) as f:
        exported = [json.loads(line) for line in f if line.strip()]
    exported = sorted((unchars(c) for c in exported), key=repr)
    if len(exported) < 1000:
        raise tlc.MachineryError(f"export too small: {len(exported)}")
    for c in exported:
        e = record(c)
    # a representative sample for the evidence file only; never a reason to fail
    k = next((e for e in events if e["removed"] and cases[e["tid"]][0]["targets"] and e["excludes"] and e["xfile"]),
             next((e for e in events if e["removed"]), events[0]))
    ck.sample(dict(direction="spec->code", argv=[a if a != w.xfile else "<exclusion file>" for a in cases[k["tid"]][1]],
                   exclusion_file=cases[k["tid"]][0]["xfile"], selected=k["selected"], removed=k["removed"]))
    # 3. code -> spec
    r_ = rng(46)
    for n in range(ck.pick(900, 9000)):
        e = record(rand_case(r_), r_)
        if n == 7:
            ck.sample(dict(direction="code->spec", case=cases[e["tid"]][0], selected=e["selected"], removed=e["removed"]))
    judge("Trace:exported+random scenarios")
    if len(ck.nontrivial) < 200 or ck.extra.get("refused", 0) * 5 > len(events) or ck.extra.get("exclusions_from_both_x_and_X", 0) < 100:
        raise tlc.MachineryError(f"too few non-trivial scenarios: {len(ck.nontrivial)} non-trivial, {ck.extra}")
