"""C46 — distfile cleaning never deletes a distfile that must be kept (scripts/pclean.py, `pclean dist`).

MC          : Pclean_MC — every run description over a small universe (files with size/age classes, every relation
              to installed / existing / fetch-restricted / excluded packages, every option combination) cleaned by ANY
              cleaner that removes one permitted file at a time: no clause is ever violated, every refusal is
              justified by a clause, the documented reference cleaner stays within the permission.
spec -> code: Pclean_Export enumerates concrete scenarios over one world with overlapping distfile names
              (repository content x installed set x the three exclusion flags x target x exclusion pattern x filters).
code -> spec: seeded random worlds (package names that are prefixes of each other, shared and stale distfiles,
              sizes/ages on both sides of and exactly at the thresholds) with random options.
Each scenario is materialised in a scratch directory; the REAL option pipeline of the script is run on a namespace
(_initialize_opts, _setup_shared_opts, _setup_file_opts, _setup_restrictions, _dist_validate_args) and then the
real _remove with a tty stdout; the files left in the distdir are compared with the files before.  "selected" is
what the tool itself lists for the targets alone (no exclusions, no filters; non-tty listing mode).
Judged by Pclean_Trace (clauses OnlySelected, PassesAge, PassesSize, KeepsInstalled, KeepsExisting,
KeepsFetchRestricted, KeepsExcluded, RemovedUnknownFile, OutsideUntouched).  Which packages an exclusion pattern
matches is decided by the TLA+ query-string spec (QueryGlob!Selects), not by the driver.

Carve-outs: the target-name heuristics (regexes) are observed, not specified (DESIGN C46); a file exactly at a
filter threshold may go either way; --pretend and the non-tty listing mode are not part of the property.
"""
import argparse
import io
import os
import shutil
import sys

from pylib import tlc
from pylib.common import mktmp, rng, use_repo

ORIGIN = 1_600_000_000
DAY = 86400
INV = "INVARIANT SafeAlways\nINVARIANT RefusalsJustified\nINVARIANT ReferenceIsSafe\nINVARIANT FlagsMatter\n"


class _Stream(io.BytesIO):
    def __init__(self, tty):
        super().__init__()
        self._tty = tty

    def isatty(self):
        return self._tty


class _Domain:
    pass


class World:
    def __init__(self, pclean, FakePkg, FakeRepo, PlainTextFormatter):
        self.pclean, self.FakePkg, self.FakeRepo, self.Fmt = pclean, FakePkg, FakeRepo, PlainTextFormatter
        self.root = mktmp("pclean")
        self.distdir = os.path.join(self.root, "distfiles")

    def _pkg(self, d):
        p = self.FakePkg(f"{d['cat']}/{d['pkg']}-{d['ver']}", slot=d["slot"], restrict="fetch" if d["restricted"] else "")
        object.__setattr__(p, "distfiles", tuple(d["dist"]))
        return p

    def build(self, files):
        shutil.rmtree(self.root, ignore_errors=True)
        os.makedirs(os.path.join(self.distdir, "subdir"))
        os.makedirs(os.path.join(self.root, "outside"))
        for path in (os.path.join(self.distdir, "subdir", "foo-1.tar.gz"), os.path.join(self.root, "outside", "foo-1.tar.gz"),
                     os.path.join(self.root, "foo-2.tar.gz")):
            with open(path, "wb") as f:
                f.write(b"keep")
        for fl in files:
            path = os.path.join(self.distdir, fl["name"])
            with open(path, "wb") as f:
                f.write(b"x" * fl["size"])
            t = ORIGIN + fl["mrel"] * DAY
            os.utime(path, (t, t))

    def snapshot_outside(self):
        out = []
        for base, dirs, names in os.walk(self.root):
            for n in sorted(dirs + names):
                p = os.path.join(base, n)
                if os.path.dirname(p) == self.distdir and os.path.isfile(p):
                    continue
                st = os.lstat(p)
                out.append((os.path.relpath(p, self.root), st.st_mode, st.st_size if os.path.isfile(p) else 0))
        return sorted(out)

    def listing(self):
        return sorted(n for n in os.listdir(self.distdir) if os.path.isfile(os.path.join(self.distdir, n)))

    def run(self, case, plain=False):
        """plain: targets alone in listing mode (returns the listed names); else the real removal run."""
        pc = self.pclean
        repo = self.FakeRepo(pkgs=[self._pkg(d) for d in case["repo"]], location=os.path.join(self.root, "no-such-repo"))
        dom = _Domain()
        dom.distdir = self.distdir
        dom.all_installed_repos = self.FakeRepo(pkgs=[self._pkg(d) for d in case["installed"]])
        dom.all_source_repos_raw = repo
        dom.source_repos = repo
        o = case["opts"]
        ns = argparse.Namespace(
            domain=dom, repo=repo, targets=list(case["targets"]), exclude_file=None, pkgsets=None, pretend=False, verbosity=0,
            prog="pclean", excludes=None if plain or not case["excludes"] else list(case["excludes"]),
            exclude_installed=False if plain else o["exclInstalled"], exclude_exists=False if plain else o["exclExists"],
            exclude_fetch_restricted=False if plain else o["exclFetch"],
            modified=None if plain or not o["useM"] else float(ORIGIN + o["T"] * DAY),
            size=None if plain or not o["useS"] else o["S"])
        pc._initialize_opts(ns)
        pc._setup_shared_opts(ns)
        pc._setup_file_opts(ns)
        pc._setup_restrictions(ns)
        pc._dist_validate_args(None, ns)
        out, err = _Stream(not plain), _Stream(False)
        old = sys.stdout
        sys.stdout = out
        try:
            pc._remove(ns, self.Fmt(out), self.Fmt(err))
        finally:
            sys.stdout = old
        if plain:
            return sorted(os.path.basename(x) for x in out.getvalue().decode().split("\n") if x.strip())
        return None

    def observe(self, case):
        self.build(case["files"])
        cwd = os.getcwd()
        os.chdir(self.root)
        try:
            selected = self.run(case, plain=True)
            before, outside0 = self.listing(), self.snapshot_outside()
            self.run(case)
            after, outside1 = self.listing(), self.snapshot_outside()
        finally:
            os.chdir(cwd)
        removed = sorted(set(before) - set(after))
        return selected, removed, outside0 != outside1 or bool(set(after) - set(before))


def event(tid, case, selected, removed, outside):
    return dict(tid=tid, i=0, ev="clean", files=case["files"], removed=removed, selected=selected,
                installed=[dict(dist=list(d["dist"])) for d in case["installed"]],
                repo=[dict(cat=list(d["cat"]), pkg=list(d["pkg"]), ver=list(d["ver"]), slot=list(d["slot"]), sub=list(d["slot"]),
                           repo=list("r"), dist=list(d["dist"]), restricted=d["restricted"]) for d in case["repo"]],
                excludes=[list(x) for x in case["excludes"]], opts=case["opts"], outside=outside)


# ---------------------------------------------------------------- random generation (inputs only)
PNAMES = ["foo", "foo-bar", "foobar", "bar", "libfoo", "foo-bar-baz", "qux"]
CATS = ["a", "b"]
PVERS = ["1", "2", "0.5", "1.1", "3"]


def rand_case(r_):
    def mkpkg():
        pn, v = r_.choice(PNAMES), r_.choice(PVERS)
        dist = [r_.choice([f"{pn}-{v}.tar.gz", f"{pn}_{v}.zip", f"{pn.title()}-{v}.tar.bz2", f"{pn}-{v}-data.tar.xz", f"{pn}-src-{v}.tgz"])]
        if r_.random() < 0.4:
            dist.append(r_.choice(["shared-1.patch", "common.tar.gz", f"{r_.choice(PNAMES)}-{r_.choice(PVERS)}.tar.gz"]))
        return dict(cat=r_.choice(CATS), pkg=pn, ver=v, slot="0", dist=dist, restricted=r_.random() < 0.25)

    repo = [mkpkg() for _ in range(r_.randint(0, 6))]
    seen = set()
    repo = [d for d in repo if (d["cat"], d["pkg"], d["ver"]) not in seen and not seen.add((d["cat"], d["pkg"], d["ver"]))]
    installed = [mkpkg() for _ in range(r_.randint(0, 3))]
    names = {n for d in repo + installed for n in d["dist"] if r_.random() < 0.85}
    for _ in range(r_.randint(1, 5)):  # stale / unrelated files
        names.add(r_.choice([f"{r_.choice(PNAMES)}-{r_.choice(['0.1', '0.9', '7'])}.tar.gz", "unrelated.bin", "README", f"{r_.choice(PNAMES)}.tar"]))
    files = [dict(name=n, size=r_.choice([50, 100, 200, 300]), mrel=r_.choice([1, 2, 3])) for n in sorted(names)]
    pat = lambda: r_.choice([r_.choice(PNAMES), r_.choice(CATS) + "/" + r_.choice(PNAMES), r_.choice(CATS) + "/*", r_.choice(PNAMES)[:3] + "*",
                             "*" + r_.choice(PNAMES)[-3:], "*/" + r_.choice(PNAMES)])
    targets = sorted({pat() for _ in range(r_.choice([0, 0, 1, 1, 2]))})
    excludes = sorted({pat() for _ in range(r_.choice([0, 0, 0, 1, 2]))})
    opts = dict(exclInstalled=r_.random() < 0.4, exclExists=r_.random() < 0.4, exclFetch=r_.random() < 0.4,
                useM=r_.random() < 0.3, useS=r_.random() < 0.3, T=2, S=200)
    return dict(files=files, repo=repo, installed=installed, targets=targets, excludes=excludes, opts=opts)


def run(ck):
    use_repo()
    from pkgcore.scripts import pclean
    from pkgcore.test.misc import FakePkg, FakeRepo
    from snakeoil.formatters import PlainTextFormatter

    ck.rule = ("cleaning scenarios enumerated by TLC and seeded random ones, each materialised in a scratch distdir and cleaned by the "
               "real pclean dist pipeline; non-trivial = distinct scenario in which at least one file was removed and at least one "
               "file selected by the targets was kept")
    ck.assumptions = [
        "repositories are pkgcore.test.misc.FakeRepo/FakePkg objects (distfiles, RESTRICT=fetch, real CPV parsing); the domain is a stub "
        "exposing distdir / all_installed_repos / source_repos; argparse itself is not exercised (the namespace is filled in directly)",
        "the target-name heuristics are observed (tool's own listing for the targets alone), not specified",
        "stdout is presented as a tty (the script only lists when it is not)",
    ]
    w = World(pclean, FakePkg, FakeRepo, PlainTextFormatter)
    events, cases = [], {}

    def record(case):
        selected, removed, outside = w.observe(case)
        tid = len(events)
        events.append(event(tid, case, selected, removed, outside))
        cases[tid] = case
        ck.count()
        if removed and set(selected) - set(removed):
            ck.nontriv(repr(case))
        return events[-1]

    def judge(label):
        verdicts = ck.trace("Pclean_Trace", events, label=label, timeout=ck.pick(400, 3000))
        for v in verdicts:
            e, case = events[v["tid"]], cases[v["tid"]]
            if v["clause"] == "OutsideDomain":
                raise tlc.MachineryError(f"generated case leaves the domain: {case}")
            o = case["opts"]
            ck.violation(v["clause"], dict(case=case, removed=e["removed"], selected=e["selected"], targets=case["targets"],
                                           excludes=case["excludes"],
                                           flags="".join(k for k, f in (("I", o["exclInstalled"]), ("E", o["exclExists"]), ("f", o["exclFetch"])) if f)))

    def unchars(c):
        tx = lambda x: "".join(x)
        pk = lambda d: dict(cat=tx(d["cat"]), pkg=tx(d["pkg"]), ver=tx(d["ver"]), slot=tx(d["slot"]), dist=list(d["dist"]), restricted=d["restricted"])
        return dict(files=c["files"], repo=[pk(d) for d in c["repo"]], installed=[pk(d) for d in c["installed"]],
                    targets=[tx(t) for t in c["targets"]], excludes=[tx(t) for t in c["excludes"]], opts=c["opts"])

    if ck.replay_case:
        e = record(ck.replay_case["detail"]["case"])
        judge("Trace:replay")
        ck.sample(dict(removed=e["removed"], selected=e["selected"]))
        ck.nontriv("replay-a")
        ck.nontriv("replay-b")
        return

    # 1. the design
    ck.mc("Pclean_MC", cfg_text="SPECIFICATION Spec\nCONSTANTS AgeVals = " + ck.pick("{1}", "{1, 3}") + "\n SizeVals = {1, 3}\n UseFilters = "
          + ck.pick("{TRUE}", "{TRUE, FALSE}") + "\n" + INV, workers=4, timeout=ck.pick(300, 3000), label="MC:Pclean_MC")
    ck.exhaustive = False
    # 2. spec -> code
    exported = ck.export("Pclean_Export", cfg_text=f"CONSTANT Size = {ck.pick(1, 2)}\n", timeout=900)
    exported = sorted((unchars(c) for c in exported), key=repr)
    if len(exported) < 1000:
        raise tlc.MachineryError(f"export too small: {len(exported)}")
    for c in exported:
        e = record(c)
    k = next(e for e in events if e["removed"] and cases[e["tid"]]["targets"] and cases[e["tid"]]["opts"]["exclInstalled"])
    ck.sample(dict(direction="spec->code", targets=cases[k["tid"]]["targets"], excludes=cases[k["tid"]]["excludes"], opts=k["opts"],
                   selected=k["selected"], removed=k["removed"]))
    # 3. code -> spec
    r_ = rng(46)
    for n in range(ck.pick(1500, 15000)):
        e = record(rand_case(r_))
        if n == 7:
            ck.sample(dict(direction="code->spec", case=cases[e["tid"]], selected=e["selected"], removed=e["removed"]))
    judge("Trace:exported+random scenarios")
    if len(ck.nontrivial) < 200:
        raise tlc.MachineryError(f"too few non-trivial scenarios: {len(ck.nontrivial)}")
