"""C18 — merging places exactly the package contents on the live filesystem (fs/ops.py merge_contents,
MergeEngine.install + the `merge` trigger).

MC          : Merge_MC — the protocol ops.py follows (directories first: mkdir/lchown/chmod/utime; other
              entries: create `<name>#new` next to an existing object, fill, lchown, chmod, utime, rename)
              as a process over FsModel for every small (old root, cset) pair: when it terminates the
              filesystem fits Merge!Expected (every C18 clause), in every reachable state (= crash point,
              also after an EIO at any step) the C19 clauses hold; the write-in-place variant is shown to
              break OldOrNew (vacuity guard).
spec -> code: the (old root, cset) pairs TLC enumerates for Merge_MC's initial states are exported
              (Merge_Export) and merged for real.
code -> spec: seeded random content trees (hardlink groups, symlinks to files/dirs/dangling/absolute,
              fifos, nested dirs, odd names, missing parent entries) over random pre-existing roots
              (same type, other type, symlinked directories, dangling symlinks, unrelated files, stale
              `#new` siblings, old hardlinks), with / without offset / offset created by the merge,
              through ops.merge_contents and through MergeEngine.install.  About a third of the scenarios are
              decorated with the tolerated CannotOverwrite retry of merge_contents (symlink entries over an
              existing real directory whose target is a directory) placed in the middle of the iteration
              order, with a hardlink group straddling it and every other feature on either side; the quick
              sample of the exported pairs is stratified over (cset kinds x what g meets).  About 30 % have a
              filesystem boundary inside the root (a pre-existing directory is a mount point: os.link across
              it fails with EXDEV, emulated in the recorder; Expected links only names on one filesystem) with a
              hardlink group spread over both sides.  Directories may be set-gid with a foreign group and most
              entries are recorded as 0:0, the merging process' own ids (created objects inherit the group of a
              set-gid parent, so ownership must be set explicitly).  Further decorations (about 30 % each, freely
              combined): pre-existing parent directories that are NOT in the cset with permissions narrower than
              0750 and new / replacing entries below them (Frame covers the directory); pre-existing
              `<entry>#new` temporaries of every kind (other content, hard link to foreign data, symlink, rarely
              a directory) next to replaced entries, in particular next to hardlink-group members (installed by
              link); and roots that are what an interrupted earlier run of the same merge left behind (cut at a
              random mutation, also after half a write).  The recorded syscalls are
              replayed through FsModel by Merge_Trace; judged there: model == real snapshot
              (FinalState/FinalLinks), real snapshot vs Merge!Expected(old, cset, offset) one clause per
              attribute (Type Data Target Mtime Mode Owner Hardlink DirPermsKept Frame, Outcome_*).
Carve-outs (Expected = "unspecified", counted, not judged): a directory entry whose parent exists
neither in the cset nor on disk; parents reached through dangling symlinks / non-directories; a symlink
over a directory whose target is outside the root or itself a symlink; two entries resolving to one
object; offset whose parent is missing; the temporary name `<entry>#new` next to a replaced object is taken by a
directory (never a leftover of a merge).  Not determined by the property and therefore wildcards: mode /
owner of created missing parents and of the offset directory, owner of pre-existing directories, mode
of symlinks (not settable on Linux), mtime of directories populated afterwards, a pre-existing
`<entry>#new` sibling (temporary name reserved by the merge, C19 statement).
"""
import errno
import os

from pylib import fsjudge, fsrec, tlc
from pylib.common import mktmp, rng, use_repo

NAMES = ["a", "b c", "d", "e", "lib", "é", "-n", "x.y", "#z"]
MODES_F = [0o644, 0o755, 0o600, 0o4755, 0o640, 0o444]
# set-gid directories: what is created below them inherits their group (and sub-directories the bit)
MODES_D = [0o755, 0o700, 0o775, 0o1777, 0o750, 0o2775, 0o2755]
# 0 is the merging process' own uid/gid and by far the most common recorded owner
IDS = [0, 0, 0, 1, 2, 250, 1000]
BIG = 70000
# paths with non-ASCII names are printed in verdicts; deep folds need a roomier stack
JAVA_ENV = {"JAVA_TOOL_OPTIONS": "-Xss64m -Dstdout.encoding=UTF-8 -Dsun.stdout.encoding=UTF-8 -Dfile.encoding=UTF-8"}


# --------------------------------------------------------------------------- scenario generation
def _content(r_, tag):
    if r_.random() < 0.12:
        return (tag * (BIG // max(1, len(tag)) + 1))[:BIG + r_.randint(0, 9)]
    return tag * r_.randint(0, 3) + str(r_.randint(0, 99))


def _attrs(r_, modes):
    return dict(mode=r_.choice(modes), uid=r_.choice(IDS), gid=r_.choice(IDS), mtime=r_.choice([1, 1000000000, r_.randint(2, 2**31 - 2)]))


def gen_cset(r_, size):
    """A tree-shaped contents set: list of entry dicts, paths relative to the merge root."""
    ents, dirs = [], [""]
    paths = set()
    tries = 0
    while len(ents) < size and tries < 200:
        tries += 1
        parent = r_.choice(dirs)
        if parent.count("/") >= 2 and parent:
            continue
        name = r_.choice(NAMES)
        p = f"{parent}/{name}" if parent else name
        if p in paths:
            continue
        t = r_.choice(["file", "file", "file", "dir", "dir", "sym", "fifo"] if parent else ["dir", "dir", "dir", "file", "sym"])
        e = dict(path=p, type=t, content="", target="", grp=0, src="local")
        if t == "dir":
            e.update(_attrs(r_, MODES_D))
            dirs.append(p)
        elif t == "file":
            e.update(_attrs(r_, MODES_F))
            e["content"] = _content(r_, name)
            e["src"] = r_.choice(["local", "local", "mem"])
        elif t == "sym":
            e.update(_attrs(r_, [0o777]))
            e["target"] = r_.choice(["t", "../" + r_.choice(NAMES), r_.choice(NAMES) + "/q", "nowhere", "@ROOT@/" + r_.choice(NAMES),
                                     r_.choice(NAMES), "./" + r_.choice(NAMES)])
            if ".." in e["target"] and p.count("/") < 1:
                e["target"] = r_.choice(NAMES)
        else:
            e.update(_attrs(r_, [0o600, 0o644, 0o666]))
        paths.add(p)
        ents.append(e)
    # hardlink groups
    files = [e for e in ents if e["type"] == "file"]
    g = 0
    while len(files) >= 2 and r_.random() < 0.6:
        g += 1
        k = r_.randint(2, min(3, len(files)))
        grp = r_.sample(files, k)
        for e in grp:
            files.remove(e)
            for f in ("content", "mode", "uid", "gid", "mtime"):
                e[f] = grp[0][f]
            e["grp"] = g
            e["src"] = "local"
    # missing parent entries
    if r_.random() < 0.2:
        withkids = [e for e in ents if e["type"] == "dir" and any(o["path"].startswith(e["path"] + "/") for o in ents)]
        if withkids:
            ents.remove(r_.choice(withkids))
    r_.shuffle(ents)
    return ents


def gen_old(r_, cset, extra=3, benign=False):
    """A pre-existing root built to collide with cset: list of object dicts (paths relative to merge root)."""
    old, taken = [], {}

    def add(p, t, **kw):
        if p in taken:
            return False
        par = os.path.dirname(p)
        if par and taken.get(par) not in ("dir",):
            if par in taken:
                return False
            if not add(par, "dir", **_attrs(r_, MODES_D)):
                return False
        o = dict(path=p, type=t, content="", target="", link_to="")
        o.update(_attrs(r_, MODES_D if t == "dir" else MODES_F))
        o.update(kw)
        taken[p] = t
        old.append(o)
        return True

    realdirs = 0
    for e in sorted(cset, key=lambda e: e["path"]):
        x = r_.random()
        p, t = e["path"], e["type"]
        if x < 0.45:
            continue
        if t == "dir":
            k = r_.choice(["dir", "dir", "dir", "symdir", "symdir", "symdir-abs", "dangling", "file", "symfile"])
        else:
            k = r_.choice(["same", "same", "same", "file", "sym", "symdir", "dir", "fifo", "dangling", "hardlinked", "stale"])
        if benign and k in ("file", "symfile", "dir") and (t == "dir") != (k == "dir"):
            k = "dir" if t == "dir" else "file"   # no refusals: the retry family must reach the end of the merge
        if k == "same":
            k = {"file": "file", "sym": "sym", "fifo": "fifo"}[t]
        if k == "dir":
            add(p, "dir")
        elif k == "file":
            add(p, "file", content="old-" + _content(r_, "o"))
        elif k == "fifo":
            add(p, "fifo")
        elif k == "sym":
            add(p, "sym", target=r_.choice(["old-t", "nowhere", "../q"]))
        elif k == "dangling":
            add(p, "sym", target=r_.choice(["gone", "gone/deeper"]))
        elif k in ("symdir", "symdir-abs"):
            realdirs += 1
            rd = f"real{realdirs}"
            if add(rd, "dir"):
                rel = os.path.relpath(rd, os.path.dirname(p) or ".")
                add(p, "sym", target=rel if k == "symdir" else "@ROOT@/" + rd)
        elif k == "symfile":
            if add("plainfile", "file", content="pf") or "plainfile" in taken:
                add(p, "sym", target=os.path.relpath("plainfile", os.path.dirname(p) or "."))
        elif k == "hardlinked":
            if add(p, "file", content="old-hl"):
                add(f"keep{len(old)}", "file", link_to=p)
        elif k == "stale":
            add(p, "file", content="old-" + _content(r_, "s"))
            add(p + "#new", "file", content="STALE-TEMP-" * r_.randint(1, 9))
    for _ in range(r_.randint(0, extra)):
        par = r_.choice([""] + [o["path"] for o in old if o["type"] == "dir"])
        nm = r_.choice(["other", "unrel", "zz"])
        p = f"{par}/{nm}" if par else nm
        t = r_.choice(["file", "dir", "sym"])
        add(p, t, content="unrelated", target="whatever")
    return old


class Deco:
    """Helpers to decorate a generated (cset, old) pair consistently."""

    def __init__(self, r_, cset, old):
        self.r_, self.cset, self.old = r_, cset, old
        self.otype = {o["path"]: o["type"] for o in old}
        self.ctype = {e["path"]: e["type"] for e in cset}

    def clean_dir(self, p):  # p and its ancestors end up as real directories
        while p:
            if self.otype.get(p, "dir") != "dir" or self.ctype.get(p, "dir") != "dir":
                return False
            p = os.path.dirname(p)
        return True

    def old_dir(self, p):
        if not p or p in self.otype:
            return
        self.old_dir(os.path.dirname(p))
        o = dict(path=p, type="dir", content="", target="", link_to="")
        o.update(_attrs(self.r_, MODES_D))
        self.old.append(o)
        self.otype[p] = "dir"

    def old_file(self, p, content):
        if p not in self.otype:
            self.old.append(dict(path=p, type="file", content=content, target="", link_to="", **_attrs(self.r_, MODES_F)))
            self.otype[p] = "file"

    def new_file(self, parent, name, like=None):
        e = dict(path=f"{parent}/{name}" if parent else name, type="file", content=_content(self.r_, name), target="", grp=0, src="local")
        e.update(_attrs(self.r_, MODES_F))
        if like:
            for f in ("content", "mode", "uid", "gid", "mtime", "grp"):
                e[f] = like[f]
        self.ctype[e["path"]] = "file"
        return e

    def homes(self):
        return [""] + [p for p, t in self.ctype.items() if t == "dir" and self.clean_dir(p)]

    def group(self, want, where=None):
        """A hardlink group with at least `want` members (members added under the directories `where`)."""
        r_, cset = self.r_, self.cset
        files = [e for e in cset if e["type"] == "file" and self.otype.get(e["path"], "file") != "dir"
                 and self.clean_dir(os.path.dirname(e["path"]))]
        grouped = [e for e in files if e["grp"]]
        if grouped:
            a = r_.choice(grouped)
        else:
            a = r_.choice(files) if files else self.new_file(r_.choice(self.homes()), "hl-a")
            if a not in cset:
                cset.append(a)
            a["grp"], a["src"] = 7, "local"
        members = [e for e in cset if e["type"] == "file" and e["grp"] == a["grp"]]
        while len(members) < want:
            b = self.new_file(r_.choice(where or self.homes()), f"hl-{len(cset)}", like=a)
            cset.append(b)
            members.append(b)
        return members


def add_unlisted_parents(r_, cset, old):
    """Pre-existing parent directories that are NOT part of the contents set, with permissions narrower than
    what a created missing parent would get (0750), and new / replacing non-directory entries below them:
    the frame condition covers the directory itself (mode, owner)."""
    d = Deco(r_, cset, old)
    for j in range(r_.randint(1, 2)):
        home = r_.choice(d.homes())
        P = f"{home}/up{j}" if home else f"up{j}"
        if P in d.otype or P in d.ctype:
            continue
        d.old_dir(P)
        next(o for o in old if o["path"] == P)["mode"] = r_.choice([0o700, 0o500, 0o711, 0o510, 0o300])
        members = [e for e in cset if e["type"] == "file" and e["grp"]]
        for k in range(r_.randint(1, 3)):
            t = r_.choice(["file", "file", "sym", "fifo", "mate"])
            name = f"n{k}"
            if t == "mate" and members:
                e = d.new_file(P, name, like=members[0])
            elif t in ("file", "mate"):
                e = d.new_file(P, name)
            else:
                e = dict(path=f"{P}/{name}", type=t, content="", target="t" if t == "sym" else "", grp=0, src="local")
                e.update(_attrs(r_, [0o644, 0o600]))
                d.ctype[e["path"]] = t
            cset.insert(r_.randint(0, len(cset)), e)
            if r_.random() < 0.3:
                d.old_file(e["path"], "old-below-unlisted")


def add_stale_temps(r_, cset, old):
    """Pre-existing `<entry>#new` temporaries of every kind (file with other content, hard link to something
    else, symlink, rarely a directory) next to entries that replace an existing object - in particular next
    to members of a hardlink group, which are installed by link() rather than by copying."""
    d = Deco(r_, cset, old)
    members = d.group(r_.randint(2, 3))
    others = [e for e in cset if e["type"] != "dir" and not e["grp"] and d.otype.get(e["path"], "file") != "dir"
              and d.clean_dir(os.path.dirname(e["path"]))]
    for e in members + r_.sample(others, min(len(others), 2)):
        if r_.random() < 0.25:
            continue
        d.old_dir(os.path.dirname(e["path"]))
        d.old_file(e["path"], "old-" + e["path"])
        tmp = e["path"] + "#new"
        if tmp in d.otype or tmp in d.ctype or d.otype.get(e["path"]) == "dir":
            continue
        kind = r_.choice(["file", "file", "hardlink", "hardlink", "sym", "dir" if r_.random() < 0.3 else "file"])
        if kind == "file":
            d.old_file(tmp, "STALE-TEMP-" * r_.randint(1, 9))
        elif kind == "hardlink":
            keep = f"foreign{len(old)}"
            d.old_file(keep, "somebody else's data")
            old.append(dict(path=tmp, type="file", content="", target="", link_to=keep, **_attrs(r_, MODES_F)))
            d.otype[tmp] = "file"
        elif kind == "sym":
            old.append(dict(path=tmp, type="sym", content="", target="stale-target", link_to="", **_attrs(r_, [0o777])))
            d.otype[tmp] = "sym"
        else:
            d.old_dir(tmp)
    r_.shuffle(cset)


def add_retries(r_, cset, old):
    """Decorate a scenario with the tolerated CannotOverwrite retry of merge_contents: symlink entries whose
    location is an existing real directory and whose target is a directory, placed in the middle of the
    iteration order, with a hardlink group (and whatever else the scenario holds) on both sides of them."""
    d = Deco(r_, cset, old)
    homes = d.homes()
    syms = []
    for j in range(r_.randint(1, 2)):
        tgt = r_.choice([p for p in homes if p] + [f"rd{j}"] * 2)
        if tgt.startswith("rd"):
            d.old_dir(tgt)
            if r_.random() < 0.5:
                d.old_file(tgt + "/inside", "behind the link")
        parent = r_.choice(homes)
        p = f"{parent}/lk{j}" if parent else f"lk{j}"
        d.old_dir(p)
        if r_.random() < 0.6:
            d.old_file(p + "/keep", "other package")
        e = dict(path=p, type="sym", content="", grp=0, src="local",
                 target=r_.choice([os.path.relpath(tgt, parent or "."), "@ROOT@/" + tgt]))
        e.update(_attrs(r_, [0o777]))
        d.ctype[p] = "sym"
        syms.append(e)
    members = d.group(2)
    a = r_.choice(members)
    b = r_.choice([m for m in members if m is not a])
    if r_.random() < 0.5:
        extra = d.new_file(r_.choice(homes), f"hl-x{len(cset)}", like=a)
        cset.append(extra)
    rest = [e for e in cset if e is not a and e is not b]
    r_.shuffle(rest)
    cut1, cut2 = sorted((r_.randint(0, len(rest)), r_.randint(0, len(rest))))
    order = rest[:cut1] + [a] + rest[cut1:cut2] + [syms[0]] + rest[cut2:] + [b]
    for e in syms[1:]:
        order.insert(r_.randint(0, len(order)), e)
    if r_.random() < 0.5:  # and the mirror image: the group member after the retry comes first in the set
        order.reverse()
    cset[:] = order


def add_mounts(r_, cset, old):
    """Decorate a scenario with a filesystem boundary inside the merge root: a pre-existing directory is a
    mount point (hard links across it fail with EXDEV, emulated at os.link), and a hardlink group has
    members on both sides of it - several on at least one side, in random iteration order."""
    d = Deco(r_, cset, old)
    inside = [p for p in d.homes() if p]
    mp = r_.choice(inside) if inside and r_.random() < 0.6 else "mnt"
    d.old_dir(mp)
    if mp == "mnt" and r_.random() < 0.5:
        e = dict(path="mnt", type="dir", content="", target="", grp=0, src="local")
        e.update(_attrs(r_, MODES_D))
        cset.append(e)
        d.ctype["mnt"] = "dir"
    below = [mp] + [p for p in d.homes() if p.startswith(mp + "/")]
    above = [p for p in d.homes() if p != mp and not p.startswith(mp + "/")]
    members = d.group(2)
    a = members[0]
    for where in (below, below, above, r_.choice([below, above])):
        e = d.new_file(r_.choice(where), f"hl-m{len(cset)}", like=a)
        cset.append(e)
    r_.shuffle(cset)
    return [mp]


def gen_scenario(r_, size, retry=None, mount=None, parents=None, stale=None):
    cset = gen_cset(r_, r_.randint(1, size))
    retry = r_.random() < 0.35 if retry is None else retry
    mount = r_.random() < 0.3 if mount is None else mount
    parents = r_.random() < 0.3 if parents is None else parents
    stale = r_.random() < 0.3 if stale is None else stale
    deco = retry or mount or parents or stale
    old = gen_old(r_, cset, benign=deco)
    mounts = add_mounts(r_, cset, old) if mount else []
    if stale:
        add_stale_temps(r_, cset, old)
    if parents:
        add_unlisted_parents(r_, cset, old)
    if retry:
        add_retries(r_, cset, old)
    sc = dict(cset=cset, old=old, mounts=mounts,
              mode=r_.choice(["offset", "offset", "none", "missing"] if not deco else ["offset", "none"]),
              via=r_.choice(["ops", "ops", "engine"]))
    if not mounts and r_.random() < 0.2:
        # the root is what an earlier, interrupted run of this very merge left behind
        sc.update(precut=round(r_.random(), 3), prehalf=r_.random() < 0.4)
    return sc


# --------------------------------------------------------------------------- realisation
class World:
    """One scenario on disk: recorder root R, merge root M = R/m, sources and engine tempdir outside R."""

    def __init__(self, base, sc):
        # decorators of the generator combine freely; one of them may turn an old directory into a symlink or
        # a file after another one has put old objects below it: such objects cannot exist, drop them
        nondir = {o["path"] for o in sc["old"] if o["type"] != "dir"}
        below = [o for o in sc["old"] if any(o["path"].startswith(a + "/") for a in nondir)]
        if below:
            gone = {o["path"] for o in below}
            sc["old"] = [o for o in sc["old"] if o["path"] not in gone and o.get("link_to") not in gone]
        self.sc = sc
        self.base = base
        self.R = os.path.join(base, "R")
        self.M = os.path.join(self.R, "m")
        self.src = os.path.join(base, "src")
        self.tmp = os.path.join(base, "T")
        for d in (self.src, self.tmp):
            if os.path.lexists(d):
                fsrec._real_rmtree(d)
            os.makedirs(d)
        self._srcfiles = {}

    def sub(self, s):
        return s.replace("@ROOT@", os.path.realpath(self.M))

    def setup(self, _root=None, _inner=False):
        """(Re)build the old root (optionally: as left behind by an interrupted earlier run of the merge)."""
        if os.path.lexists(self.R):
            fsrec._real_rmtree(self.R)
        os.makedirs(self.R)
        if self.sc["mode"] == "missing" and not self.sc["old"]:
            return
        os.mkdir(self.M)
        os.chmod(self.M, 0o755)
        objs = self.sc["old"]
        for o in sorted((o for o in objs if o["type"] == "dir"), key=lambda o: o["path"].count("/")):  # parents first
            os.mkdir(os.path.join(self.M, o["path"]))
        for o in [o for o in objs if o["type"] != "dir"]:
            p = os.path.join(self.M, o["path"])
            if o.get("link_to"):
                os.link(os.path.join(self.M, o["link_to"]), p)
            elif o["type"] == "file":
                with open(p, "w") as f:
                    f.write(o["content"])
            elif o["type"] == "sym":
                os.symlink(self.sub(o["target"]), p)
            elif o["type"] == "fifo":
                os.mkfifo(p)
        for o in sorted(objs, key=lambda o: -o["path"].count("/")):
            p = os.path.join(self.M, o["path"])
            if o.get("link_to"):
                continue
            os.lchown(p, o["uid"], o["gid"])
            if o["type"] != "sym":
                os.chmod(p, o["mode"])
            os.utime(p, (o["mtime"], o["mtime"]), follow_symlinks=False)
        os.utime(self.M, (12345, 12345))
        if self.sc.get("precut") is not None and not _inner:
            op = make_op(self)
            rec, _res, _exc = fsrec.count_mutations(self.R, op)
            self.setup(_inner=True)
            if rec.n_mut:
                fsrec.run_with_cut(self.R, op, 1 + int(self.sc["precut"] * rec.n_mut) % rec.n_mut, half=bool(self.sc.get("prehalf")))

    def location(self, e):
        if self.sc["mode"] == "none":
            return os.path.join(self.M, e["path"])
        return "/" + e["path"]

    def offset(self):
        return None if self.sc["mode"] == "none" else self.M

    def _srcfile(self, e):
        key = ("g", e["grp"], e["content"]) if e["grp"] else ("p", e["path"], e["content"])
        if key not in self._srcfiles:
            fn = os.path.join(self.src, f"s{len(self._srcfiles)}")
            with open(fn, "w") as f:
                f.write(e["content"])
            self._srcfiles[key] = fn
        elif e["grp"]:
            fn = os.path.join(self.src, f"s{len(self._srcfiles)}-{len(os.listdir(self.src))}")
            os.link(self._srcfiles[key], fn)
            return fn
        return self._srcfiles[key]

    def build_cset(self, entries=None):
        from pkgcore.fs import contents, fs
        from snakeoil.data_source import bytes_data_source, local_source

        out = []
        for e in (self.sc["cset"] if entries is None else entries):
            loc = self.location(e)
            kw = dict(mode=e["mode"], uid=e["uid"], gid=e["gid"], mtime=e["mtime"])
            if e["type"] == "dir":
                out.append(fs.fsDir(loc, **kw))
            elif e["type"] == "sym":
                out.append(fs.fsSymlink(loc, self.sub(e["target"]), **kw))
            elif e["type"] == "fifo":
                out.append(fs.fsFifo(loc, **kw))
            else:
                if e.get("src") == "mem" and not e["grp"]:
                    out.append(fs.fsFile(loc, data=bytes_data_source(e["content"].encode()), dev=None, inode=None, **kw))
                else:
                    fn = self._srcfile(e)
                    st = os.lstat(fn)
                    out.append(fs.fsFile(loc, data=local_source(fn), dev=st.st_dev, inode=st.st_ino, **kw))
        return contents.contentsSet(out)

    # ---- abstract rendering
    def prefix(self):
        return ["m"]

    def literal(self):
        """merge_contents / unmerge_contents get full locations and no offset: mode 'none', and every engine
        run (the engine rewrites the cset itself and calls the ops without offset)."""
        return self.sc["mode"] == "none" or self.sc["via"] in ("engine", "replace")

    def abs_offset(self):
        return [] if self.literal() else ["m"]

    def abs_entries(self, entries=None):
        rows = []
        for e in (self.sc["cset"] if entries is None else entries):
            comps = e["path"].split("/")
            if self.literal():
                comps = ["m"] + comps
            data = e["content"].encode() if e["type"] == "file" else b""
            rows.append(dict(path=comps, type=e["type"], cid=fsrec.cid_of_bytes(data) if e["type"] == "file" else "-",
                             size=len(data), mode=e["mode"], uid=e["uid"], gid=e["gid"], mtime=e["mtime"],
                             target=self.sub(e["target"]) if e["type"] == "sym" else "-", grp=e["grp"]))
        return rows

    def abs_mounts(self, snap):
        """Mount points as canonical paths relative to the recorder root (they pre-exist as directories)."""
        out = []
        for m in self.sc.get("mounts", []):
            real = os.path.realpath(os.path.join(self.M, m))
            rel = os.path.relpath(real, os.path.realpath(self.R))
            if snap.get(rel, {}).get("type") == "dir":
                out.append(rel)
        return out

    def links(self, snap, entries_list):
        root = os.path.realpath(self.R)
        ts = {o["target"] for o in snap.values() if o["type"] == "sym"}
        for ents in entries_list:
            ts |= {self.sub(e["target"]) for e in ents if e["type"] == "sym"}
        out = []
        for t in sorted(ts):
            if t.startswith("/"):
                if t == root or t.startswith(root + "/"):
                    out.append(dict(t=t, abs=True, ext=False, comps=[c for c in t[len(root):].split("/") if c]))
                else:
                    out.append(dict(t=t, abs=True, ext=True, comps=[]))
            else:
                out.append(dict(t=t, abs=False, ext=False, comps=[c for c in t.split("/") if c]))
        return out


class DevRecorder(fsrec.Recorder):
    """Recorder that emulates filesystem boundaries inside the root: os.link between names on different
    sides of a mount point fails with EXDEV (no mutation, no event), as the kernel would."""

    def __init__(self, root, mounts=(), **kw):
        super().__init__(root, **kw)
        self.mounts = sorted(mounts, key=len, reverse=True)
        self.exdev = 0

    def _dev(self, rp):
        return next((m for m in self.mounts if rp == m or rp.startswith(m + "/")), "")

    def _w_link(self, src, dst, *, src_dir_fd=None, dst_dir_fd=None, follow_symlinks=True):
        if self.active and self.mounts:
            a, b = self._resolve(src, dir_fd=src_dir_fd), self._resolve(dst, dir_fd=dst_dir_fd)
            if self._inside(a) and self._inside(b) and self._dev(a) != self._dev(b):
                self.exdev += 1
                raise OSError(errno.EXDEV, os.strerror(errno.EXDEV), os.fspath(src), None, os.fspath(dst))
        return super()._w_link(src, dst, src_dir_fd=src_dir_fd, dst_dir_fd=dst_dir_fd, follow_symlinks=follow_symlinks)


def observer():
    from pkgcore.operations import observer as om

    return om.repo_observer(om.null_output())


def make_op(w):
    """The real operation of a merge scenario."""
    from pkgcore.fs import ops
    from pkgcore.merge import triggers
    from pkgcore.merge.engine import MergeEngine

    sc = w.sc
    if sc["via"] == "engine" and sc["mode"] != "none":
        class Pkg:
            pass

        def op(_root=None):
            pkg = Pkg()
            pkg.contents = w.build_cset()
            eng = MergeEngine.install(w.tmp, pkg, offset=w.M, observer=observer(), disable_plugins=True)
            triggers.merge().register(eng)
            for ph in ("pre_merge", "merge", "post_merge"):
                getattr(eng, ph)()
        return op

    def op(_root=None):
        ops.merge_contents(w.build_cset(), offset=w.offset())
    return op


def init_event(tid, w, before, **extra):
    ev = fsjudge.init_event(tid, before)
    for k in ("watch", "units", "views", "frame"):
        ev.pop(k, None)
    ev.update(extra)
    return ev


def run_recorded(tid, w, op, extra_init):
    """Fresh old root, run op under the recorder; returns (events, info)."""
    w.setup()
    before = fsrec.snapshot(w.R)
    rec, exc = DevRecorder(w.R, mounts=w.abs_mounts(before)), None
    with rec:
        try:
            op()
        except Exception as e:  # noqa: the outcome is judged by the trace spec
            exc = e
    after = fsrec.snapshot(w.R)
    events = [init_event(tid, w, before, **extra_init(before))]
    sysev = fsjudge.sys_events(tid, rec.events)
    events += sysev
    fin = fsjudge.final_event(tid, len(sysev) + 1, after)
    fin["raised"] = type(exc).__name__ if exc is not None else ""
    events.append(fin)
    return events, dict(before=before, after=after, rec=rec, exc=exc, n_sys=len(sysev))


def snap_rows(tid, i, snap, **extra):
    ev = fsjudge.final_event(tid, i, snap)
    ev["ev"] = "crash"
    ev.update(extra)
    return ev


def merge_init(w, prefixes=False):
    def extra(before):
        return dict(cset=w.abs_entries(), offset=w.abs_offset(), links=w.links(before, [w.sc["cset"]]), prefixes=prefixes,
                    mounts=[m.split("/") for m in w.abs_mounts(before)])
    return extra


def judge(ck, module, events, label):
    """Run a *_Trace module; returns (verdicts, expectations {tid: (outcome, why)})."""
    verdicts, res = tlc.trace_check(module, events, timeout=3000, heap="2g", env=JAVA_ENV)
    ck.add_mc(label, res)
    ck.traces += len({e["tid"] for e in events})
    exp = {p[1]: (p[2], p[3]) for p in res.tagged("EXPECT")}
    ck.extra["retry_scenarios"] = ck.extra.get("retry_scenarios", 0) + sum(1 for p in res.tagged("EXPECT") if len(p) > 4 and p[2] == "ok" and p[4] > 0)
    for v in verdicts:
        if v["clause"].startswith("Model_"):
            e = next(e for e in events if e["tid"] == v["tid"] and e["i"] == v["i"])
            raise tlc.MachineryError(f"FsModel cannot follow recorded syscall {e}")
    return verdicts, exp


def obj_type(snap, rel):
    o = snap.get(rel)
    return o["type"] if o else "absent"


KINDS = dict(  # kind universes of Merge_Cases: what d, d/f, g are before the merge / in the cset
    full=dict(ODKinds=["absent", "dir", "file", "symdir", "dangling"], OFKinds=["absent", "file", "sym", "stale"],
              OGKinds=["absent", "file", "sym", "dir", "hl"], CDKinds=["none", "dir"], CFKinds=["none", "file", "sym", "fifo"],
              CGKinds=["none", "file", "sym", "mate"], CHKinds=["none", "mate"], MTKinds=["none", "d"]),
    small=dict(ODKinds=["dir", "file", "symdir", "dangling"], OFKinds=["absent", "file", "stale"], OGKinds=["absent", "sym", "hl", "dir"],
               CDKinds=["none", "dir"], CFKinds=["none", "file", "sym"], CGKinds=["none", "sym", "mate"], CHKinds=["none", "mate"], MTKinds=["none", "d"]),
    replace=dict(ODKinds=["dir"], OFKinds=["file", "stale"], OGKinds=["absent", "hl"], CDKinds=["dir"], CFKinds=["file"],
                 CGKinds=["none", "mate"], CHKinds=["none"], MTKinds=["none"]),
)


def kinds_cfg(which, chunks):
    out = f" NChunks = {chunks}\n"
    for k, v in KINDS[which].items():
        out += f" {k} = {{{', '.join(chr(34) + x + chr(34) for x in v)}}}\n"
    return out


def mc_cfg(variant, chunks, faults, extra="", kinds="full"):
    return (f'SPECIFICATION Spec\nCONSTANTS\n Variant = "{variant}"\n Faults = {faults}\n' + kinds_cfg(kinds, chunks) + extra)


def run_mc(ck, thorough_chunks=2):
    inv = "INVARIANT CrashInv\nINVARIANT DoneFits\nINVARIANT NoModelGap\n"
    ck.mc("Merge_MC", cfg_text=mc_cfg("temp", ck.pick(1, thorough_chunks), "TRUE", inv, kinds=ck.pick("small", "full")),
          workers=4, timeout=3000, label="MC:Merge protocol (#new+rename), crash+EIO at every step")
    guards(ck)


def guards(ck, stale=True):
    """Vacuity guards: the two broken protocol variants must be rejected by TLC."""
    bad = ck.mc("Merge_MC", cfg_text=mc_cfg("inplace", 2, "FALSE", "INVARIANT CrashInv\n", kinds="replace"), workers=2, timeout=3000,
                label="MC:Merge write-in-place (must violate CrashInv)", expect_ok=False)
    if bad.violated != "CrashInv":
        raise tlc.MachineryError("Merge_MC: the in-place variant no longer violates CrashInv (vacuous model?)")
    if not stale:
        return
    bad = ck.mc("Merge_MC", cfg_text=mc_cfg("stale", 1, "FALSE", "INVARIANT DoneFits\n", kinds="replace"), workers=2, timeout=3000,
                label="MC:Merge reusing a stale #new (must violate DoneFits)", expect_ok=False)
    if bad.violated != "DoneFits":
        raise tlc.MachineryError("Merge_MC: the stale-temp variant no longer violates DoneFits (vacuous model?)")


def stratified(r_, exported, n):
    """A seeded sample that holds at least one pair for every combination of what the cset contains
    (d, d/f, g, h kinds) with what g meets on disk, and one for every (old d, old d/f, cset g) combination."""
    pick, seen = [], set()
    pool = list(exported)
    r_.shuffle(pool)
    for keyf in (lambda c: (c["cd"], c["cf"], c["cg"], c["ch"], c["og"]), lambda c: (c["od"], c["of"], c["cg"], c["ch"], c["mt"])):
        for sc in pool:
            k = keyf(sc["sel"])
            if k not in seen:
                seen.add(k)
                if sc not in pick:
                    pick.append(sc)
    rest = [sc for sc in pool if sc not in pick]
    return pick + rest[:max(0, n - len(pick))]


def export_scenarios(ck):
    """spec -> code: the (old, cset) pairs Merge_MC starts from, as driver scenarios."""
    cases = ck.export("Merge_Export", cfg_text="CONSTANTS\n" + kinds_cfg("full", 1), label="Export:Merge_Cases (old, cset) pairs")
    cases.sort(key=lambda c: sorted(c["sel"].items()))
    out = []
    for n, c in enumerate(cases):
        out.append(dict(cset=[dict(e) for e in c["cset"]], old=[dict(o) for o in c["old"]],
                        mode=("offset", "none")[n % 2], via=("ops", "engine")[(n // 2) % 2], sel=c["sel"], mounts=list(c["mounts"])))
    return out


def run(ck):
    use_repo()
    ck.rule = ("seeded random (old root, cset, offset mode, ops|engine) scenarios + every (old, cset) pair of the MC model; "
               "non-trivial = distinct scenario where Expected is 'ok' or 'error' and at least one entry meets a "
               "pre-existing object or a missing parent")
    ck.assumptions = ["os-level interposition sees every mutation of the merge (cross-checked: FinalState model == lstat snapshot)",
                      "checks run as root (ownership clauses need chown to arbitrary ids)",
                      "symlink targets are decomposed lexically by the driver; resolution is done by the spec",
                      "mtimes are whole seconds < 2^31"]
    if os.geteuid() != 0:
        raise tlc.MachineryError("C18 needs root (lchown to foreign ids)")
    run_mc(ck)
    r_ = rng(18)
    base = mktmp("c18")
    scenarios = []
    if ck.replay_case:
        scenarios = [ck.replay_case["detail"]["scenario"]]
    else:
        exported = export_scenarios(ck)
        if ck.quick:  # quick tier: a seeded sample of the exported pairs, thorough: all of them
            exported = stratified(r_, exported, 150)
        else:
            ck.exhaustive = True
        scenarios += exported
        n = ck.pick(50, 900)
        size = ck.pick(7, 10)
        scenarios += [gen_scenario(r_, size) for _ in range(n)]
    events, infos = [], {}
    for tid, sc in enumerate(scenarios):
        w = World(os.path.join(base, f"w{tid}"), sc)
        evs, info = run_recorded(tid, w, make_op(w), merge_init(w))
        events += evs
        infos[tid] = info
        ck.count()
        fsrec._real_rmtree(w.base)
    old_umask = None
    stats = {}
    B = ck.pick(400, 150)
    tids = sorted(infos)
    for b in range(0, len(tids), B):
        chunk = set(tids[b:b + B])
        evs = [e for e in events if e["tid"] in chunk]
        verdicts, exp = judge(ck, "Merge_Trace", evs, f"Trace:Merge_Trace[{b // B}]")
        for tid in chunk:
            oc, why = exp[tid]
            stats[f"{oc}:{why}"] = stats.get(f"{oc}:{why}", 0) + 1
            sc = scenarios[tid]
            olds = {o["path"] for o in sc["old"]}
            if oc != "unspecified" and (any(e["path"] in olds for e in sc["cset"]) or oc == "error"):
                ck.nontriv(repr(sc))
        for v in verdicts:
            if v["clause"] in ("OldOrNew", "CrashFrame", "CrashDirPerms"):
                continue  # C19's clauses; judged by ./check C19
            sc, info = scenarios[v["tid"]], infos[v["tid"]]
            path = v["extra"][0] if v["extra"] else ""
            ck.violation(v["clause"], dict(scenario=sc, path=path, via=sc["via"], offset_mode=sc["mode"],
                                           old_type=obj_type(info["before"], path), new_type=obj_type(info["after"], path),
                                           raised=type(info["exc"]).__name__ if info["exc"] else "",
                                           expected=exp[v["tid"]][0], why=exp[v["tid"]][1]))
    ck.extra["expected_outcomes"] = stats
    ck.extra["syscalls_replayed"] = sum(i["n_sys"] for i in infos.values())
    ck.extra["scenarios_with_exdev_links"] = sum(1 for i in infos.values() if i["rec"].exdev)
    if scenarios:
        sc = scenarios[-1]
        ck.sample(dict(cset=[(e["path"], e["type"]) for e in sc["cset"]], old=[(o["path"], o["type"]) for o in sc["old"]],
                       mode=sc["mode"], via=sc["via"], syscalls=[e["op"] for e in infos[len(scenarios) - 1]["rec"].events][:40]))
