"""C38 — package-list rewriting touches only the lines it must (bugzilla/pkglist.py).

MC          : PkgList_MC   — the expansion as a line-by-line rewriting machine over every list of a universe of
                             line shapes: emitted prefix = reference expansion, every emitted line passes the
                             judge's clauses, refusal exactly when the reference refuses, result parses back,
                             a second expansion is the identity.
              PkgList_Laws — render(parse(t)) = t for EVERY text up to N over {space,a,#,LF,*} and {a,space,CR,LF};
                             the judge rejects each kind of damage.
spec -> code: PkgList_Export builds lists from line fields (lead/spec/gaps/keywords/trail/comment/eol), with
              suggestion tables and build() inputs; the text is fed to the real PackageList.
code -> spec: seeded random lists (comments, blank lines, CRLF, irregular spacing, sentinels, '#' inside tokens,
              non-ASCII comments) with random suggestion tables.
Observations (entries, build().text and its entries, expand().text or PackageListError, with_keywords().raw) are
judged by PkgList_Trace: RoundTrip, Parse_LineCount, Parse_Fields, Build_Parse, Build_Text, Expand_Untouched,
Expand_Preserve, Expand_Keywords, Expand_Spacing, Expand_LineCount, Expand_Refusal, Expand_SpuriousRefusal.

Carve-outs: white space other than space/tab and line boundaries other than LF / CR LF (form feed, NEL, U+2028 ...)
are outside the generated domain (TextInDomain); the separator written between NEW keywords is not judged;
when a line ends up without keywords only lead/spec/comment/eol are judged.
"""
import json
import os

from pylib import tlc
from pylib.common import mktmp, rng, use_repo

TOKENS = dict(p1="dev-libs/foo-1.2.3", p2="=app-misc/bar-2_p1-r3", b1="=dev-libs/foo-1.2.3", b2="app-misc/bar",
              b3=">=sys-apps/baz-4:2", k1="amd64", k2="~x86", k3="arm64")


def cps(s):
    return [ord(c) for c in s]


def txt(c):
    return "".join(chr(x) for x in c)


class Real:
    def __init__(self):
        from pkgcore.bugzilla import pkglist
        from pkgcore.bugzilla.errors import PackageListError

        self.m, self.Err = pkglist, PackageListError

    def entries(self, text):
        try:
            return self.m.PackageList(text).entries
        except self.Err as e:
            raise tlc.MachineryError(f"generator produced an unparsable list {text!r}: {e}") from e

    def ev_parse(self, tid, text):
        es = self.entries(text)
        return dict(tid=tid, i=0, ev="parse", text=cps(text),
                    entries=[dict(raw=cps(x.raw), eol=cps(x.eol), blank=bool(x.is_blank), kws=[cps(k) for k in x.keywords]) for x in es])

    def ev_build(self, tid, entries):
        """entries: [(str(atom), [kw..])]"""
        atoms = [(self._atom(p), k) for p, k in entries]
        built = self.m.PackageList.build(atoms)
        parsed = [x for x in self.entries(built.text) if x.pkg is not None]
        return dict(tid=tid, i=0, ev="build", entries=[dict(pkg=cps(str(a)), kws=[cps(x) for x in k]) for a, k in atoms],
                    text=cps(built.text), parsed=[dict(pkg=cps(str(x.pkg)), kws=[cps(k) for k in x.keywords]) for x in parsed])

    def _atom(self, s):
        from pkgcore.ebuild.atom import atom

        return atom(s)

    def ev_expand(self, tid, text, sg):
        """sg: [(spec token as written, [kw..])]"""
        table = {}
        for spec, kws in sg:
            table[str(self.m.parse_atom(spec))] = list(kws)
        pl = self.m.PackageList(text)
        self.entries(text)
        ev = dict(tid=tid, i=0, ev="expand", text=cps(text), sg=[dict(spec=cps(s), kws=[cps(k) for k in ks]) for s, ks in sg],
                  refused=False, out=[])
        try:
            ev["out"] = cps(pl.expand(lambda pkg: table.get(str(pkg), ())).text)
        except self.Err:
            ev["refused"] = True
        return ev

    def ev_withkw(self, tid, line, kws):
        es = self.entries(line)
        out = "" if not es else es[0].with_keywords(kws).raw + es[0].eol
        return dict(tid=tid, i=0, ev="withkw", text=cps(line), kws=[cps(k) for k in kws], out=cps(out))


# ---------------------------------------------------------------- random lists
SPECS = ["dev-libs/foo-1.2.3", "=dev-libs/foo-1.2.3", "app-misc/bar", "=app-misc/bar-2_p1-r3", ">=sys-apps/baz-4", "sys-apps/baz:2",
         "~x11-libs/q+t-5.15", "dev-lang/c++-11.2"]
KWS = ["amd64", "~x86", "arm64", "*", "^", "-", "~*", "ppc#64", "amd64-linux", "*"]
BLANKS = [" ", "  ", "\t", " \t ", "   "]
COMMENTS = ["#", "# why", "#no-space", "# é ü #x", "## a  b "]


def rnd_line(r):
    x = r.random()
    if x < 0.12:
        return r.choice(["", " ", "\t", "  \t"])
    if x < 0.25:
        return r.choice(["", " ", "\t "]) + r.choice(COMMENTS)
    lead = r.choice(["", "", "", " ", "\t", "    "])
    spec = r.choice(SPECS)
    n = r.choice([0, 1, 1, 1, 2, 2, 3])
    body = lead + spec
    for _ in range(n):
        body += r.choice(BLANKS) + r.choice(KWS)
    y = r.random()
    if y < 0.3:
        body += r.choice(BLANKS) + r.choice(COMMENTS)
    elif y < 0.5:
        body += r.choice(BLANKS)
    return body


def rnd_list(r):
    n = r.choice([0, 1, 1, 2, 2, 3, 4, 6])
    mode = r.choice(["lf", "lf", "crlf", "mixed"])
    out = ""
    for i in range(n):
        line = rnd_line(r)
        eol = {"lf": "\n", "crlf": "\r\n", "mixed": r.choice(["\n", "\r\n"])}[mode]
        if i == n - 1 and r.random() < 0.4 and line:
            eol = ""
        out += line + eol
    return out


def rnd_sugg(r, real, text):
    """One suggestion per distinct atom, listed under every spelling used in the text."""
    by_atom, sg = {}, []
    for x in real.entries(text):
        if x.pkg is None:
            continue
        tok = x.raw.split()[0]  # the spec as written
        key = str(x.pkg)
        if key not in by_atom:
            by_atom[key] = r.choice([[], [], ["amd64"], ["amd64", "~x86"], ["arm64", "amd64", "ppc64"], ["~arm"]])
        if all(s != tok for s, _ in sg):
            sg.append((tok, by_atom[key]))
    return sg


# ---------------------------------------------------------------- run
def mc_cfg(maxlines, kw, nsugg):
    return (f"SPECIFICATION Spec\nCONSTANTS\n MaxLines = {maxlines}\n KwSeqs <- {kw}\n NSugg = {nsugg}\n"
            "INVARIANT InvShapes\nINVARIANT InvParse\nINVARIANT InvPrefix\nINVARIANT InvEmitted\nINVARIANT InvRefusal\nINVARIANT InvDone\n")


def describe(e):
    d = dict(ev=e["ev"])
    if "text" in e:
        d["text"] = txt(e["text"])
    if e["ev"] == "expand":
        d["suggest"] = [[txt(s["spec"]), [txt(k) for k in s["kws"]]] for s in e["sg"]]
        d["refused"] = e["refused"]
        d["out"] = txt(e["out"])
    elif e["ev"] == "withkw":
        d["keywords"] = [txt(k) for k in e["kws"]]
        d["out"] = txt(e["out"])
    elif e["ev"] == "build":
        d["entries"] = [[txt(x["pkg"]), [txt(k) for k in x["kws"]]] for x in e["entries"]]
        d["parsed"] = [[txt(x["pkg"]), [txt(k) for k in x["kws"]]] for x in e["parsed"]]
    return d


def judge(ck, events, label):
    if not events:
        return
    verdicts = ck.trace("PkgList_Trace", events, label=label, timeout=1500)
    by = {e["tid"]: e for e in events}
    for v in verdicts:
        e = by[v["tid"]]
        if v["clause"] in ("OutsideDomain", "UnknownEvent"):
            raise tlc.MachineryError(f"generator left the property's domain: {describe(e)}")
        ck.violation(v["clause"], describe(e))


def replay(ck, real, d):
    if d["ev"] == "parse":
        return real.ev_parse(0, d["text"])
    if d["ev"] == "build":
        return real.ev_build(0, [(p, k) for p, k in d["entries"]])
    if d["ev"] == "expand":
        return real.ev_expand(0, d["text"], [(s, k) for s, k in d["suggest"]])
    return real.ev_withkw(0, d["text"], d["keywords"])


def run(ck):
    use_repo()
    real = Real()
    ck.rule = ("expand: distinct (text, suggestions) in which at least one line holds a * or ^ sentinel; parse/build/with_keywords: "
               "distinct input with at least one package line")
    ck.assumptions = [
        "blanks are space and tab, line endings LF or CR LF (other Unicode white space / line boundaries are outside the domain)",
        "* means the suggested keywords (or - when there are none), ^ the resolved keywords of the package line above",
        "the suggestion callback is a pure table keyed by the atom",
    ]
    if ck.replay_case:
        ev = replay(ck, real, ck.replay_case["detail"])
        ck.count()
        ck.sample(describe(ev))
        judge(ck, [ev], "Trace:replay")
        return
    # 1. the design
    # (VERIF_DEV_SKIP_MC: development shortcut while trying code mutations; the design runs do not depend on the code)
    if not os.environ.get("VERIF_DEV_SKIP_MC"):
        ck.laws("PkgList_Laws", cfg_text=f"CONSTANT N = {ck.pick(5, 7)}\n", label=f"Laws:PkgList_Laws N={ck.pick(5, 7)}", timeout=900,
                workers=1)
        ml, kw, ns = ck.pick((2, "QuickKw", 1), (2, "FullKw", 2))
        ck.mc("PkgList_MC", cfg_text=mc_cfg(ml, kw, ns), workers=ck.pick(4, 8), timeout=ck.pick(300, 2400),
              label=f"MC:PkgList_MC MaxLines={ml} {kw}")
    # 2. spec -> code
    tokfile = os.path.join(mktmp("c38"), "tokens.json")
    with open(tokfile, "w") as f:
        json.dump({k: cps(v) for k, v in TOKENS.items()}, f)
    cases = ck.export("PkgList_Export", cfg_text=f"CONSTANT Full = {'TRUE' if not ck.quick else 'FALSE'}\n", env={"TOKENS": tokfile},
                      timeout=900)
    ck.exhaustive = False
    events, seen_text, seen_line = [], set(), set()

    def add(ev, key, nontrivial):
        events.append(ev)
        ck.count()
        if nontrivial:
            ck.nontriv(key)

    for case in cases:
        if case["kind"] == "build":
            ents = [(txt(x["pkg"]), [txt(k) for k in x["kws"]]) for x in case["entries"]]
            add(real.ev_build(len(events), ents), ("build", repr(ents)), bool(ents))
            continue
        text = txt(case["text"])
        sg = [(txt(s["spec"]), [txt(k) for k in s["kws"]]) for s in case["sg"]]
        add(real.ev_expand(len(events), text, sg), ("expand", text, repr(sg)), "*" in text or "^" in text)
        if text not in seen_text:
            seen_text.add(text)
            add(real.ev_parse(len(events), text), ("parse", text), bool(text.strip()))
            for line in text.splitlines(keepends=True):
                if line not in seen_line:
                    seen_line.add(line)
                    for kws in ([], ["amd64"], ["arm64", "~x86"]):
                        add(real.ev_withkw(len(events), line, kws), ("withkw", line, tuple(kws)), bool(line.split("#")[0].strip()))
    ck.sample(describe(next(e for e in events if e["ev"] == "expand" and 42 in e["text"] and 13 in e["text"])))
    step = 4000
    for k in range(0, len(events), step):
        judge(ck, events[k:k + step], f"Trace:spec-chosen-{k // step}")
    # 3. code -> spec
    r = rng(38)
    events = []
    for _ in range(ck.pick(1200, 12000)):
        text = rnd_list(r)
        sg = rnd_sugg(r, real, text)
        add(real.ev_expand(len(events), text, sg), ("expand", text, repr(sg)), "*" in text or "^" in text)
        if r.random() < 0.5:
            add(real.ev_parse(len(events), text), ("parse", text), bool(text.strip()))
        if r.random() < 0.3:
            line = rnd_line(r) + r.choice(["", "\n", "\r\n"])
            kws = r.choice([[], ["amd64"], ["~x86", "arm64"], ["-"], ["a#b"]])
            if line:
                es = real.entries(line)
                if es and es[0].pkg is not None and r.random() < 0.3:
                    kws = list(es[0].keywords)  # same keywords: with_keywords still rewrites the keyword region
                add(real.ev_withkw(len(events), line, kws), ("withkw", line, tuple(kws)), bool(line.split("#")[0].strip()))
        if r.random() < 0.15:
            ents = [(r.choice(["=dev-libs/foo-1.2.3", "app-misc/bar", ">=sys-apps/baz-4:2", "~x11-libs/q+t-5.15", "<dev-lang/c++-11.2"]),
                     r.choice([[], ["amd64"], ["~x86", "*"], ["^"], ["-"]])) for _ in range(r.randint(0, 4))]
            add(real.ev_build(len(events), ents), ("build", repr(ents)), bool(ents))
    ck.sample(describe(next(e for e in events if e["ev"] == "expand" and not e["refused"] and e["out"] != e["text"])))
    for k in range(0, len(events), step):
        judge(ck, events[k:k + step], f"Trace:random-{k // step}")
