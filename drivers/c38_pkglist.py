"""C38 — package-list rewriting touches only the lines it must (bugzilla/pkglist.py).

MC          : PkgList_MC   — the expansion as a line-by-line rewriting machine over every list of a universe of
                             line shapes: emitted prefix = reference expansion, every emitted line passes the
                             judge's clauses, refusal exactly when the reference refuses, result parses back,
                             a second expansion is the identity.
              PkgList_Laws — render(parse(t)) = t for EVERY text up to N over {space,a,#,LF,*} and {a,space,CR,LF};
                             the judge rejects each kind of damage.
spec -> code: PkgList_Export builds lists from line fields (lead/spec/gaps/keywords/trail/comment/eol), with
              suggestion tables and build() inputs; the text is fed to the real PackageList.
code -> spec: seeded random lists (comments, blank lines, CRLF, irregular spacing, sentinels, '#' inside tokens,
              non-ASCII comments) with random suggestion tables.
Observations (entries, build().text and its entries, expand().text or PackageListError, with_keywords().raw) are
judged by PkgList_Trace: RoundTrip, Parse_LineCount, Parse_Fields, Build_Parse, Build_Text, Expand_Untouched,
Expand_Preserve, Expand_Keywords, Expand_Spacing, Expand_LineCount, Expand_Refusal, Expand_SpuriousRefusal, and
Parse_Raised / Build_Raised / Expand_Raised / WithKw_Raised when a call on an input of the domain ends in any other exception.

Blanks are every character str.split() treats as white space inside a line (tab, space, US, NBSP, U+1680, U+2000-200A, U+202F,
U+205F, U+3000).  Carve-outs: line boundaries other than LF / CR LF (VT, FF, FS, GS, RS, NEL, U+2028/9) are outside the generated
domain (TextInDomain); the separator written between NEW keywords is not judged;
when a line ends up without keywords only lead/spec/comment/eol are judged.
"""
import json
import os

from pylib import tlc
from pylib.common import mktmp, rng, use_repo

TOKENS = dict(p1="dev-libs/foo-1.2.3", p2="=app-misc/bar-2_p1-r3", b1="=dev-libs/foo-1.2.3", b2="app-misc/bar",
              b3=">=sys-apps/baz-4:2", k1="amd64", k2="~x86", k3="arm64")


def cps(s):
    return [ord(c) for c in s]


def txt(c):
    return "".join(chr(x) for x in c)


class Real:
    """Calls the real code.  An exception of the code under test is an observation (`raised`), judged by the trace spec."""

    def __init__(self):
        from pkgcore.bugzilla import pkglist
        from pkgcore.bugzilla.errors import PackageListError

        self.m, self.Err = pkglist, PackageListError

    def entries(self, text):
        return self.m.PackageList(text).entries

    def ev_parse(self, tid, text):
        ev = dict(tid=tid, i=0, ev="parse", text=cps(text), entries=[], raised="")
        try:
            ev["entries"] = [dict(raw=cps(x.raw), eol=cps(x.eol), blank=bool(x.is_blank), kws=[cps(k) for k in x.keywords])
                             for x in self.entries(text)]
        except Exception as e:
            ev["raised"] = type(e).__name__
        return ev

    def ev_build(self, tid, entries):
        """entries: [(str(atom), [kw..])]"""
        from pkgcore.ebuild.atom import atom

        atoms = [(atom(p), k) for p, k in entries]
        ev = dict(tid=tid, i=0, ev="build", entries=[dict(pkg=cps(str(a)), kws=[cps(x) for x in k]) for a, k in atoms],
                  text=[], parsed=[], raised="")
        try:
            built = self.m.PackageList.build(atoms)
            ev["text"] = cps(built.text)
            ev["parsed"] = [dict(pkg=cps(str(x.pkg)), kws=[cps(k) for k in x.keywords]) for x in self.entries(built.text) if x.pkg is not None]
        except Exception as e:
            ev["raised"] = type(e).__name__
        return ev

    def ev_expand(self, tid, text, sg):
        """sg: [(spec token as written, [kw..])]"""
        ev = dict(tid=tid, i=0, ev="expand", text=cps(text), sg=[dict(spec=cps(s), kws=[cps(k) for k in ks]) for s, ks in sg],
                  refused=False, out=[], raised="")
        try:
            table = {str(self.m.parse_atom(spec)): list(kws) for spec, kws in sg}
            pl = self.m.PackageList(text)
            pl.entries  # a list that does not parse is not a refusal of expand()
            try:
                ev["out"] = cps(pl.expand(lambda pkg: table.get(str(pkg), ())).text)
            except self.Err:
                ev["refused"] = True
        except Exception as e:
            ev["raised"] = type(e).__name__
        return ev

    def ev_withkw(self, tid, line, kws):
        ev = dict(tid=tid, i=0, ev="withkw", text=cps(line), kws=[cps(k) for k in kws], out=[], raised="")
        try:
            es = self.entries(line)
            ev["out"] = cps("" if not es else es[0].with_keywords(kws).raw + es[0].eol)
        except Exception as e:
            ev["raised"] = type(e).__name__
        return ev


# ---------------------------------------------------------------- random lists
# spelling -> the atom it names (two spellings of one atom share their suggestion)
SPECS = {"dev-libs/foo-1.2.3": "foo", "=dev-libs/foo-1.2.3": "foo", "app-misc/bar": "bar", "=app-misc/bar-2_p1-r3": "bar2",
         ">=sys-apps/baz-4": "baz>=", "sys-apps/baz:2": "baz:2", "~x11-libs/q+t-5.15": "qt", "dev-lang/c++-11.2": "c++"}
KWS = ["amd64", "~x86", "arm64", "*", "^", "-", "~*", "ppc#64", "amd64-linux", "*"]
# every character str.split() treats as white space inside a line: tab, US, space, NBSP, OGHAM SPACE MARK, EN QUAD .. HAIR SPACE,
# NARROW NBSP, MEDIUM MATHEMATICAL SPACE, IDEOGRAPHIC SPACE (the line boundaries VT FF FS GS RS NEL LS PS are outside the domain)
UNI_BLANKS = ["\t", "\x1f", " ", "\xa0", "\u1680"] + [chr(c) for c in range(0x2000, 0x200B)] + ["\u202f", "\u205f", "\u3000"]
assert all(c.isspace() and len((c + "x").splitlines()) == 1 for c in UNI_BLANKS)
COMMENTS = ["#", "# why", "#no-space", "# é ü #x", "## a  b ", "#\xa0nbsp\u3000"]


def rnd_blank(r, plain):
    """A non-empty run of blanks; `plain`: only space / tab (most lists), else any Unicode blank."""
    if plain:
        return r.choice([" ", "  ", "\t", " \t ", "   "])
    return "".join(r.choice(UNI_BLANKS) for _ in range(r.choice([1, 1, 1, 2, 3])))


def rnd_line(r, plain=True):
    """-> (text, spec spelling or None, keywords as written)"""
    x = r.random()
    if x < 0.12:
        return r.choice(["", rnd_blank(r, plain), rnd_blank(r, plain)]), None, []
    if x < 0.25:
        return r.choice(["", rnd_blank(r, plain)]) + r.choice(COMMENTS), None, []
    lead = r.choice(["", "", "", rnd_blank(r, plain)])
    spec = r.choice(list(SPECS))
    kws = [r.choice(KWS) for _ in range(r.choice([0, 1, 1, 1, 2, 2, 3]))]
    body = lead + spec
    for k in kws:
        body += rnd_blank(r, plain) + k
    y = r.random()
    if y < 0.3:
        body += rnd_blank(r, plain) + r.choice(COMMENTS)
    elif y < 0.5:
        body += rnd_blank(r, plain)
    return body, spec, kws


def rnd_list(r):
    """-> (text, spec spellings used)"""
    n = r.choice([0, 1, 1, 2, 2, 3, 4, 6])
    mode = r.choice(["lf", "lf", "crlf", "mixed"])
    plain = r.random() < 0.5
    out, specs = "", []
    for i in range(n):
        line, spec, _ = rnd_line(r, plain)
        eol = {"lf": "\n", "crlf": "\r\n", "mixed": r.choice(["\n", "\r\n"])}[mode]
        if i == n - 1 and r.random() < 0.4 and line:
            eol = ""
        out += line + eol
        if spec and spec not in specs:
            specs.append(spec)
    return out, specs


def rnd_sugg(r, specs):
    """One suggestion per distinct atom, listed under every spelling used in the text."""
    by_atom = {}
    for s in specs:
        by_atom.setdefault(SPECS[s], r.choice([[], [], ["amd64"], ["amd64", "~x86"], ["arm64", "amd64", "ppc64"], ["~arm"]]))
    return [(s, by_atom[SPECS[s]]) for s in specs]


# ---------------------------------------------------------------- run
def mc_cfg(maxlines, kw, nsugg):
    return (f"SPECIFICATION Spec\nCONSTANTS\n MaxLines = {maxlines}\n KwSeqs <- {kw}\n NSugg = {nsugg}\n"
            "INVARIANT InvShapes\nINVARIANT InvParse\nINVARIANT InvPrefix\nINVARIANT InvEmitted\nINVARIANT InvRefusal\nINVARIANT InvDone\n")


def describe(e):
    d = dict(ev=e["ev"], raised=e.get("raised", ""))
    if "text" in e:
        d["text"] = txt(e["text"])
    if e["ev"] == "expand":
        d["suggest"] = [[txt(s["spec"]), [txt(k) for k in s["kws"]]] for s in e["sg"]]
        d["refused"] = e["refused"]
        d["out"] = txt(e["out"])
    elif e["ev"] == "withkw":
        d["keywords"] = [txt(k) for k in e["kws"]]
        d["out"] = txt(e["out"])
    elif e["ev"] == "build":
        d["entries"] = [[txt(x["pkg"]), [txt(k) for k in x["kws"]]] for x in e["entries"]]
        d["parsed"] = [[txt(x["pkg"]), [txt(k) for k in x["kws"]]] for x in e["parsed"]]
    return d


def judge(ck, events, label):
    if not events:
        return
    verdicts = ck.trace("PkgList_Trace", events, label=label, timeout=1500)
    by = {e["tid"]: e for e in events}
    for v in verdicts:
        e = by[v["tid"]]
        if v["clause"] in ("OutsideDomain", "UnknownEvent"):
            raise tlc.MachineryError(f"generator left the property's domain: {describe(e)}")
        ck.violation(v["clause"], describe(e))


def replay(ck, real, d):
    if d["ev"] == "parse":
        return real.ev_parse(0, d["text"])
    if d["ev"] == "build":
        return real.ev_build(0, [(p, k) for p, k in d["entries"]])
    if d["ev"] == "expand":
        return real.ev_expand(0, d["text"], [(s, k) for s, k in d["suggest"]])
    return real.ev_withkw(0, d["text"], d["keywords"])


def run(ck):
    use_repo()
    real = Real()
    ck.rule = ("expand: distinct (text, suggestions) in which at least one line holds a * or ^ sentinel; parse/build/with_keywords: "
               "distinct input with at least one package line")
    ck.assumptions = [
        "blanks are every in-line Unicode white space str.split() honours; line endings LF or CR LF (other line boundaries are outside the domain)",
        "* means the suggested keywords (or - when there are none), ^ the resolved keywords of the package line above",
        "the suggestion callback is a pure table keyed by the atom",
    ]
    if ck.replay_case:
        ev = replay(ck, real, ck.replay_case["detail"])
        ck.count()
        ck.sample(describe(ev))
        judge(ck, [ev], "Trace:replay")
        return
    # 1. the design
    # (VERIF_DEV_SKIP_MC: development shortcut while trying code mutations; the design runs do not depend on the code)
    if not os.environ.get("VERIF_DEV_SKIP_MC"):
        ck.laws("PkgList_Laws", cfg_text=f"CONSTANT N = {ck.pick(5, 6)}\n", label=f"Laws:PkgList_Laws N={ck.pick(5, 6)}", timeout=900,
                workers=1)
        ml, kw, ns = ck.pick((2, "QuickKw", 1), (2, "FullKw", 2))
        ck.mc("PkgList_MC", cfg_text=mc_cfg(ml, kw, ns), workers=ck.pick(4, 8), timeout=ck.pick(300, 2400),
              label=f"MC:PkgList_MC MaxLines={ml} {kw}")
    # 2. spec -> code
    tokfile = os.path.join(mktmp("c38"), "tokens.json")
    with open(tokfile, "w") as f:
        json.dump({k: cps(v) for k, v in TOKENS.items()}, f)
    cases = ck.export("PkgList_Export", cfg_text=f"CONSTANT Full = {'TRUE' if not ck.quick else 'FALSE'}\n", env={"TOKENS": tokfile},
                      timeout=900)
    ck.exhaustive = False
    events, seen_text, seen_line = [], set(), set()

    def add(ev, key, nontrivial):
        events.append(ev)
        ck.count()
        if nontrivial:
            ck.nontriv(key)

    for case in cases:
        if case["kind"] == "build":
            ents = [(txt(x["pkg"]), [txt(k) for k in x["kws"]]) for x in case["entries"]]
            add(real.ev_build(len(events), ents), ("build", repr(ents)), bool(ents))
            continue
        text = txt(case["text"])
        sg = [(txt(s["spec"]), [txt(k) for k in s["kws"]]) for s in case["sg"]]
        add(real.ev_expand(len(events), text, sg), ("expand", text, repr(sg)), "*" in text or "^" in text)
        if text not in seen_text:
            seen_text.add(text)
            add(real.ev_parse(len(events), text), ("parse", text), bool(text.strip()))
            for line in text.splitlines(keepends=True):
                if line not in seen_line:
                    seen_line.add(line)
                    for kws in ([], ["amd64"], ["arm64", "~x86"]):
                        add(real.ev_withkw(len(events), line, kws), ("withkw", line, tuple(kws)), bool(line.split("#")[0].strip()))
    exps = [e for e in events if e["ev"] == "expand"]  # evidence samples only: never a reason to fail
    ck.sample(describe(next((e for e in exps if 42 in e["text"] and 13 in e["text"]), exps[0])))
    step = 4000
    for k in range(0, len(events), step):
        judge(ck, events[k:k + step], f"Trace:spec-chosen-{k // step}")
    # 3. code -> spec
    r = rng(38)
    events = []
    for _ in range(ck.pick(1200, 12000)):
        text, specs = rnd_list(r)
        sg = rnd_sugg(r, specs)
        add(real.ev_expand(len(events), text, sg), ("expand", text, repr(sg)), "*" in text or "^" in text)
        if r.random() < 0.5:
            add(real.ev_parse(len(events), text), ("parse", text), bool(text.strip()))
        if r.random() < 0.3:
            body, spec, own = rnd_line(r, r.random() < 0.5)
            line = body + r.choice(["", "\n", "\r\n"])
            kws = r.choice([[], ["amd64"], ["~x86", "arm64"], ["-"], ["a#b"]])
            if line:
                if spec and r.random() < 0.3:
                    kws = list(own)  # same keywords: with_keywords still rewrites the keyword region
                add(real.ev_withkw(len(events), line, kws), ("withkw", line, tuple(kws)), bool(line.split("#")[0].strip()))
        if r.random() < 0.15:
            ents = [(r.choice(["=dev-libs/foo-1.2.3", "app-misc/bar", ">=sys-apps/baz-4:2", "~x11-libs/q+t-5.15", "<dev-lang/c++-11.2"]),
                     r.choice([[], ["amd64"], ["~x86", "*"], ["^"], ["-"]])) for _ in range(r.randint(0, 4))]
            add(real.ev_build(len(events), ents), ("build", repr(ents)), bool(ents))
    exps = [e for e in events if e["ev"] == "expand"]
    ck.sample(describe(next((e for e in exps if not e["refused"] and e["out"] != e["text"]), exps[0])))
    for k in range(0, len(events), step):
        judge(ck, events[k:k + step], f"Trace:random-{k // step}")
