"""C10 — REQUIRED_USE solving is sound, complete and preference-first
(restrictions/required_use.py find_constraint_satisfaction; snakeoil.constraints.Problem underneath).

MC          : RequiredUse_MC — for every constraint up to N nodes and every (iuse, forced-on, forced-off,
              preferred) in the domain, a preference-first backtracking enumeration with free variable order
              and optional pruning is sound, complete, duplicate-free and emits the preferred assignment
              first whenever it satisfies the constraint.
spec -> code: RequiredUse_Export enumerates every constraint (<= N nodes over 2 flags) x every configuration;
              the text is parsed by the real REQUIRED_USE parser and solved by the real solver.
code -> spec: seeded random trees (||, ^^, ??, conditionals, negations, nested) over up to 5 flags, every
              IUSE subset, random forced / preferred sets.
Calls are made the way a caller checks one package against several configurations: the restriction and the
IUSE set object are created once per (constraint, IUSE) and reused by the consecutive calls.  Every call is
judged by RequiredUse_Trace against the brute-force solution set computed in TLA+ for the inputs the caller put
in (clause ArgsUnchanged: the call left its argument objects as they were); the constraint judged is the
projection of the restriction object the solver received.

Carve-outs: an assignment on which the PMS reading (a disabled conditional inside an any-of/^^/?? group is no
member of it - what evaluate_depset+match implements) and the classical reading (implication - what the solver
compiles) disagree is unspecified: it may or may not be produced.  Domain: forced-on and forced-off are
disjoint; they may reach outside IUSE (profile use.force), where "outside IUSE is off" wins - the documented
contract of the iuse parameter ("Any USE flag encountered not in this set, will be forced to a False value").
The export also holds a nesting family over 3 flags: a (negated) conditional as a member of a group of every
kind, at depth 1 and 2, x every IUSE subset x one forced flag inside / outside IUSE.
"""
from pylib import tlc
from pylib.common import rng, use_repo

from drivers.c09_depset import Api, subsets, word


class Caller:
    """A caller that checks one package (constraint + IUSE) against several configurations: the parsed
    restriction and the IUSE set OBJECT are created once and handed to every consecutive call, the forced /
    preferred sets are fresh mutable sets per call.  Every call is recorded with the inputs the caller put in
    and with the contents of the argument objects after the call."""

    def __init__(self, api, solver):
        self.api, self.solver, self.key = api, solver, None

    def solve(self, tid, text, iuse, ft, ff, pt):
        key = (text, tuple(sorted(iuse)))
        if key != self.key:
            self.key = key
            self.restricts = self.api.parsers["required_use"](text)
            self.cons = self.api.nodes(self.restricts)
            self.iuse_obj = set(iuse)
        a_ft, a_ff, a_pt = set(ft), set(ff), set(pt)
        sols = []
        for s in self.solver(self.restricts, self.iuse_obj, force_true=a_ft, force_false=a_ff, prefer_true=a_pt):
            sols.append(sorted(k for k, v in s.items() if v))
            if len(sols) > 200:
                raise tlc.MachineryError(f"solver does not stop: {text!r}")
        after = dict(iuse=sorted(self.iuse_obj), ft=sorted(a_ft), ff=sorted(a_ff), pt=sorted(a_pt))
        return dict(tid=tid, i=0, cons=self.cons, iuse=sorted(iuse), ft=sorted(ft), ff=sorted(ff), pt=sorted(pt), sols=sols,
                    after=after, text=text)


def judge(ck, events, label):
    by = {e["tid"]: e for e in events}
    for lo in range(0, len(events), 15000):
        chunk = [{k: v for k, v in e.items() if k != "text"} for e in events[lo:lo + 15000]]
        for v in ck.trace("RequiredUse_Trace", chunk, label=f"{label}[{lo}:]", timeout=1700):
            e = by[v["tid"]]
            if v["clause"] == "OutsideDomain":
                raise tlc.MachineryError(f"generator left the property's domain: {e}")
            earlier = []
            t = e["tid"] - 1
            while t in by and by[t]["text"] == e["text"] and by[t]["iuse"] == e["iuse"] and len(earlier) < 8:
                earlier.insert(0, dict(force_true=by[t]["ft"], force_false=by[t]["ff"], prefer_true=by[t]["pt"]))
                t -= 1
            ck.violation(v["clause"], dict(required_use=e["text"], iuse=e["iuse"], force_true=e["ft"], force_false=e["ff"],
                                           prefer_true=e["pt"], assignment=v["extra"][0] if v["extra"] else [],
                                           produced=e["sols"][:12], args_after=e["after"], earlier_calls=earlier))


FLAGS = ["a", "b", "c", "d", "e"]


def gen(r_, flags, depth):
    out = []
    for _ in range(r_.randint(1, 3)):
        x = r_.random()
        if depth <= 0 or x < 0.4:
            out.append(("!" if r_.random() < 0.35 else "") + r_.choice(flags))
        elif x < 0.6:
            out += [("!" if r_.random() < 0.35 else "") + r_.choice(flags) + "?", "("] + gen(r_, flags, depth - 1) + [")"]
        else:
            op = r_.choice(["||", "^^", "??", ""])
            out += ([op] if op else []) + ["("] + gen(r_, flags, depth - 1) + [")"]
    return out


def run(ck):
    use_repo()
    api = Api()
    from pkgcore.restrictions.required_use import find_constraint_satisfaction as solver

    ck.rule = ("calls of find_constraint_satisfaction: every constraint up to N nodes x every configuration (TLC export) and "
               "random nested trees over up to 5 flags x every IUSE subset with random forced/preferred sets; non-trivial = "
               "distinct (constraint, iuse, forced, preferred) whose constraint has a group or conditional and whose "
               "candidate space has at least 2 assignments")
    ck.assumptions = [
        "force_true and force_false are disjoint (domain of the property); a forced-on flag outside IUSE stays off "
        "(documented contract of the iuse parameter)",
        "an assignment is identified with the set of flags mapped to True",
        "assignments on which the PMS and the classical reading of a conditional inside ||/^^/?? differ are not judged",
    ]
    if ck.replay_case:
        d = ck.replay_case["detail"]
        caller = Caller(api, solver)
        evs = [caller.solve(n, d["required_use"], d["iuse"], c["force_true"], c["force_false"], c["prefer_true"])
               for n, c in enumerate(d.get("earlier_calls", []) + [d])]
        judge(ck, evs, "Trace:replay")
        ck.count()
        ck.nontriv("replay")
        ck.nontriv("replay2")
        ck.sample(d)
        return
    # 1. the design
    nm = ck.pick(2, 3)
    cfg = (f"SPECIFICATION Spec\nCONSTANTS\n  FlagSet = {{\"a\", \"b\"}}\n  MaxNodes = {nm}\n"
           "INVARIANT InvSound\nINVARIANT InvOnce\nINVARIANT InvComplete\nINVARIANT InvPreferred\nINVARIANT InvSpecified\n")
    ck.mc("RequiredUse_MC", cfg_text=cfg, workers=ck.pick(2, 8), timeout=ck.pick(200, 2400), label=f"MC:RequiredUse_MC MaxNodes={nm}")
    ck.exhaustive = True
    # 2. spec -> code
    ne = ck.pick(2, 3)
    cases = ck.export("RequiredUse_Export", cfg_text=f"CONSTANTS\n  FlagSet = {{\"a\", \"b\"}}\n  MaxNodes = {ne}\n", timeout=900,
                      label=f"Export:RequiredUse_Export MaxNodes={ne}")
    events = []
    caller = Caller(api, solver)
    for c in cases:
        c["text"] = " ".join(word(t) for t in c["toks"])
    # consecutive calls for the same (constraint, IUSE) reuse the caller's objects
    cases.sort(key=lambda c: (c["text"], c["iuse"], c["ft"], c["ff"], c["pt"]))
    for tid, c in enumerate(cases):
        text = c["text"]
        ev = caller.solve(tid, text, c["iuse"], c["ft"], c["ff"], c["pt"])
        events.append(ev)
        ck.count()
        if "(" in text and len(c["iuse"]) - len(set(c["ft"]) | (set(c["ff"]) & set(c["iuse"]))) >= 1:
            ck.nontriv(("gen", text, tuple(c["iuse"]), tuple(c["ft"]), tuple(c["ff"]), tuple(c["pt"])))
    ck.sample(dict(direction="spec->code", **{k: events[len(events) // 2][k] for k in ("text", "iuse", "ft", "ff", "pt", "sols")}))
    judge(ck, events, "Trace:exported")
    # 3. code -> spec
    r_ = rng(10)
    events = []
    base = len(cases)
    for n in range(ck.pick(40, 500)):
        flags = FLAGS[: r_.randint(2, 5)]
        text = " ".join(gen(r_, flags, r_.randint(1, 3)))
        if len(text.split()) > 36:
            continue
        for iuse in [u for u in subsets(flags) for _ in range(2)]:  # two configurations per (constraint, IUSE)
            rest = list(iuse)
            r_.shuffle(rest)
            nft = r_.randint(0, min(2, len(rest)))
            ft = rest[:nft]
            outside = [f for f in flags if f not in iuse]
            if outside and r_.random() < 0.4:  # profile-style use.force of a flag the package does not have
                ft = ft + [r_.choice(outside)]
            ff = [f for f in flags if f not in ft and r_.random() < 0.25]
            pt = [f for f in flags if r_.random() < 0.4]
            ev = caller.solve(base + len(events), text, iuse, ft, ff, pt)
            events.append(ev)
            ck.count()
            if "(" in text and len(set(iuse) - set(ft) - set(ff)) >= 1:
                ck.nontriv(("rnd", text, tuple(iuse), tuple(ft), tuple(ff), tuple(pt)))
        if n == 3:
            ck.sample(dict(direction="code->spec", **{k: ev[k] for k in ("text", "iuse", "ft", "ff", "pt", "sols")}))
    judge(ck, events, "Trace:random")
