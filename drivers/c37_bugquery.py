"""C37 — Bugzilla searches keep their meaning when rendered, combined with & and batched (bugzilla/query.py).

MC          : BugQuery_MC     — searches built step by step with & / any_of over a small operand universe:
                                rendering well formed, read back exactly by the reference chart evaluator,
                                matched bugs = conjunction/disjunction of the parts (truth tables).
              BugQuery_BatchMC — the in-order greedy split over every cost sequence x budget.
              BugQuery_Laws   — normal form sound, read-back, any_of = OR of conjunctions, the batch judge
                                accepts the reference split and rejects broken ones.
spec -> code: BugQuery_Export enumerates search expressions (named constructors, any_of nested two deep,
              & chains up to three in both associations, paging) and batching cases (axis, value sizes,
              riders, slack); each is built with the real constructors / any_of / & / paged and
              params() / batches() are recorded.
code -> spec: seeded random expressions (deeper nesting, raw Criterion/ChartGroup with negation and AND/AND_G
              joins, awkward characters) and long id / package lists with random budgets.
Every observation is judged by BugQuery_Trace: UniqueSlot, SlotShape, Balanced, Meaning_simple,
Meaning_charts (normal forms equal), Semantics (truth table over the mentioned <<field, word>> pairs),
Paging, AnyOf_SimpleDropped / SpuriousRefusal, Render_Raised / Batch_Raised (any other exception), Batch_Stable (a batch
renders the same when it is yielded and after all batches were collected; both renderings are judged), Batch_Partition / _NonEmpty / _OthersUnchanged / _Budget /
_NoAxisIdentity.

Carve-outs (not judged, never generated): any_of() without members or with a member that has no chart
condition (a chart group cannot say "always true"); constructors called without values (the key is then
simply absent); paged() with limit <= 0 / offset < 0 (refused by design); & of two searches naming the same
plain key is the UNION of the values (pinned by tests/bugzilla/test_query.py).
"""
import os
import re
import urllib.parse

from pylib import tlc
from pylib.common import rng, use_repo

_CHART = re.compile(r"^([fovnj])(\d+)$")


# ---------------------------------------------------------------- expressions
def ector(name, args=()):
    return dict(e="ctor", name=name, args=[str(a) for a in args], subs=[], limit=0, offset=0)


def eand(a, b):
    return dict(e="and", name="", args=[], subs=[a, b], limit=0, offset=0)


def eanyof(subs):
    return dict(e="anyof", name="", args=[], subs=list(subs), limit=0, offset=0)


def epaged(a, limit, offset):
    return dict(e="paged", name="", args=[], subs=[a], limit=limit, offset=offset)


def eraw(charts, simple=(), limit=-1, offset=-1, order=""):
    q = dict(simple=[dict(key=k, vals=list(v)) for k, v in simple], charts=list(charts), limit=limit, offset=offset,
             order=order)
    return dict(e="raw", name="", args=[], subs=[], limit=0, offset=0, q=q)


def crit(field, op, vals, neg=False, split=False):
    return dict(t="crit", field=field, op=op, vals=list(vals), neg=neg, split=split, join="", kids=[])


def group(join, kids):
    return dict(t="group", field="", op="", vals=[], neg=False, split=False, join=join, kids=list(kids))


def show(e):
    if e["e"] == "ctor":
        return f"{e['name']}({', '.join(e['args'])})"
    if e["e"] == "and":
        return "(" + " & ".join(show(s) for s in e["subs"]) + ")"
    if e["e"] == "anyof":
        return "any_of(" + ", ".join(show(s) for s in e["subs"]) + ")"
    if e["e"] == "paged":
        return f"{show(e['subs'][0])}.paged({e['limit']}, {e['offset']})"
    return "raw(" + repr(e["q"]) + ")"


class Real:
    """Builds the real objects an expression denotes."""

    def __init__(self):
        from pkgcore.bugzilla import query as Q
        from pkgcore.bugzilla.enums import BugCategory, ChartOp, Join
        from pkgcore.bugzilla.errors import BugzillaUsageError

        self.Q, self.BugCategory, self.ChartOp, self.Join, self.Refused = Q, BugCategory, ChartOp, Join, BugzillaUsageError

    def chart(self, c):
        if c["t"] == "crit":
            return self.Q.Criterion(c["field"], self.ChartOp(c["op"]), tuple(c["vals"]), negate=c["neg"], splittable=c["split"])
        return self.Q.ChartGroup(self.Join(c["join"]), tuple(self.chart(k) for k in c["kids"]))

    def build(self, e):
        BQ = self.Q.BugQuery
        k = e["e"]
        if k == "ctor":
            n, a = e["name"], e["args"]
            if n == "ids":
                return BQ.ids([int(x) for x in a])
            if n == "category":
                return BQ.category(*[self.BugCategory(x) for x in a])
            if n == "package_list_any":
                return BQ.package_list_any(list(a))
            if n == "unresolved":
                return BQ.unresolved()
            if n == "flag":
                return BQ.flag(a[0], *a[1:])
            return getattr(BQ, n)(*a)
        if k == "raw":
            q = e["q"]
            return BQ(simple=tuple((s["key"], tuple(s["vals"])) for s in q["simple"]),
                      charts=tuple(self.chart(c) for c in q["charts"]),
                      limit=None if q["limit"] < 0 else q["limit"], offset=None if q["offset"] < 0 else q["offset"],
                      order=q["order"] or None)
        if k == "and":
            return self.build(e["subs"][0]) & self.build(e["subs"][1])
        if k == "anyof":
            return BQ.any_of(*[self.build(s) for s in e["subs"]])
        if k == "paged":
            return self.build(e["subs"][0]).paged(e["limit"], e["offset"])
        raise ValueError(k)


def project(params):
    """(name, value) pairs of the real rendering -> split parameter records (no judgement)."""
    out = []
    for name, value in params:
        ln = len(urllib.parse.urlencode(((name, value),)))
        m = _CHART.match(name)
        if m:
            out.append(dict(k=m.group(1), n=int(m.group(2)), key="", v=value, iv=0, len=ln))
        elif name in ("limit", "offset"):
            out.append(dict(k=name, n=0, key="", v="", iv=int(value), len=ln))
        elif name == "order":
            out.append(dict(k="order", n=0, key="", v=value, iv=0, len=ln))
        else:
            out.append(dict(k="s", n=0, key=name, v=value, iv=0, len=ln))
    return out


def observe_render(real, tid, expr):
    ev = dict(tid=tid, i=0, ev="render", expr=expr, refused=False, raised="", ps=[])
    try:
        ev["ps"] = project(real.build(expr).params())
    except real.Refused:
        ev["refused"] = True
    except Exception as e:  # the code under test failed: an observation (judged by the trace spec), never a driver crash
        ev["raised"] = type(e).__name__
    return ev


def observe_batch(real, tid, expr, base, mx):
    """bs: every batch rendered the moment it is yielded (one at a time, as the client consumes them);
    bs2: the same batch objects rendered once the generator is exhausted (list(q.batches()) and then use)."""
    ev = dict(tid=tid, i=0, ev="batch", expr=expr, base=base, max=mx, raised="", ps=[], bs=[], bs2=[])
    try:
        q = real.build(expr)
        ev["ps"] = project(q.params())
        kept = []
        for b in q.batches(base_length=base, max_length=mx):  # a generator: keep what came out before a failure
            ev["bs"].append(project(b.params()))
            kept.append(b)
        ev["bs2"] = [project(b.params()) for b in kept]
    except Exception as e:  # the code under test failed: an observation (judged by the trace spec), never a driver crash
        ev["raised"] = type(e).__name__
    return ev


# ---------------------------------------------------------------- spec-chosen batching cases
def batch_case_expr(case):
    """Render a batching case chosen by BugQuery_Export into an expression + (base, max)."""
    sizes, axis, ride = case["sizes"], case["axis"], case["ride"]

    def main(sz):
        if axis == "id":
            return ector("ids", [10 ** (d - 1) + i for i, d in enumerate(sz)])
        return ector("package_list_any", [f"c/p{i}-{'1' * d}" for i, d in enumerate(sz)])

    def wrap(m):
        e = m
        if ride >= 1:
            e = eand(e, ector("unresolved"))
        if ride >= 2:
            other = ector("package_list_any", ["c/x-1"]) if axis == "id" else ector("ids", [1, 2])
            e = eand(eand(ector("keywords", ["K"]), e), other)
        return e

    return wrap(main(sizes)), wrap(main([]))


def spec_batch_event(real, tid, case):
    expr, hollow = batch_case_expr(case)
    base = 17
    try:
        l0 = len(urllib.parse.urlencode(real.build(hollow).params()))
    except Exception:  # judged on the observation below
        l0 = 0
    slack = case["slack"] * (1 if case["axis"] == "id" else 3)
    return observe_batch(real, tid, expr, base, base + l0 + slack)


# ---------------------------------------------------------------- random expressions
WORDS = ["a", "b c", "x+y", "k:v", "é", "1", "%41", "a&b=c"]
CFIELDS = ["keywords", "tag", "flagtypes.name"]
OPS = ["anywords", "allwords", "nowordssubstr", "nowords", "equals", "notequals", "anyexact", "substring"]


def rnd_vals(r, pool, lo=1, hi=2):
    return r.sample(pool, r.randint(lo, min(hi, len(pool))))


def rnd_chart(r, words, depth):
    if depth == 0 or r.random() < 0.55:
        return crit(r.choice(CFIELDS[:2]), r.choice(OPS), rnd_vals(r, words), neg=r.random() < 0.3)
    return group(r.choice(["AND", "OR", "OR", "AND_G"]), [rnd_chart(r, words, depth - 1) for _ in range(r.randint(1, 3))])


def rnd_chart_expr(r, words, depth):
    """A chart-only expression."""
    x = r.random()
    if depth == 0 or x < 0.35:
        y = r.random()
        if y < 0.3:
            return ector("keywords", rnd_vals(r, words))
        if y < 0.5:
            return ector("flag", [r.choice(["sanity-check", "f"])] + rnd_vals(r, ["+", "-", "?"]))
        if y < 0.7:
            return ector("without_tags", rnd_vals(r, words))
        if y < 0.8:
            return ector("package_list_any", rnd_vals(r, ["c/p-1", "c/q-2_p1", "d/r-3"], 1, 3))
        return eraw([rnd_chart(r, words, 2)])
    if x < 0.7:
        return eanyof([rnd_chart_expr(r, words, depth - 1) for _ in range(r.randint(1, 3))])
    return eand(rnd_chart_expr(r, words, depth - 1), rnd_chart_expr(r, words, depth - 1))


def rnd_simple_expr(r, words):
    y = r.random()
    if y < 0.25:
        return ector("ids", rnd_vals(r, [3, 14, 159, 2653], 1, 3))
    if y < 0.4:
        return ector("unresolved")
    if y < 0.55:
        return ector("component", rnd_vals(r, ["Keywording", "Stabilization", "Current packages"]))
    if y < 0.65:
        return ector("category", rnd_vals(r, ["Keywording", "Stabilization"]))
    name = r.choice(["product", "resolution", "status", "cc", "assigned_to"])
    return ector(name, rnd_vals(r, words))


def rnd_expr(r, depth):
    words = r.sample(WORDS, 2)
    x = r.random()
    if depth == 0:
        return rnd_simple_expr(r, words) if x < 0.4 else rnd_chart_expr(r, words, 0)
    if x < 0.15:
        return rnd_simple_expr(r, words)
    if x < 0.45:
        return rnd_chart_expr(r, words, depth)
    if x < 0.9:
        return eand(rnd_expr(r, depth - 1), rnd_expr(r, depth - 1))
    if x < 0.95:
        bad = [rnd_simple_expr(r, words), rnd_chart_expr(r, words, 1)]
        r.shuffle(bad)
        return eanyof(bad)  # must be refused
    return epaged(rnd_expr(r, depth - 1), r.randint(1, 500), r.choice([0, 0, 25, 1000]))


def rnd_batch(r, big):
    """Long id / package lists, random riders and budgets."""
    n = r.choice([0, 1, 2, 5, 17, 60, big])
    if r.random() < 0.5:
        start = r.choice([1, 95, 9990, 900000])
        main = ector("ids", [start + 7 * i for i in range(n)])
    else:
        main = ector("package_list_any", [f"=dev-{r.choice(['libs', 'python', 'c++'])}/{'p' * r.randint(1, 30)}{i}-{r.randint(0, 99)}"
                                          f"{r.choice(['', '_p2024', '-r3', ':0', '[é]'])}" for i in range(n)])
    e = main
    for _ in range(r.randint(0, 3)):
        words = r.sample(WORDS, 2)
        rider = r.choice([rnd_simple_expr(r, words), rnd_chart_expr(r, words, 1),
                          ector("package_list_any", rnd_vals(r, ["c/p-1", "c/q-2"], 1, 2)), ector("ids", [5, 6])])
        e = eand(e, rider) if r.random() < 0.6 else eand(rider, e)
    if r.random() < 0.2:
        e = epaged(e, r.randint(1, 100), r.choice([0, 10]))
    base = r.choice([0, 0, 40, 130])
    mx = r.choice([60, 120, 250, 500, 1000, 6000])
    return e, base, base + mx


def count_conditions(e):
    if e["e"] == "ctor":
        return 1
    if e["e"] == "raw":
        def cc(c):
            return 1 if c["t"] == "crit" else sum(cc(k) for k in c["kids"])
        return sum(cc(c) for c in e["q"]["charts"]) + len(e["q"]["simple"])
    return sum(count_conditions(s) for s in e["subs"])


# ---------------------------------------------------------------- run
def mc_cfg(maxops):
    return ("SPECIFICATION Spec\nCONSTANTS\n"
            f' MaxOps = {maxops}\n Words = {{"a","b"}}\n SKeys = {{"product"}}\n CFields = {{"keywords","tag"}}\n'
            "INVARIANT InvWellFormed\nINVARIANT InvRoundTrip\nINVARIANT InvMeaning\nINVARIANT InvNorm\n")


def batch_cfg(maxvals):
    return ("SPECIFICATION Spec\nCONSTANTS\n"
            f" MaxVals = {maxvals}\n MaxCost = 4\n MinBudget = 3\n MaxBudget = 12\n"
            "INVARIANT InvUsed\nINVARIANT InvOpen\nINVARIANT InvPrefix\nINVARIANT InvPartition\nINVARIANT InvNonEmpty\n"
            "INVARIANT InvBudget\nINVARIANT InvIsGreedy\n")


def judge(ck, events, label, semmax):
    if not events:
        return
    # FlattenSeq / the slot walk recurse once per batch / slot: long lists need a deeper Java stack
    verdicts = ck.trace("BugQuery_Trace", events, label=label, cfg_text=f"SPECIFICATION TraceSpec\nCONSTANT SemMax = {semmax}\n",
                        timeout=2400, env={"JAVA_TOOL_OPTIONS": "-Xss512m"})
    by = {e["tid"]: e for e in events}
    for v in verdicts:
        e = by[v["tid"]]
        if v["clause"] in ("OutsideDomain", "UnknownEvent"):
            raise tlc.MachineryError(f"generator left the property's domain: {show(e['expr'])}")
        detail = dict(ev=e["ev"], text=show(e["expr"]), raised=e.get("raised", ""), case=dict(ev=e["ev"], expr=e["expr"], base=e.get("base", 0), max=e.get("max", 0)))
        if e["ev"] == "render":
            detail["params"] = [[p["k"], p["n"], p["key"], p["v"] or p["iv"]] for p in e["ps"]][:60]
        else:
            detail["batch_lengths"] = [sum(p["len"] for p in b) + max(len(b) - 1, 0) for b in e["bs"]][:50]
        ck.violation(v["clause"], detail)


def run(ck):
    use_repo()
    real = Real()
    ck.rule = ("render: distinct search expression with at least two conditions (so slots / groups / & matter); "
               "batch: distinct (expression, base, max) whose batches() returned at least two batches")
    ck.assumptions = [
        "Bugzilla reads a search as: values of one plain key ORed, keys and top-level chart conditions ANDed; chart slots "
        "read in increasing slot order, f=OP/CP open/close a group joined by j<N> (the reference evaluator of BugQuery.tla)",
        "words are opaque: operators are interpreted on word sets (any/all/none), unknown operators as 'any'",
        "& of two searches naming the same plain key unites the values (pinned by the repository's tests)",
        "every parameter's urlencoded length is measured on the real rendering by the driver",
    ]
    semmax = ck.pick(8, 10)
    if ck.replay_case:
        c = ck.replay_case["detail"]["case"]
        ev = observe_render(real, 0, c["expr"]) if c["ev"] == "render" else observe_batch(real, 0, c["expr"], c["base"], c["max"])
        ck.count()
        ck.sample(dict(replay=show(c["expr"])))
        judge(ck, [ev], "Trace:replay", semmax)
        return
    # 1. the design
    # (VERIF_DEV_SKIP_MC: development shortcut while trying code mutations; the design runs do not depend on the code)
    if not os.environ.get("VERIF_DEV_SKIP_MC"):
        ck.laws("BugQuery_Laws", label="Laws:BugQuery_Laws", timeout=900)
        ck.mc("BugQuery_MC", cfg_text=mc_cfg(ck.pick(2, 3)), workers=ck.pick(4, 8), timeout=ck.pick(300, 2400),
              label=f"MC:BugQuery_MC MaxOps={ck.pick(2, 3)}")
        ck.mc("BugQuery_BatchMC", cfg_text=batch_cfg(ck.pick(4, 6)), workers=ck.pick(4, 8), timeout=ck.pick(300, 1200),
              label=f"MC:BugQuery_BatchMC MaxVals={ck.pick(4, 6)}")
    # 2. spec -> code
    cases = ck.export("BugQuery_Export", cfg_text=f"CONSTANT BatchLen = {ck.pick(2, 4)}\n", timeout=600)
    ck.exhaustive = False
    events = []
    for case in cases:
        tid = len(events)
        if case["kind"] == "render":
            ev = observe_render(real, tid, case["expr"])
            if count_conditions(case["expr"]) >= 2 and not ev["refused"]:
                ck.nontriv(("r", show(case["expr"])))
        else:
            ev = spec_batch_event(real, tid, case)
            if len(ev["bs"]) >= 2:
                ck.nontriv(("b", show(ev["expr"]), ev["base"], ev["max"]))
        events.append(ev)
        ck.count()
    ck.sample(dict(direction="spec->code", expr=show(events[len(events) // 3]["expr"]),
                   params=[[p["k"], p["n"], p["key"], p["v"]] for p in events[len(events) // 3].get("ps", [])][:12]))
    judge(ck, events, "Trace:spec-chosen", semmax)
    # 3. code -> spec
    r = rng(37)
    events = []
    for _ in range(ck.pick(800, 12000)):
        e = rnd_expr(r, r.randint(0, 3))
        ev = observe_render(real, len(events), e)
        if count_conditions(e) >= 2 and not ev["refused"]:
            ck.nontriv(("r", show(e)))
        events.append(ev)
        ck.count()
    ck.sample(dict(direction="code->spec", expr=show(events[-1]["expr"])))
    for _ in range(ck.pick(100, 600)):
        e, base, mx = rnd_batch(r, ck.pick(300, 1000))
        ev = observe_batch(real, len(events), e, base, mx)
        if len(ev["bs"]) >= 2:
            ck.nontriv(("b", show(e), base, mx))
        events.append(ev)
        ck.count()
    ck.sample(dict(direction="code->spec", batch=show(events[-1]["expr"])[:200], base=events[-1]["base"], max=events[-1]["max"],
                   batches=len(events[-1]["bs"])))
    step = ck.pick(2500, 1500)
    for k in range(0, len(events), step):
        judge(ck, events[k:k + step], f"Trace:random-{k // step}", semmax)
